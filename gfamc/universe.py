"""Universes for the history explorations: small, forced to collide."""
T = "\t".join

G1 = [
    T(["S", "A", "*"]), T(["S", "B", "*"]), T(["S", "C", "*"]),
    T(["L", "A", "+", "B", "+", "*"]),
    T(["L", "A", "+", "C", "+", "*"]),          # second dependant on A's R end
    T(["L", "A", "+", "B", "+", "2M1I"]),       # parallel, asymmetric CIGAR
    T(["L", "B", "-", "A", "-", "*"]),          # complement form of the first
    T(["L", "A", "+", "A", "+", "*"]),          # self-link
    T(["L", "A", "+", "A", "-", "*"]),          # hairpin: one end twice
    T(["C", "A", "+", "B", "+", "0", "*"]),
    T(["C", "A", "+", "C", "+", "0", "*"]),
    T(["P", "p", "A+,B+", "*"]),
    T(["P", "r", "B-,A-", "*"]),
    T(["P", "q", "A+", "*"]),
    T(["L", "B", "+", "C", "+", "*", "ID:Z:x"]),
    T(["L", "B", "+", "A", "+", "*"]),          # closes the circle A -> B -> A
    T(["P", "c", "A+,B+", "*,*"]),              # circular path
]

# a core that keeps depth-5/6 affordable
G1_CORE = [G1[i] for i in (0, 1, 3, 4, 6, 8, 9, 11, 12)]

G2 = [
    T(["S", "a", "4", "*"]), T(["S", "b", "4", "*"]), T(["S", "c", "4", "*"]),
    T(["E", "e1", "a+", "b+", "2", "4$", "0", "2", "*"]),      # dovetail
    T(["E", "*", "a+", "b+", "3", "4$", "0", "1", "*"]),       # unnamed parallel
    T(["E", "e2", "a+", "c+", "0", "4$", "1", "3", "*"]),      # containment
    T(["E", "e3", "a+", "b-", "1", "2", "1", "2", "*"]),       # internal
    T(["G", "g1", "a+", "b+", "10", "*"]),
    T(["F", "a", "x+", "0", "2", "0", "2", "*"]),
    T(["F", "b", "x-", "1", "3", "0", "2", "*"]),      # same external sequence
    T(["O", "o1", "a+ b+"]),
    T(["O", "o2", "e1+"]),
    T(["O", "o3", "o1+"]),
    T(["U", "u1", "a e1 g1"]),
    T(["U", "u2", "u1 o1"]),
    T(["U", "u1", "b"]),
    T(["O", "o4", "a+ g1+ b+"]),               # a gap as item of an ordered group
]
G2_SINGLE = [l for l in G2 if l != T(["U", "u1", "b"])]   # no multi-line group
G2_CORE = [G2[i] for i in (0, 1, 3, 4, 7, 8, 9, 10, 11, 13, 14)]


# non-initial start states ("@full"): everything of a universe that can be
# loaded together without an operation the properties leave open (a second
# link on the same ends, the second line of a multi-line group)
G1_FULL = [G1[i] for i in range(len(G1)) if i not in (5, 6)]
G2_FULL = [G2[i] for i in range(len(G2)) if i != 15]


def full_prefix(version):
  return [("add", l) for l in (G1_FULL if version == "gfa1" else G2_FULL)]
