"""Closure + symmetry of the reference graph (the C02 invariant), evaluated
through the public API only."""
import collections
import gfapy
from .observe import (ref_targets, backref_members, all_lines, lkey, rt_of,
                      line_name, safe_str, is_virtual)


def check_closed_symmetric(g, removed=()):
  """Returns a list of (clause, detail) problems; empty when the invariant
  holds.  `removed` are lines returned by rm/disconnect earlier in the
  history: they must be detached and unreachable."""
  problems = []
  ls, extra = all_lines(g)
  every = ls + extra
  ids = {id(l): l for l in every}
  refcount = collections.Counter()     # (id(src), id(tgt)) -> n
  backcount = collections.Counter()    # (id(member), id(holder)) -> n
  for l in every:
    k = lkey(l)
    try:
      owner = l.gfa
    except BaseException as e:
      owner = None
    if owner is not g:
      problems.append(("owner", "{} reports gfa={}".format(
          k, "None" if owner is None else "another Gfa")))
    # found under its current identifier
    n = line_name(l)
    if n is not None and rt_of(l) in "SEGOUP\nLC":
      try:
        found = g.line(n)
      except BaseException as e:
        found = "<{}>".format(type(e).__name__)
      if found is not l:
        problems.append(("lookup", "{} not found under its identifier "
                         "(line({!r}) -> {})".format(k, n,
                         lkey(found) if isinstance(found, gfapy.Line)
                         else repr(found))))
    elif n is None and l in ls and not is_virtual(l):
      pass
    for f, t, o in ref_targets(l):
      if not isinstance(t, gfapy.Line):
        problems.append(("dangling-ref", "{}.{} holds {} instead of a line"
                         .format(k, f, safe_str(t)[:60])))
        continue
      try:
        tg = t.gfa
      except BaseException:
        tg = None
      if tg is not g:
        problems.append(("ref-to-removed", "{}.{} -> {} which is not a line "
                         "of this Gfa".format(k, f, lkey(t))))
      refcount[(id(l), id(t))] += 1
      ids.setdefault(id(t), t)
    for c, m in backref_members(l):
      if not isinstance(m, gfapy.Line):
        problems.append(("dangling-backref", "{}.{} holds {}".format(
            k, c, safe_str(m)[:60])))
        continue
      try:
        mg = m.gfa
      except BaseException:
        mg = None
      if mg is not g:
        problems.append(("backref-to-removed", "{}.{} lists {} which is not "
                         "a line of this Gfa".format(k, c, lkey(m))))
      backcount[(id(m), id(l))] += 1
      ids.setdefault(id(m), m)
  for key in set(refcount) | set(backcount):
    r, b = refcount.get(key, 0), backcount.get(key, 0)
    if r != b:
      src, tgt = ids[key[0]], ids[key[1]]
      problems.append(("asymmetric", "{} references {} {}x but is listed "
                       "{}x in its back-references".format(
                           lkey(src), lkey(tgt), r, b)))
  # membership: everything reachable must be registered (listed or a
  # registered placeholder found by name)
  listed = set(id(l) for l in ls)
  for l in extra:
    n = line_name(l)
    ok = False
    if n is not None:
      try:
        ok = g.line(n) is l
      except BaseException:
        ok = False
    if not ok:
      problems.append(("unregistered", "{} is reachable but not a line of "
                       "the Gfa".format(lkey(l))))
  for r in removed:
    if not isinstance(r, gfapy.Line):
      continue
    try:
      rg = r.gfa
    except BaseException:
      rg = "?"
    if rg is g:
      # re-added later in the history: fine
      continue
    if id(r) in ids:
      problems.append(("removed-reachable", "{} was removed but is still "
                       "reachable".format(lkey(r))))
    for f, t, o in ref_targets(r):
      if isinstance(t, gfapy.Line):
        problems.append(("removed-holds-ref", "removed {} still references "
                         "{} as an object".format(lkey(r), lkey(t))))
  # de-duplicate, stable
  seen = set(); out = []
  for p in problems:
    if p not in seen:
      seen.add(p); out.append(p)
  return out


def has_reference_edge(g):
  ls, extra = all_lines(g)
  for l in ls:
    if ref_targets(l):
      return True
  return False


def placeholders(g):
  ls, extra = all_lines(g)
  return [l for l in ls + extra if is_virtual(l)]


def namespace_coherence(g):
  """Model-free: pairwise distinct identifiers, every identified line found
  under its identifier, and no identifier carried by a line of the Gfa while
  other lines still refer to a placeholder of that name.  Returns a list of
  problem strings."""
  import gfapy
  from . import observe
  out = []
  try:
    names = list(g.names)
    ls, extra = observe.all_lines(g)
  except Exception as e:
    return ["names / lines raise " + type(e).__name__]
  if len(names) != len(set(names)):
    out.append("duplicate identifiers {}".format(sorted(map(str, names))))
  real, virt = {}, set()
  for l in ls + extra:
    n = observe.line_name(l)
    if n is None:
      continue
    if observe.is_virtual(l):
      virt.add(n)
    elif any(l is x for x in ls):
      if n in real:
        out.append("two lines carry {!r}".format(n))
      real[n] = l
  for n, l in real.items():
    try:
      if g.line(n) is not l:
        out.append("line({!r}) does not return the line carrying it".format(n))
    except Exception as e:
      out.append("line({!r}) raises {}".format(n, type(e).__name__))
  for n in names:
    try:
      l = g.line(n)
    except Exception as e:
      out.append("line({!r}) raises {}".format(n, type(e).__name__))
      continue
    if l is None or observe.line_name(l) != n:
      out.append("names lists {!r}, but line({!r}) is {}".format(
          n, n, "None" if l is None else "a line named {!r}".format(
              observe.line_name(l))))
  both = sorted(set(real) & virt)
  if both:
    out.append("{} carried by a line while other lines still refer to a "
               "placeholder of that name".format(both))
  for l in extra:
    if not observe.is_virtual(l):
      n = observe.line_name(l)
      if n is not None and n in real and real[n] is not l:
        out.append("lines of the Gfa still refer to a replaced line that "
                   "carried {!r}".format(n))
  return out
