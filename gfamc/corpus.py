"""Corpus of valid lines and documents, one or more per record family, with
every tag datatype.  Used by the mutation enumerations of C04 / C07 and as the
document seeds of other checks."""
T = "\t".join

TAGS = ["xa:A:x", "xi:i:-12", "xf:f:1.5e-3", "xz:Z:a b", 'xj:J:{"a":[1,2]}',
        "xh:H:1AF0", "xb:B:c,-1,2", "xc:B:f,1.5,2"]

GFA1_LINES = [
    T(["H", "VN:Z:1.0"]),
    T(["H", "xx:i:1", "xz:Z:a b"]),
    "# a comment",
    T(["S", "A", "ACGT", "LN:i:4", "RC:i:7"]),
    T(["S", "B", "*", "LN:i:5"] + TAGS[:4]),
    T(["S", "C", "AC", "SH:H:1AF0", "UR:Z:x/y"] + TAGS[4:]),
    T(["L", "A", "+", "B", "-", "2M1I", "ID:Z:l1", "MQ:i:3"]),
    T(["L", "A", "-", "A", "+", "*"]),
    T(["C", "A", "+", "C", "-", "1", "2M", "NM:i:0"]),
    T(["P", "p1", "A+,B-", "2M1I"]),
    T(["P", "p2", "A+,B-,C+", "*"]),
]
GFA1_DOC = [GFA1_LINES[i] for i in (0, 2, 3, 4, 5, 6, 8, 9)]

GFA2_LINES = [
    T(["H", "VN:Z:2.0", "TS:i:100"]),
    "# a comment",
    T(["S", "a", "4", "ACGT", "RC:i:7"]),
    T(["S", "b", "5", "*"] + TAGS[:4]),
    T(["S", "c", "2", "AC"] + TAGS[4:]),
    T(["E", "e1", "a+", "b-", "2", "4$", "3", "5$", "2M", "TS:i:5"]),
    T(["E", "*", "a+", "c+", "1", "3", "0", "2$", "1,2"]),
    T(["F", "a", "x+", "0", "2", "10", "12$", "*"]),
    T(["G", "g1", "a+", "b-", "10", "*"]),
    T(["G", "*", "a-", "c+", "-3", "2"]),
    T(["O", "o1", "a+ e1+ b-"]),
    T(["O", "o2", "a+ b-", "xx:i:1"]),
    T(["U", "u1", "a b e1 g1 o1"]),
    T(["U", "u2", "u1 c"]),
    T(["X", "f1", "f 2", "xx:i:1"]),
]
GFA2_DOC = [GFA2_LINES[i] for i in (0, 1, 2, 3, 4, 5, 7, 8, 10, 12, 14)]
