"""Complete enumeration of small assembly graphs (Engine I) for C14 / C16.

A graph is a small picklable *spec*; `text(spec)` writes the GFA document.
Nothing is sampled: every generator yields a finite family completely, in
order of increasing size (segments, then number of edges), so that the first
counter-example found is a smallest one.

GFA1 / GFA2-twin spec:  (kind, n, segvar, links, extras)
  kind    'g1' (GFA1) | 'g2' (GFA2 twin of the same graph) | 'g2x' / 'g2y'
          (twin with the sides of all / every other E line exchanged)
  n       number of segments, named A, B, C, D
  segvar  'seq'   distinct 3-letter sequences, no LN
          'star'  `*` + LN:i:3 (GFA2: `*` with slen 3)
          'seqln' sequence + LN:i:3
          'mix'   A and C have a sequence, B and D are `*` + LN:i:3
  links   tuple of (e1, e2, form, ovl); e = 2*segment + (0 for L, 1 for R),
          e1 <= e2 (e1 == e2 is a hairpin; same segment, different ends is a
          self-link); form 0 writes the link from e1 to e2, form 1 the
          complement record (from e2 to e1); ovl in `*`, `1M`, `2M`
  extras  tuple of further lines (header, comment, C, P) written verbatim

GFA2 mixed spec: ('e2', n, edges) with edges = tuple of
  (s1, o1, s2, o2, k1, k2); segments a, b, c of length 4; k = interval kind.
"""
import itertools

NAMES = "ABCD"
# all 8 oriented strings are distinct, also after dropping 1 or 2 letters
SEQS = {"A": "ACC", "B": "GAT", "C": "TTG", "D": "CTA"}
# IUPAC ambiguity codes, mixed case: every oriented string is still distinct
SEQS_IUPAC = {"A": "ASr", "B": "WKb", "C": "nMY", "D": "HdV"}
# ... and two more sets, so that every IUPAC letter occurs in both cases on
# the segments A..C
SEQS_IUPAC2 = {"A": "CGT", "B": "RBD", "C": "Ncy", "D": "gtA"}
SEQS_IUPAC3 = {"A": "skm", "B": "whv", "C": "gat", "D": "Cmk"}
SLEN = 3
OVLS = ("*", "1M", "2M")


def end_of(e):
  return NAMES[e // 2], "LR"[e % 2]


def end_pairs(n):
  return [(a, b) for a in range(2 * n) for b in range(a, 2 * n)]


def candidates(n, ovls=OVLS):
  out = []
  for a, b in end_pairs(n):
    for form in ((0,) if a == b else (0, 1)):
      for o in ovls:
        out.append((a, b, form, o))
  return out


def valid_linkset(links):
  """gfapy (like the GFA1 specification's notion of a link) refuses a second
  link over the same end pair unless both overlaps are specified and differ;
  such documents are not graphs of the family."""
  by = {}
  for a, b, form, o in links:
    by.setdefault((a, b), []).append(o)
  for os in by.values():
    if len(os) > 1 and ("*" in os or len(set(os)) != len(os)):
      return False
  return True


def full(n, kmax, ovls=OVLS, kmin=0):
  """Every valid set of kmin..kmax link records over ALL end pairs of n
  segments, both record forms, all overlaps (parallel links included)."""
  c = candidates(n, ovls)
  for k in range(kmin, kmax + 1):
    for ls in itertools.combinations(c, k):
      if valid_linkset(ls):
        yield ls


def shapes(n, kmax, kmin=0):
  """Every set of kmin..kmax distinct end pairs."""
  p = end_pairs(n)
  for k in range(kmin, kmax + 1):
    for s in itertools.combinations(p, k):
      yield s


# (form pattern, overlap pattern): how record form and overlap are assigned
# to the i-th end pair of a shape
_F = [lambda i: 0, lambda i: 1, lambda i: i % 2, lambda i: (i + 1) % 2]
_O = [lambda i: "*", lambda i: "1M",
      lambda i: ("1M", "2M", "*")[i % 3], lambda i: ("2M", "*", "1M")[i % 3]]
PATTERNS = [(0, 0), (1, 1), (2, 2), (3, 3), (0, 3), (1, 2)]


def patterned(shape, pat):
  f, o = _F[PATTERNS[pat][0]], _O[PATTERNS[pat][1]]
  return tuple((a, b, 0 if a == b else f(i), o(i))
               for i, (a, b) in enumerate(shape))


def spec(kind, n, segvar, links, extras=()):
  return (kind, n, segvar, tuple(links), tuple(extras))


# ---------------------------------------------------------------------------
# writing

IUPAC_LETTERS = "ACGTRYKMSWBDHVN"


def _seg_fields(name, segvar):
  if segvar.startswith("L:"):
    # one-letter probe: L:<letter>:<which segment carries it>
    _, x, who = segvar.split(":")
    carrier = "AB"[int(who)]
    return ((x + "CA" + x) if name == carrier else "GGTT"), False
  if segvar == "lnmix":
    # every segment has a sequence, only A and C also carry LN
    return SEQS[name], name in "AC"
  star = (segvar == "star") or (segvar == "mix" and name in "BD")
  seq = "*" if star else {"iupac": SEQS_IUPAC, "iupac2": SEQS_IUPAC2,
                          "iupac3": SEQS_IUPAC3}.get(segvar, SEQS)[name]
  ln = star or segvar == "seqln"
  return seq, ln


def _from(e):
  n, x = end_of(e)
  return n, "+" if x == "R" else "-"


def _to(e):
  n, x = end_of(e)
  return n, "+" if x == "L" else "-"


def link_line(l):
  a, b, form, o = l
  if form == 1:
    a, b = b, a
  (f, fo), (t, to) = _from(a), _to(b)
  return "\t".join(["L", f, fo, t, to, o])


def _iv(x, k):
  if x == "L":
    return "0", str(k)
  return (str(SLEN - k) + ("$" if k == 0 else "")), str(SLEN) + "$"


def edge_line(l, swapped=False):
  """swapped: the same adjacency with the two sides of the E line exchanged
  (the side whose PREFIX takes part comes first: an E line never produced by
  a conversion from GFA1, but just as valid)."""
  a, b, form, o = l
  if form == 1:
    a, b = b, a
  (f, fo), (t, to) = _from(a), _to(b)
  k = 0 if o == "*" else int(o[:-1])
  b1, e1 = _iv(end_of(a)[1], k)
  b2, e2 = _iv(end_of(b)[1], k)
  if swapped:
    return "\t".join(["E", "*", t + to, f + fo, b2, e2, b1, e1, o])
  return "\t".join(["E", "*", f + fo, t + to, b1, e1, b2, e2, o])


def text(sp):
  kind = sp[0]
  if kind == "e2":
    return text_e2(sp)
  kind, n, segvar, links, extras = sp
  out = [x for x in extras if x[0] in "H"]
  for name in NAMES[:n]:
    seq, ln = _seg_fields(name, segvar)
    if kind == "g1":
      out.append("\t".join(["S", name, seq] + (["LN:i:3"] if ln else [])))
    else:
      out.append("\t".join(["S", name, str(SLEN), seq]))
  for i, l in enumerate(links):
    if kind == "g1":
      out.append(link_line(l))
    else:
      # g2: sid1 is the from-side; g2x: sides exchanged; g2y: every other one
      out.append(edge_line(l, kind == "g2x" or (kind == "g2y" and i % 2 == 0)))
  out += [x for x in extras if x[0] not in "H"]
  return "\n".join(out) + "\n"


def version(sp):
  return "gfa1" if sp[0] == "g1" else "gfa2"


# ---------------------------------------------------------------------------
# decorations: lines that do not take part in the merge

def decorations(n, links):
  """Variants of extra lines for one GFA1 graph: header + comment; one
  containment for every ordered pair of distinct segments; one path along
  each link."""
  yield ("H\tVN:Z:1.0", "# a comment")
  for x in NAMES[:n]:
    for y in NAMES[:n]:
      if x != y:
        yield ("\t".join(["C", x, "+", y, "-", "0", "1M"]),)
  # several dependants of one kind on one segment (two containments with the
  # same container / the same contained segment, given the third segment)
  if n >= 3:
    for x in NAMES[:n]:
      others = [y for y in NAMES[:n] if y != x]
      yield tuple("\t".join(["C", x, "+", y, "-", "0", "1M"]) for y in others)
      yield tuple("\t".join(["C", y, "+", x, "+", "0", "1M"]) for y in others)
  for l in links:
    a, b, form, o = l
    if form == 1:
      a, b = b, a
    (f, fo), (t, to) = _from(a), _to(b)
    yield ("\t".join(["P", "p", f + fo + "," + t + to, o]),)


# ---------------------------------------------------------------------------
# GFA2 graphs mixing dovetails, containments and internal alignments

E2NAMES = "abc"
E2LEN = 4
KINDS = {"pfx": ("0", "2"), "sfx": ("2", "4$"), "whole": ("0", "4$"),
         "int": ("1", "3"), "epfx": ("0", "0"), "esfx": ("4$", "4$"),
         "pt": ("2", "2")}
KINDS_BASIC = ("pfx", "sfx", "whole", "int")
KINDS_ALL = ("pfx", "sfx", "whole", "int", "epfx", "esfx", "pt")


def e2_candidates(n, kinds, pairs=None):
  out = []
  for s1 in range(n):
    for s2 in range(n):
      if pairs is not None and (s1, s2) not in pairs:
        continue
      for o1 in "+-":
        for o2 in "+-":
          for k1 in kinds:
            for k2 in kinds:
              out.append((s1, o1, s2, o2, k1, k2))
  return out


def e2_graphs(n, kmax, kinds, kmin=0, pairs=None):
  c = e2_candidates(n, kinds, pairs)
  for k in range(kmin, kmax + 1):
    for es in itertools.combinations(c, k):
      yield ("e2", n, es)


def text_e2(sp):
  _, n, edges = sp
  out = ["\t".join(["S", E2NAMES[i], str(E2LEN), "*"]) for i in range(n)]
  for s1, o1, s2, o2, k1, k2 in edges:
    out.append("\t".join(["E", "*", E2NAMES[s1] + o1, E2NAMES[s2] + o2,
                          KINDS[k1][0], KINDS[k1][1], KINDS[k2][0],
                          KINDS[k2][1], "*"]))
  return "\n".join(out) + "\n"


# ---------------------------------------------------------------------------
# the families used by the checks

def family_gfa1(tier, full3=True):
  """List of (label, spec) - the GFA1 family shared by C14 and C16 (C16 runs
  the thorough tier without the complete 3-link product on 3 segments)."""
  out = []
  quick = (tier == "quick")
  # F1: every set of <= 3 end pairs on <= 3 segments x 6 form/overlap
  #     patterns (the pattern only matters when there is a link)
  for n in (1, 2, 3):
    for sh in shapes(n, 3):
      for pat in range(len(PATTERNS) if sh else 1):
        out.append(("shape", spec("g1", n, "seq", patterned(sh, pat))))
  # F2: complete product record form x overlap (parallel links included)
  for n, k in ((1, 3), (2, 3), (3, 2)):
    for ls in full(n, k, kmin=1):
      out.append(("full", spec("g1", n, "seq", ls)))
  # F3: sequence variants on the pattern that mixes forms and overlaps
  for sv in ("star", "seqln", "mix", "iupac", "iupac2", "iupac3", "lnmix"):
    for n in (2, 3):
      for sh in shapes(n, 3 if sv not in ("seqln", "iupac", "iupac2", "iupac3", "lnmix") or not quick else 2, kmin=1):
        out.append(("segvar", spec("g1", n, sv, patterned(sh, 2))))
  # F3b: every IUPAC letter, both cases, on a segment that is traversed
  #      backwards (two segments, joined R-R or L-L: exactly one of them is
  #      reverse complemented, whichever the implementation picks -- so the
  #      letter is put on either of them)
  for x in IUPAC_LETTERS + IUPAC_LETTERS.lower():
    for who in (0, 1):
      for pair in ((1, 3), (0, 2)):        # A.R-B.R ; A.L-B.L
        for ov in ("*", "1M"):
          out.append(("letters", spec("g1", 2, "L:{}:{}".format(x, who),
                                      ((pair[0], pair[1], 0, ov),))))
  # F4: decorated graphs (lines that must survive untouched)
  for n in (2, 3):
    for sh in shapes(n, 2):
      ls = patterned(sh, 2)
      for ex in decorations(n, ls):
        out.append(("decor", spec("g1", n, "seq", ls, ex)))
  if not quick:
    # T1: complete product on 3 segments with 3 links
    for ls in (full(3, 3, kmin=3) if full3 else ()):
      out.append(("full", spec("g1", 3, "seq", ls)))
    # T2: 4 links on 3 segments, 4 segments with <= 4 links: all shapes x
    #     4 patterns
    for sh in shapes(3, 4, kmin=4):
      for pat in range(4):
        out.append(("shape", spec("g1", 3, "seq", patterned(sh, pat))))
    for sh in shapes(4, 4):
      for pat in range(4 if sh else 1):
        out.append(("shape", spec("g1", 4, "seq", patterned(sh, pat))))
  return out


def family_gfa2_twins(tier):
  out = []
  quick = (tier == "quick")
  for n in (1, 2, 3):
    for sh in shapes(n, 3):
      for pat in ((2,) if quick else (0, 1, 2, 3)):
        if not sh and pat != 2:
          continue
        out.append(("twin", spec("g2", n, "seq", patterned(sh, pat))))
  for n in (2, 3):
    for sh in shapes(n, 2, kmin=1):
      out.append(("twin-star", spec("g2", n, "star", patterned(sh, 3))))
  # identical unnamed E lines are distinct (parallel) edges: every shape with
  # one of its edges written twice
  for n in (2, 3):
    for sh in shapes(n, 2 if quick else 3, kmin=1):
      ls = patterned(sh, 2)
      for i in range(len(ls)):
        out.append(("twin-parallel", spec("g2", n, "seq", ls,
                                          (edge_line(ls[i]),))))
  # GFA2 lines that do not take part in the merge: fragments (one read on
  # several segments), header, comment, custom record
  F = lambda s, x, o: "\t".join(["F", s, x + o, "0", "1", "0", "1", "*"])
  for n in (2, 3):
    for sh in shapes(n, 2, kmin=1):
      ls = patterned(sh, 2)
      last = NAMES[n - 1]
      for ex in ((F("A", "x", "+"), F(last, "x", "+")),
                 (F("A", "x", "+"), F("A", "y", "-"), F("B", "x", "-"),
                  F(last, "y", "+")),
                 ("H\tVN:Z:2.0", "# a comment", "X\tcustom\trecord")):
        out.append(("twin-decor", spec("g2", n, "seq", ls, ex)))
  # the same adjacencies written with the sides of the E lines exchanged
  for n in (2, 3):
    for sh in shapes(n, 3, kmin=1):
      for kind in ("g2x", "g2y"):
        for pat in ((2,) if quick else (1, 2, 3)):
          out.append(("twin-swapped", spec(kind, n, "seq",
                                           patterned(sh, pat))))
  if not quick:
    for n, k in ((2, 3), (3, 2)):
      for ls in full(n, k, kmin=1):
        out.append(("twin-full", spec("g2", n, "seq", ls)))
    for sh in shapes(4, 3):
      out.append(("twin", spec("g2", 4, "seq", patterned(sh, 2))))
  return out


AB = ((0, 0), (0, 1), (1, 0))     # (b,b) is (a,a) renamed


def family_gfa2_mixed(tier):
  out = []
  if tier == "quick":
    for g in e2_graphs(1, 2, KINDS_BASIC):
      out.append(("e2", g))
    for g in e2_graphs(2, 1, KINDS_ALL, kmin=1):
      out.append(("e2", g))
    for g in e2_graphs(2, 2, KINDS_BASIC, kmin=2, pairs=AB):
      out.append(("e2", g))
  else:
    for g in e2_graphs(1, 3, KINDS_BASIC):
      out.append(("e2", g))
    for g in e2_graphs(2, 1, KINDS_ALL, kmin=1):
      out.append(("e2", g))
    for g in e2_graphs(2, 2, KINDS_ALL, kmin=2, pairs=AB):
      out.append(("e2", g))
    for g in e2_graphs(3, 2, KINDS_BASIC, kmin=1):
      out.append(("e2", g))
  return out
