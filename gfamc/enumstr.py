"""Engine I helpers: complete enumeration of short strings, partitioned into
picklable tasks; single-point mutations of a corpus."""
import itertools


def all_strings(alphabet, maxlen, minlen=0):
  for n in range(minlen, maxlen + 1):
    for t in itertools.product(alphabet, repeat=n):
      yield "".join(t)


def count_strings(k, maxlen, minlen=0):
  return sum(k ** n for n in range(minlen, maxlen + 1))


def prefix_tasks(alphabet, maxlen, plen=2):
  """Partition { strings of length <= maxlen } into tasks: one task for all
  strings shorter than plen, then one per prefix of length plen."""
  tasks = [("short", "")]
  if maxlen >= plen:
    for t in itertools.product(alphabet, repeat=plen):
      tasks.append(("prefix", "".join(t)))
  return tasks


def task_strings(task, alphabet, maxlen, plen=2):
  kind, p = task
  if kind == "short":
    yield from all_strings(alphabet, min(maxlen, plen - 1))
  else:
    for n in range(0, maxlen - plen + 1):
      for t in itertools.product(alphabet, repeat=n):
        yield p + "".join(t)


def mutations(s, alphabet):
  """All single-point mutations (replace / delete / insert) of s."""
  seen = set()
  for i in range(len(s)):
    d = s[:i] + s[i + 1:]
    if d not in seen:
      seen.add(d); yield ("del", i, d)
    for c in alphabet:
      if c != s[i]:
        r = s[:i] + c + s[i + 1:]
        if r not in seen:
          seen.add(r); yield ("rep", i, r)
  for i in range(len(s) + 1):
    for c in alphabet:
      r = s[:i] + c + s[i:]
      if r not in seen:
        seen.add(r); yield ("ins", i, r)
