"""MANIFEST.setup_cmd: nothing to build; verifies the interpreter, that gfapy
imports from /repo and that every registered check module imports."""
import sys, os, json, importlib
V = os.path.dirname(os.path.dirname(os.path.abspath(__file__)))
sys.path.insert(0, V)
repo = os.environ.get("GFAMC_REPO", "/repo")
sys.path.insert(0, repo)
sys.dont_write_bytecode = True
import gfapy
assert os.path.realpath(os.path.dirname(os.path.dirname(gfapy.__file__))) == os.path.realpath(repo), gfapy.__file__
m = json.load(open(os.path.join(V, "MANIFEST.json")))
for c in m["checks"]:
  importlib.import_module("gfamc.checks." + c["property_id"].lower())
os.makedirs(os.path.join(V, "evidence"), exist_ok=True)
print("selfcheck ok: python {}, gfapy from {}, {} checks".format(sys.version.split()[0], repo, len(m["checks"])))
