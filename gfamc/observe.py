"""Public-API observation of a Gfa / Line and canonical forms.

Which fields are references and which back-reference collections a record type
has are written down HERE from doc/tutorial/references.rst, not read from
gfapy's REFERENCE_FIELDS / DEPENDENT_LINES tables, so that a change to those
tables shows up as a behaviour change instead of silently redefining the
oracle.
"""
import gfapy

REF_FIELDS = {
    "L": ["from_segment", "to_segment"],
    "C": ["from_segment", "to_segment"],
    "P": ["segment_names"],
    "E": ["sid1", "sid2"],
    "G": ["sid1", "sid2"],
    "F": ["sid"],
    "U": ["items"],
    "O": ["items"],
}
# non-field references (references.rst, note (1))
NONFIELD_REFS = {"P": ["links"]}

BACKREFS = {
    "S": ["dovetails_L", "dovetails_R", "edges_to_contained",
          "edges_to_containers", "internals", "gaps_L", "gaps_R",
          "fragments", "paths", "sets"],
    "L": ["paths"],
    "E": ["paths", "sets"],
    "O": ["paths", "sets"],
    "U": ["sets"],
    "G": ["sets", "paths"],
    "\n": ["paths", "sets"],
}


def safe_str(x):
  try:
    return str(x)
  except BaseException as e:  # noqa
    return "<str-error:{}>".format(type(e).__name__)


def line_name(line):
  """Identifier of a line or None (unnamed / placeholder / no name field)."""
  try:
    n = line.name
  except BaseException:
    return None
  if n is None or gfapy.is_placeholder(n):
    return None
  if not isinstance(n, str):
    return safe_str(n)
  return n


def rt_of(line):
  try:
    return line.record_type
  except BaseException:
    return "?"


def lkey(line):
  """Stable key of a line inside one Gfa."""
  if isinstance(line, str):
    return "str:" + line
  if line is None:
    return "none"
  if not isinstance(line, gfapy.Line):
    return "obj:" + type(line).__name__
  rt = rt_of(line)
  n = line_name(line)
  v = "~" if is_virtual(line) else ""
  if n is not None:
    return "{}{}:{}".format(v, rt, n)
  return "{}{}={}".format(v, rt, safe_str(line))


def is_virtual(line):
  try:
    return bool(line.virtual)
  except BaseException:
    return False


def ref_targets(line):
  """List of (fieldname, target, orient-or-None) for every reference the
  line holds, through fields and through non-field reference lists."""
  out = []
  rt = rt_of(line)
  for f in REF_FIELDS.get(rt, []):
    try:
      v = line.get(f)
    except BaseException as e:
      out.append((f, "<get-error:{}>".format(type(e).__name__), None))
      continue
    _collect(f, v, out)
  for f in NONFIELD_REFS.get(rt, []):
    try:
      v = getattr(line, f)
    except BaseException as e:
      out.append((f, "<get-error:{}>".format(type(e).__name__), None))
      continue
    _collect(f, v, out)
  return out


def _collect(f, v, out):
  if isinstance(v, gfapy.OrientedLine):
    out.append((f, v.line, v.orient))
  elif isinstance(v, list):
    for e in v:
      _collect(f, e, out)
  else:
    out.append((f, v, None))


def backref_members(line):
  """List of (collection, member) for every back-reference the line holds."""
  out = []
  rt = rt_of(line)
  seen_ids = set()
  for c in BACKREFS.get(rt, []):
    try:
      v = getattr(line, c)
    except BaseException:
      continue
    if not isinstance(v, list):
      continue
    for m in v:
      if isinstance(m, gfapy.OrientedLine):
        m = m.line
      out.append((c, m))
      seen_ids.add(id(m))
  # catch-all: anything gfapy itself lists as referencing this line but that
  # is in none of the documented collections
  try:
    allr = line.all_references
  except BaseException:
    allr = []
  rf = set(REF_FIELDS.get(rt, []) + NONFIELD_REFS.get(rt, []))
  for m in allr:
    if isinstance(m, gfapy.OrientedLine):
      m = m.line
    if id(m) not in seen_ids and not _is_own_ref(line, m, rf):
      out.append(("<other>", m))
      seen_ids.add(id(m))
  return out


def _is_own_ref(line, m, rf):
  # Path keeps its links in _refs["links"]; those are references *from* the
  # path, reported by ref_targets, not back-references.
  for f, t, o in ref_targets(line):
    if t is m:
      return True
  return False


def all_lines(g):
  """Every line the Gfa lists, plus placeholders registered in it."""
  try:
    ls = list(g.lines)
  except BaseException:
    ls = []
  # Unknown placeholders ("\n" records) are not part of g.lines
  seen = set(id(l) for l in ls)
  extra = []
  stack = list(ls)
  while stack:
    l = stack.pop()
    for _, t, _o in ref_targets(l):
      if isinstance(t, gfapy.Line) and id(t) not in seen:
        seen.add(id(t)); extra.append(t); stack.append(t)
    for _, m in backref_members(l):
      if isinstance(m, gfapy.Line) and id(m) not in seen:
        seen.add(id(m)); extra.append(m); stack.append(m)
  return ls, extra


def obs(g, ordered_text=False, keep_backref_order=True):
  """Canonical observation of a Gfa (JSON-able)."""
  ls, extra = all_lines(g)
  lines = []
  for l in ls + extra:
    k = lkey(l)
    refs = [(f, lkey(t) if isinstance(t, gfapy.Line) else "str:" + safe_str(t),
             o) for f, t, o in ref_targets(l)]
    br = [(c, lkey(m)) for c, m in backref_members(l)]
    if not keep_backref_order:
      br = sorted(br)
    try:
      own = l.gfa is g
    except BaseException:
      own = False
    lines.append([safe_str(l), k, bool(is_virtual(l)), own, refs, br])
  text = [x[0] for x in lines[:len(ls)]]
  if not ordered_text:
    lines = sorted(lines, key=repr)
  try:
    names = sorted(g.names)
  except BaseException as e:
    names = ["<names-error:{}>".format(type(e).__name__)]
  return {"version": g.version, "lines": lines, "names": names,
          "text": text if ordered_text else None}


def text_lines(g):
  """Written form, one string per record, order as written."""
  s = str(g)
  return s.split("\n") if s else []


ALLOWED_TARGETS = {
    ("L", "from_segment"): "S", ("L", "to_segment"): "S",
    ("C", "from_segment"): "S", ("C", "to_segment"): "S",
    ("P", "segment_names"): "S", ("P", "links"): "L",
    ("E", "sid1"): "S", ("E", "sid2"): "S",
    ("G", "sid1"): "S", ("G", "sid2"): "S",
    ("F", "sid"): "S",
    ("O", "items"): "SEGO\n", ("U", "items"): "SEGOU\n",
}


def ill_typed(g):
  """Does some line mention an identifier that is defined with a record type
  the mentioning field cannot refer to (e.g. a path listing a set)?  Such
  documents are outside every property's quantifier ('valid documents',
  'legal steps'); the explorer does not judge or expand them."""
  ls, extra = all_lines(g)
  for l in ls + extra:
    rt = rt_of(l)
    for f, t, o in ref_targets(l):
      if isinstance(t, gfapy.Line):
        allowed = ALLOWED_TARGETS.get((rt, f))
        if allowed is not None and rt_of(t) not in allowed:
          return True
  return False
