"""Engine H: explicit-state breadth-first search over operation histories.

A state is the history that reaches it; it is rebuilt by replay on a fresh Gfa
(live Gfa objects cannot be copied).  Search is level-synchronous; states are
de-duplicated by a canonical observation key."""
import json
import gfapy
from . import observe
from .runner import (guard, timed_out, h, new_result, mkviolation,
                     HarnessTimeout)

SPECS = {}


class Spec:
  """One exploration problem.  Subclass or fill in the callables.

  universe : list of line strings that may be added
  version  : 'gfa1' | 'gfa2' | None
  vlevel   : int
  judge(g, env, hist, op, err) -> list of (clause, detail)
  follow_errors : expand states reached by an operation that raised
  """
  name = None
  universe = ()
  version = None
  vlevel = 1
  dialect = "standard"
  rename_targets = ("Z",)
  tag_ops = False
  rm_virtual = False
  follow_errors = False
  keep_backref_order = True
  soft_clauses = ()      # reported, but the state is still expanded
  name_unnamed = ()      # identifiers given to unnamed lines (op "nameit")
  unname_ops = False     # delete the ID tag of a GFA1 link / containment
  clone_ops = ()         # names given to clones of segments (op "addclone")
  readd_ops = False      # add a removed Line OBJECT again (op "readd")

  def __init__(self, **kw):
    for k, v in kw.items():
      setattr(self, k, v)
    SPECS[self.name] = self

  def init(self):
    return gfapy.Gfa(version=self.version, vlevel=self.vlevel,
                     dialect=self.dialect)

  def key(self, g, env):
    o = observe.obs(g, keep_backref_order=self.keep_backref_order)
    return h(o)

  def ops(self, g, env, hist):
    return enabled_ops(g, self, env)

  def extra_ops(self, g, env, hist):
    return []

  def judge(self, g, env, hist, op, err):
    return []

  def nontrivial(self, g, env):
    from .invariants import has_reference_edge
    return has_reference_edge(g)


class Env:
  def __init__(self):
    self.removed = []
    self.errors = []
    self.gone = []        # every Line object that left the Gfa (with cascade)


def find_by_text(g, text):
  for l in g.lines:
    if observe.safe_str(l) == text:
      return l
  raise LookupError("no line with text {!r}".format(text))


def fmt_op(op):
  return " ".join(x.replace("\t", " ") if isinstance(x, str) else repr(x)
                  for x in op)


def apply_op(g, op, env):
  if op[0] in ("rm", "rmi", "disc"):
    try:
      before = [l for l in g.lines if not observe.is_virtual(l)]
    except Exception:
      before = []
    try:
      return _apply_op(g, op, env)
    finally:
      for l in before:
        try:
          if not l.is_connected() and not any(l is x for x in env.gone):
            env.gone.append(l)
        except Exception:
          pass
  return _apply_op(g, op, env)


def _apply_op(g, op, env):
  k = op[0]
  if k == "add":
    g.add_line(op[1])
  elif k == "rm":
    l = g.line(op[1])
    if l is not None:
      env.removed.append(l)
    g.rm(op[1])
  elif k == "rmi":
    l = find_by_text(g, op[1])
    env.removed.append(l)
    g.rm(l)
  elif k == "disc":
    l = find_by_text(g, op[1])
    env.removed.append(l)
    l.disconnect()
  elif k == "rename":
    l = g.try_get_line(op[1])
    l.name = op[2]
  elif k == "settag":
    l = find_by_text(g, op[1])
    l.set(op[2], op[3])
  elif k == "deltag":
    l = find_by_text(g, op[1])
    l.delete(op[2])
  elif k == "plq":
    g.process_line_queue()
  elif k == "nameit":
    l = find_by_text(g, op[1])
    if observe.rt_of(l) in ("L", "C"):
      l.set("ID", op[2])
    else:
      l.name = op[2]
  elif k == "setfield":
    l = find_by_text(g, op[1])
    l.set(op[2], op[3])
  elif k == "conv":
    # converting a GFA1 Gfa (documented to give the unnamed links the IDs
    # the E lines get); the converted Gfa is dropped, the source goes on
    g.to_gfa2_s()
  elif k == "addshare":
    # a new line built through the API whose field value is the VERY OBJECT
    # another line of the Gfa holds (new.sid1 = old.sid1), then added
    donor = find_by_text(g, op[1])
    n = gfapy.Line(op[2], version=g.version, vlevel=g.vlevel)
    n.set(op[3], donor.get(op[3]))
    g.add_line(n)
  elif k == "setnone":
    # the other documented spelling of removing a tag: assigning None
    l = find_by_text(g, op[1])
    l.set(op[2], None)
  elif k == "hadd":
    # header.add(tag, value[, datatype])
    if op[3] is None:
      g.header.add(op[1], op[2])
    else:
      g.header.add(op[1], op[2], op[3])
  elif k == "readd":
    # the most recently removed Line OBJECT with that text is added again
    cand = [l for l in env.gone if not l.is_connected() and
            observe.safe_str(l) == op[1]]
    if not cand:
      raise LookupError("no removed line with text {!r}".format(op[1]))
    g.add_line(cand[-1])
  elif k == "addclone":
    # a clone of a line of the Gfa, given another name, added as Line object
    l = g.try_get_line(op[1])
    c = l.clone()
    c.name = op[2]
    g.add_line(c)
  else:
    raise ValueError("unknown op " + repr(op))


def op_to_py(op):
  k = op[0]
  if k == "add":
    return "g.add_line({!r})".format(op[1])
  if k == "rm":
    return "g.rm({!r})".format(op[1])
  if k in ("rmi", "disc", "settag", "deltag"):
    find = "[l for l in g.lines if str(l) == {!r}][0]".format(op[1])
    if k == "rmi":
      return "g.rm({})".format(find)
    if k == "disc":
      return "{}.disconnect()".format(find)
    if k == "settag":
      return "{}.set({!r}, {!r})".format(find, op[2], op[3])
    return "{}.delete({!r})".format(find, op[2])
  if k == "rename":
    return "g.try_get_line({!r}).name = {!r}".format(op[1], op[2])
  if k == "plq":
    return "g.process_line_queue()"
  if k == "nameit":
    return ("(lambda l: l.set('ID', {1!r}) if l.record_type in 'LC' else "
            "setattr(l, 'name', {1!r}))([l for l in g.lines if str(l) == {0!r}][0])"
            ).format(op[1], op[2])
  if k == "setfield":
    return "[l for l in g.lines if str(l) == {!r}][0].set({!r}, {!r})".format(
        op[1], op[2], op[3])
  if k == "conv":
    return "g.to_gfa2_s()"
  if k == "addshare":
    return ("n = gfapy.Line({!r}, version=g.version); n.set({!r}, [l for l in "
            "g.lines if str(l) == {!r}][0].get({!r})); g.add_line(n)").format(
                op[2], op[3], op[1], op[3])
  if k == "setnone":
    return "[l for l in g.lines if str(l) == {!r}][0].set({!r}, None)".format(
        op[1], op[2])
  if k == "hadd":
    return "g.header.add({!r}, {!r}{})".format(
        op[1], op[2], "" if op[3] is None else ", {!r}".format(op[3]))
  if k == "readd":
    return ("g.add_line(removed[{!r}])   # the Line object removed earlier "
            "(keep it: removed[str(l)] = l before g.rm)").format(op[1])
  if k == "addclone":
    return ("c = g.try_get_line({!r}).clone(); c.name = {!r}; "
            "g.add_line(c)").format(op[1], op[2])
  return "# " + repr(op)


def standalone(spec, hist, tail=""):
  lines = ["import gfapy",
           "g = gfapy.Gfa(version={!r}, vlevel={!r}, dialect={!r})".format(
               spec.version, spec.vlevel, spec.dialect)]
  lines += [op_to_py(op) for op in hist]
  lines.append("print(str(g))")
  if tail:
    lines.append(tail)
  return "\n".join(lines)


def enabled_ops(g, spec, env=None):
  ops = []
  try:
    lines = list(g.lines)
  except BaseException:
    lines = []
  texts = set(observe.safe_str(l) for l in lines)
  for u in spec.universe:
    if u not in texts:
      ops.append(("add", u))
  named, unnamed = [], []
  for l in lines:
    rt = observe.rt_of(l)
    if rt in ("H",):
      continue
    if observe.is_virtual(l) and not spec.rm_virtual:
      continue
    n = observe.line_name(l)
    if n is not None:
      named.append((n, l))
    else:
      unnamed.append(l)
  for n, l in named:
    ops.append(("rm", n))
  for l in unnamed:
    t = observe.safe_str(l)
    if observe.rt_of(l) == "#":
      continue
    ops.append(("disc", t))
  for n, l in named:
    for tgt in spec.rename_targets:
      if tgt != n:
        ops.append(("rename", n, tgt))
  for l in unnamed:
    if observe.rt_of(l) in ("L", "C", "E", "G", "O", "U") and not observe.is_virtual(l):
      for nm in spec.name_unnamed:
        ops.append(("nameit", observe.safe_str(l), nm))
  if spec.unname_ops:
    for n, l in named:
      if observe.rt_of(l) in ("L", "C") and not observe.is_virtual(l):
        ops.append(("deltag", observe.safe_str(l), "ID"))
        ops.append(("setnone", observe.safe_str(l), "ID"))
  if spec.readd_ops and env is not None:
    seen_r = set()
    for l in env.gone:
      try:
        if l.is_connected() or observe.is_virtual(l):
          continue
        t = observe.safe_str(l)
      except Exception:
        continue
      if t not in seen_r and t not in texts and \
          observe.rt_of(l) in ("L", "C", "P", "E", "G", "F", "O", "U"):
        seen_r.add(t)
        ops.append(("readd", t))
  for n, l in named:
    if observe.rt_of(l) == "S" and not observe.is_virtual(l):
      for nm in spec.clone_ops:
        if nm != n:
          ops.append(("addclone", n, nm))
  if spec.tag_ops:
    for l in lines:
      if observe.rt_of(l) in ("H", "#") or observe.is_virtual(l):
        continue
      t = observe.safe_str(l)
      if "xx:i:" in t or "xx:Z:" in t:
        ops.append(("deltag", t, "xx"))
        ops.append(("setnone", t, "xx"))
      else:
        ops.append(("settag", t, "xx", 7))
        if spec.clone_ops and observe.rt_of(l) == "S":
          ops.append(("settag", t, "xx", "s"))
  return ops


def replay(spec, hist, env=None, stop_on_error=False):
  """Rebuild the state reached by hist.  Returns (g, env, errs) where errs[i]
  is the exception raised by hist[i] or None."""
  g = spec.init()
  env = env or Env()
  errs = []
  for op in hist:
    try:
      apply_op(g, op, env)
      errs.append(None)
    except gfapy.Error as e:
      errs.append(e)
    except HarnessStop:
      raise
    except Exception as e:  # foreign exception: recorded, judged by the check
      errs.append(e)
    if stop_on_error and errs[-1] is not None:
      break
  env.errors = errs
  return g, env, errs


class HarnessStop(BaseException):
  pass


def expand(item):
  """Worker: expand one state.  item = (specname, hist).  Returns dict with
  'succ': list of (key, hist, nontrivial), plus counters and violations."""
  specname, hist = item
  spec = SPECS[specname]
  res = new_result()
  succ = []
  with guard(30):
    g, env, errs = replay(spec, hist)
    ops = spec.ops(g, env, hist) + spec.extra_ops(g, env, hist)
  for op in ops:
    probs = None
    try:
      with guard():
        g2, env2, errs2 = replay(spec, hist)
        err = None
        try:
          apply_op(g2, op, env2)
        except gfapy.Error as e:
          err = e
        except LookupError as e:
          continue
        except Exception as e:
          err = e
        env2.errors = errs2 + [err]
        res["transitions"] += 1
        probs = spec.judge(g2, env2, hist, op, err)
    except HarnessTimeout:
      probs = None
    if probs is None or timed_out():
      probs = [("timeout", "operation or oracle exceeded the time budget")]
    newhist = hist + [op]
    if probs and probs[0][0] == "skip":
      res["outcomes"].add("out-of-scope:" + probs[0][1])
      continue
    if probs:
      for clause, detail in probs:
        res["violations"].append(
            {"clause": clause, "hist": newhist, "detail": detail})
      if any(c not in spec.soft_clauses for c, _ in probs):
        continue  # violating states are not expanded
    if err is not None and not spec.follow_errors:
      res["outcomes"].add("refused:" + type(err).__name__)
      continue
    with guard():
      k = spec.key(g2, env2)
      nt = spec.nontrivial(g2, env2)
    res["outcomes"].add("ok" if err is None else "err:" + type(err).__name__)
    succ.append((k, newhist, nt))
  res["succ"] = succ
  return res


def violates(spec, hist, clause):
  """Does the last operation of hist produce a violation of `clause`?"""
  if not hist:
    return False
  try:
    with guard(30):
      g, env, errs = replay(spec, hist[:-1])
      op = hist[-1]
      err = None
      try:
        apply_op(g, op, env)
      except gfapy.Error as e:
        err = e
      except LookupError:
        return False
      except Exception as e:
        err = e
      env.errors = errs + [err]
      probs = spec.judge(g, env, hist[:-1], op, err)
  except BaseException:
    return False
  return any(c == clause for c, _ in probs)


def details(spec, hist, clause):
  g, env, errs = replay(spec, hist[:-1])
  op = hist[-1]
  err = None
  try:
    apply_op(g, op, env)
  except gfapy.Error as e:
    err = e
  except LookupError:
    return []
  except Exception as e:
    err = e
  env.errors = errs + [err]
  return [d for c, d in spec.judge(g, env, hist[:-1], op, err) if c == clause]


def ddmin(spec, hist, clause):
  """Remove operations (never the last one) while the violation persists."""
  cur = list(hist)
  changed = True
  while changed:
    changed = False
    for i in range(len(cur) - 1):
      cand = cur[:i] + cur[i + 1:]
      if violates(spec, cand, clause):
        cur = cand
        changed = True
        break
  return cur


def minimise_item(item):
  specname, hist, clause = item
  spec = SPECS[specname]
  m = ddmin(spec, [tuple(o) for o in hist], clause)
  det = details(spec, m, clause)
  return (clause, m, det)


def bfs(ctx, spec, depth, label=None, time_cap=None, max_min=300,
        prefix=None):
  """Level-synchronous BFS to `depth`.  Merges counters into ctx and turns
  violations into minimised, fingerprinted ones.  With `prefix` (a history)
  the search starts from the state that history reaches instead of the empty
  Gfa; every explored history then begins with the prefix, so judges,
  reference models, minimisation and replay see ordinary histories."""
  label = label or spec.name
  prefix = [tuple(o) for o in (prefix or [])]
  with guard(30):
    g0, env0, errs0 = replay(spec, prefix)
    if any(e is not None for e in errs0):
      raise RuntimeError("{}: the prefix history is refused: {}".format(
          label, [repr(e)[:80] for e in errs0 if e is not None]))
    k0 = spec.key(g0, env0)
  seen = {k0}
  ctx.states.add(label + ":" + k0)
  frontier = [list(prefix)]
  raw = []
  completed = 0
  for d in range(1, depth + 1):
    if time_cap is not None and ctx.elapsed() > time_cap:
      ctx.cap("{}: time cap reached before depth {} (covered depth {})".format(
          label, d, completed))
      break
    nxt = []
    results = ctx.pmap(expand, [(spec.name, hst) for hst in frontier])
    for r in results:
      succ = r.pop("succ")
      vs = r.pop("violations")
      raw.extend(vs)
      ctx.merge(r)
      for k, hst, nt in succ:
        if k not in seen:
          seen.add(k)
          ctx.states.add(label + ":" + k)
          if nt:
            ctx.nontrivial.add(label + ":" + k)
          nxt.append(hst)
          if len(hst) <= 4 or (len(seen) % 211 == 0):
            ctx.sample({"spec": label, "history": [fmt_op(o) for o in hst]})
    ctx.evaluations += len(frontier)
    frontier = nxt
    completed = d
    if not frontier:
      break
  ctx.extra.setdefault("bfs", []).append(
      {"spec": label, "depth_completed": completed, "states": len(seen),
       "frontier_at_end": len(frontier)})
  # minimise + fingerprint
  todo = {}
  for v in raw:
    kk = (v["clause"], json.dumps(v["hist"]))
    todo.setdefault(kk, v)
  items = [(spec.name, v["hist"], v["clause"]) for v in todo.values()]
  ctx.extra.setdefault('violating_transitions', 0)
  ctx.extra['violating_transitions'] += len(raw)
  # shortest histories first, one round per length: a history that contains
  # an already minimised violating history (same clause) as a subsequence is
  # explained by it -- that is one of the 1-minimal results ddmin could have
  # returned for it -- and is not minimised again
  def subseq(a, b):
    it = iter(b)
    return all(any(x == y for y in it) for x in a)
  minimal = []          # (clause, [ops as lists])
  explained = 0
  budget = max_min
  by_len = {}
  for it in items:
    by_len.setdefault(len(it[1]), []).append(it)
  for n in sorted(by_len):
    todo_n = []
    for it in by_len[n]:
      ops = [list(o) for o in it[1]]
      if any(c == it[2] and subseq(m, ops) for c, m in minimal):
        explained += 1
      else:
        todo_n.append(it)
    if len(todo_n) > budget:
      ctx.cap("{}: {} violating transitions of length {} left, only {} "
              "minimised".format(label, len(todo_n), n, budget))
      ctx.overflow = True
      todo_n = todo_n[:budget]
    budget -= len(todo_n)
    for clause, m, det in ctx.pmap(minimise_item, todo_n, chunksize=1):
      hs = " ; ".join(fmt_op(o) for o in m)
      minimal.append((clause, [list(o) for o in m]))
      ctx.violation(mkviolation(
          clause, {"spec": label, "history": hs},
          {"spec": spec.name, "hist": [list(o) for o in m], "clause": clause},
          "invariant / reference-model agreement", det[:5],
          standalone(spec, m)))
  ctx.extra.setdefault('violating_transitions_explained_by_shorter', 0)
  ctx.extra['violating_transitions_explained_by_shorter'] += explained
  return completed, len(seen)


def replay_witness(w):
  spec = SPECS[w["spec"]]
  hist = [tuple(o) for o in w["hist"]]
  out = []
  if violates(spec, hist, w["clause"]):
    det = details(spec, hist, w["clause"])
    hs = " ; ".join(fmt_op(o) for o in hist)
    label = w.get("label", spec.name)
    out.append(mkviolation(w["clause"], {"spec": label, "history": hs}, w,
                           "invariant / reference-model agreement", det[:5],
                           standalone(spec, hist)))
  return out
