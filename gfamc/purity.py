"""Shared helper of C10 (read-only operations are pure) and C19 (clone).

* canon(x)           canonical, JSON-able form of any value a gfapy query can
                     return (no object ids, no memory addresses);
* deep_obs(g)        deep observation of a Gfa through its public API: text of
                     the Gfa in order, text of every line (also of virtual
                     ones), every collection / name list in stored order,
                     version, header, reference and back-reference lists;
* line_obs(line)     the same for one stand-alone line;
* walk / shared_mutables / lines_inside
                     object-graph walker used by C19;
* run_query          executes one query *descriptor* (a JSON-able list, so that
                     a witness can be replayed) against a Gfa replica.

This module looks at gfapy objects, it is an observation layer and not a
reference model: nothing in here predicts what gfapy should answer.  Which
attributes exist and which of them are queries is written down in the menus of
the check modules, not derived from gfapy's own tables.
"""
import re
import types
import gfapy
from . import observe
from .observe import safe_str

_ADDR = re.compile(r"0x[0-9a-fA-F]+")


# --------------------------------------------------------------------------
# canonical form of values
# --------------------------------------------------------------------------

def exc_canon(e):
  msg = _ADDR.sub("0x?", safe_str(e))
  return ["raised", type(e).__name__, msg[:300]]


def _line_canon(l):
  try:
    conn = bool(l.is_connected())
  except Exception:
    conn = None
  return ["line", type(l).__name__, safe_str(l), conn,
          bool(observe.is_virtual(l))]


def canon(x, depth=0, idx=None):
  """JSON-able canonical form.  Lines are rendered by class, text, connection
  and virtual flag (never by identity); containers keep their order.  With
  `idx` ({id(line): position in the replica's line table}) a line of the
  table is rendered by its position -- its text is part of the deep
  observation and need not be repeated in every result."""
  if idx is not None:
    return _Canon(idx).c(x, 0)
  if depth > 12:
    return ["deep", type(x).__name__]
  if x is None or isinstance(x, (bool, str)):
    return x
  if isinstance(x, int):
    return x
  if isinstance(x, float):
    return ["float", repr(x)]
  if isinstance(x, gfapy.Line):
    return _line_canon(x)
  if isinstance(x, gfapy.Gfa):
    return ["gfa", x.version, safe_str(x).split("\n")]
  if isinstance(x, gfapy.OrientedLine):
    return ["ol", canon(x.line, depth + 1), canon(x.orient, depth + 1)]
  if isinstance(x, gfapy.SegmentEnd):
    return ["se", canon(x.segment, depth + 1), canon(x.end_type, depth + 1)]
  if isinstance(x, gfapy.CIGAR.Operation):
    return ["op", canon(x.length, depth + 1), canon(x.code, depth + 1)]
  if isinstance(x, gfapy.LastPos):
    return ["lastpos", canon(x.value, depth + 1)]
  if isinstance(x, gfapy.Placeholder):
    return ["placeholder", type(x).__name__]
  if isinstance(x, gfapy.FieldArray):
    return ["fieldarray", x.datatype, canon(list(x), depth + 1)]
  if isinstance(x, (bytes, bytearray)):
    return [type(x).__name__, bytes(x).hex()]
  if isinstance(x, (list, tuple)):
    return [type(x).__name__, [canon(e, depth + 1) for e in x]]
  if isinstance(x, dict):
    return ["dict", [[canon(k, depth + 1), canon(v, depth + 1)]
                     for k, v in x.items()]]
  if isinstance(x, (set, frozenset)):
    return ["set", sorted((canon(e, depth + 1) for e in x), key=repr)]
  if isinstance(x, BaseException):
    return exc_canon(x)
  if isinstance(x, type):
    return ["class", x.__name__]
  return ["obj", type(x).__name__, _ADDR.sub("0x?", safe_str(x))[:200]]


class _Canon:
  def __init__(self, idx):
    self.idx = idx

  def c(self, x, depth):
    if x is None or isinstance(x, (bool, str, int)):
      return x
    if isinstance(x, gfapy.Line):
      i = self.idx.get(id(x))
      return ["line#", i] if i is not None else _line_canon(x)
    if depth > 12:
      return ["deep", type(x).__name__]
    d = depth + 1
    if isinstance(x, gfapy.OrientedLine):
      return ["ol", self.c(x.line, d), self.c(x.orient, d)]
    if isinstance(x, gfapy.SegmentEnd):
      return ["se", self.c(x.segment, d), self.c(x.end_type, d)]
    if isinstance(x, gfapy.FieldArray):
      return ["fieldarray", x.datatype, self.c(list(x), d)]
    if isinstance(x, (list, tuple)):
      return [type(x).__name__, [self.c(e, d) for e in x]]
    if isinstance(x, dict):
      return ["dict", [[self.c(k, d), self.c(v, d)] for k, v in x.items()]]
    if isinstance(x, (set, frozenset)):
      return ["set", sorted((self.c(e, d) for e in x), key=repr)]
    return canon(x, depth)


# --------------------------------------------------------------------------
# deep observation
# --------------------------------------------------------------------------

COLLECTIONS = ["lines", "comments", "headers", "segments", "edges",
               "dovetails", "containments", "paths", "sets", "gaps",
               "fragments", "custom_records"]
NAME_LISTS = ["names", "segment_names", "edge_names", "gap_names", "set_names",
              "path_names", "external_names", "custom_record_keys"]


class _Keys:
  """lkey / text of each line computed once per observation."""
  def __init__(self):
    self.k = {}
    self.t = {}
    self.alive = []   # keeps every keyed object alive: ids are not recycled

  def text(self, l):
    i = id(l)
    if i not in self.t:
      self.alive.append(l)
      self.t[i] = safe_str(l)
    return self.t[i]

  def key(self, x):
    if isinstance(x, gfapy.OrientedLine):
      return [self.key(x.line), x.orient]
    if not isinstance(x, gfapy.Line):
      return "str:" + safe_str(x)
    i = id(x)
    if i not in self.k:
      self.alive.append(x)
      n = observe.line_name(x)
      v = "~" if observe.is_virtual(x) else ""
      rt = observe.rt_of(x)
      self.k[i] = "{}{}:{}".format(v, rt, n) if n is not None else \
          "{}{}={}".format(v, rt, self.text(x))
    return self.k[i]


def _one_line(l, g, K):
  rt = observe.rt_of(l)
  refs = []
  for f in observe.REF_FIELDS.get(rt, ()):
    try:
      v = l.get(f)
    except Exception as e:
      refs.append([f, "<{}>".format(type(e).__name__)])
      continue
    refs.append([f, [K.key(e) for e in v] if isinstance(v, list) else K.key(v)])
  for f in observe.NONFIELD_REFS.get(rt, ()):
    try:
      v = getattr(l, f)
      refs.append([f, [K.key(e) for e in v]])
    except Exception as e:
      refs.append([f, "<{}>".format(type(e).__name__)])
  back = []
  for c in observe.BACKREFS.get(rt, ()):
    try:
      v = getattr(l, c)
    except Exception:
      continue
    if isinstance(v, list) and v:
      back.append([c, [K.key(m) for m in v]])
  try:
    own = l.gfa is g
  except Exception:
    own = None
  return [K.text(l), bool(observe.is_virtual(l)), own, refs, back]


def _reach(g, ls):
  """Lines reachable from ls through reference fields and back-reference
  collections that g.lines does not list (placeholders for unknown ids)."""
  seen = set(id(l) for l in ls)
  extra = []
  stack = list(ls)
  while stack:
    l = stack.pop()
    rt = observe.rt_of(l)
    vals = []
    for f in observe.REF_FIELDS.get(rt, ()):
      try:
        vals.append(l.get(f))
      except Exception:
        pass
    for c in observe.NONFIELD_REFS.get(rt, []) + observe.BACKREFS.get(rt, []):
      try:
        vals.append(getattr(l, c))
      except Exception:
        pass
    flat = []
    for v in vals:
      flat.extend(v if isinstance(v, list) else [v])
    for t in flat:
      if isinstance(t, gfapy.OrientedLine):
        t = t.line
      if isinstance(t, gfapy.Line) and id(t) not in seen:
        seen.add(id(t))
        extra.append(t)
        stack.append(t)
  return extra


def deep_obs(g):
  """Everything a user can read back from a Gfa, as one JSON-able value.
  Stored order is kept everywhere."""
  K = _Keys()
  out = {"version": g.version}
  try:
    out["text"] = str(g).split("\n")
  except Exception as e:
    out["text"] = exc_canon(e)
  for c in COLLECTIONS:
    try:
      out["c." + c] = [K.key(l) for l in getattr(g, c)]
    except Exception as e:
      out["c." + c] = exc_canon(e)
  for c in NAME_LISTS:
    try:
      out["n." + c] = [safe_str(n) for n in getattr(g, c)]
    except Exception as e:
      out["n." + c] = exc_canon(e)
  try:
    out["header"] = safe_str(g.header)
  except Exception as e:
    out["header"] = exc_canon(e)
  try:
    ls = [l for l in g.lines if observe.rt_of(l) != "H"]
  except Exception:
    ls = []
  out["lines"] = [_one_line(l, g, K) for l in ls + _reach(g, ls)]
  return out


def line_table(g):
  """Deterministic table of the line objects of a replica: g.lines, the
  merged header, then placeholder lines reachable from them."""
  try:
    ls = list(g.lines)
  except Exception:
    ls = []
  tab = list(ls)
  try:
    tab.append(g.header)
  except Exception:
    pass
  tab.extend(_reach(g, ls))
  return tab


def fields_of(line):
  try:
    return list(line.positional_fieldnames) + list(line.tagnames)
  except Exception:
    return []


def line_obs(line):
  """Observation of one line (connected or not): its text, its field list, the
  text and datatype of every field and the canonical form of every value."""
  out = {"text": safe_str(line), "fields": []}
  try:
    out["gfa"] = None if line.gfa is None else "gfa"
  except Exception as e:
    out["gfa"] = exc_canon(e)
  for f in fields_of(line):
    try:
      s = line.field_to_s(f)
    except Exception as e:
      s = exc_canon(e)
    try:
      t = line.get_datatype(f)
    except Exception as e:
      t = exc_canon(e)
    try:
      v = canon(line.get(f))
    except Exception as e:
      v = exc_canon(e)
    out["fields"].append([f, t, s, v])
  return out


def first_diff(a, b, path=""):
  """Shortest description of where two observations differ."""
  if type(a) != type(b):
    return "{}: {!r} -> {!r}".format(path or ".", a, b)
  if isinstance(a, dict):
    for k in sorted(set(a) | set(b)):
      if a.get(k) != b.get(k):
        return first_diff(a.get(k), b.get(k), path + "/" + str(k))
  if isinstance(a, list):
    if len(a) != len(b):
      return "{}: length {} -> {}: {!r} -> {!r}".format(
          path or ".", len(a), len(b), a, b)[:400]
    for i, (x, y) in enumerate(zip(a, b)):
      if x != y:
        return first_diff(x, y, path + "/" + str(i))
  return "{}: {!r} -> {!r}".format(path or ".", a, b)[:400]


# --------------------------------------------------------------------------
# object-graph walker (C19)
# --------------------------------------------------------------------------

ATOMS = (str, int, float, bool, bytes, complex, type(None))
OPAQUE = (type, types.FunctionType, types.BuiltinFunctionType,
          types.MethodType, types.ModuleType, property)


def is_immutable_value(x):
  """Values C19 treats as immutable: Python atoms (ByteArray is a bytes),
  LastPos and placeholder objects (DESIGN, C19 'not demanded')."""
  return isinstance(x, ATOMS) or isinstance(x, (gfapy.LastPos,
                                                gfapy.Placeholder))


def walk(root, skip_attrs=("_gfa", "_refs"), enter_lines=False):
  """Every object reachable from the instance attributes of `root`.
  Returns {id: (object, path)}.  Descends into lists, tuples, sets, dicts
  (keys and values) and instance dictionaries; does not descend into classes,
  functions, modules, nor (unless enter_lines) into gfapy.Line / gfapy.Gfa
  objects other than the root, which are recorded and left alone."""
  seen = {}
  stack = [(root, "")]
  first = True
  while stack:
    o, p = stack.pop()
    if isinstance(o, OPAQUE):
      continue
    if id(o) in seen:
      continue
    seen[id(o)] = (o, p)
    if isinstance(o, ATOMS):
      continue
    if isinstance(o, (gfapy.Line, gfapy.Gfa)) and not first and \
        not enter_lines:
      continue
    if isinstance(o, dict):
      for k, v in o.items():
        stack.append((k, p + ".key(" + safe_str(k)[:20] + ")"))
        stack.append((v, p + "[" + repr(k)[:24] + "]"))
    elif isinstance(o, (list, tuple)):
      for i, v in enumerate(o):
        stack.append((v, "{}[{}]".format(p, i)))
    elif isinstance(o, (set, frozenset)):
      for v in o:
        stack.append((v, p + "{}"))
    d = getattr(o, "__dict__", None)
    if isinstance(d, dict):
      for k, v in d.items():
        if first and k in skip_attrs:
          continue
        stack.append((v, p + "." + k))
    first = False
  return seen


def shared_mutables(a, b):
  """Mutable objects reachable from both lines.  Returns a sorted list of
  (path in a, path in b, type name)."""
  wa, wb = walk(a), walk(b)
  out = []
  for i, (o, pa) in wa.items():
    if i in wb and o is not a and o is not b and \
        not is_immutable_value(o) and not isinstance(o, (tuple, frozenset)):
      out.append((pa, wb[i][1], type(o).__name__))
  out.sort()
  # keep the outermost shared objects only: what is inside a shared container
  # is shared because the container is
  top = []
  for t in out:
    if not any(t[0] != u[0] and t[0].startswith(u[0]) and
               t[0][len(u[0]):len(u[0]) + 1] in (".", "[", "{") for u in out):
      top.append(t)
  return top


def lines_inside(line):
  """gfapy.Line / gfapy.Gfa objects reachable from the instance attributes of
  `line` (the attributes _gfa and _refs included)."""
  w = walk(line, skip_attrs=())
  return sorted((p, type(o).__name__) for o, p in w.values()
                if isinstance(o, (gfapy.Line, gfapy.Gfa)) and o is not line)


# --------------------------------------------------------------------------
# query descriptors
# --------------------------------------------------------------------------
# query  = {"recv": RECV, "op": OP}
# RECV   = ["g"] | ["line", i] | ["val", i, field] | ["item", i, field, j]
#          | ["new", expr]                       (stand-alone value)
# OP     = ["attr", name] | ["call", name, [ARG...], {kw: ARG}] | ["str"]
#          | ["repr"] | ["len"] | ["list"] | ["bool"] | ["int"] | ["hash"]
#          | ["eq", ARG] | ["ne", ARG] | ["lt", ARG] | ["sub", ARG]
#          | ["getitem", ARG]
# ARG    = ["lit", json] | ["line", i] | ["val", i, field] | ["ol", ARG, o]
#          | ["se", ARG, e] | ["aln", text, version] | ["newline", text, ver]
#          | ["lastpos", n] | ["name", i]

class BadDescriptor(Exception):
  pass


def build_arg(a, g, tab):
  k = a[0]
  if k == "lit":
    import copy
    return copy.deepcopy(a[1])
  if k == "line":
    return tab[a[1]]
  if k == "name":
    return tab[a[1]].name
  if k == "val":
    return tab[a[1]].get(a[2])
  if k == "ol":
    return gfapy.OrientedLine(build_arg(a[1], g, tab), a[2])
  if k == "se":
    return gfapy.SegmentEnd(build_arg(a[1], g, tab), a[2])
  if k == "aln":
    return gfapy.Alignment(a[1], version=a[2])
  if k == "newline":
    return gfapy.Line(a[1], version=a[2])
  if k == "lastpos":
    return gfapy.LastPos(a[1])
  raise BadDescriptor(repr(a))


def resolve_recv(r, g, tab):
  k = r[0]
  if k == "g":
    return g
  if k == "line":
    return tab[r[1]]
  if k == "val":
    return tab[r[1]].get(r[2])
  if k == "item":
    return tab[r[1]].get(r[2])[r[3]]
  if k == "new":
    return build_arg(r[1], g, tab)
  raise BadDescriptor(repr(r))


def apply_op(x, op, args, kw):
  k = op[0]
  if k == "attr":
    return getattr(x, op[1])
  if k == "call":
    return getattr(x, op[1])(*args, **kw)
  if k == "str":
    return str(x)
  if k == "repr":
    return _ADDR.sub("0x?", repr(x))
  if k == "len":
    return len(x)
  if k == "list":
    return list(x)
  if k == "bool":
    return bool(x)
  if k == "int":
    return int(x)
  if k == "hash":
    return hash(x)
  if k == "eq":
    return x == args[0]
  if k == "ne":
    return x != args[0]
  if k == "lt":
    return x < args[0]
  if k == "sub":
    return x - args[0]
  if k == "getitem":
    return x[args[0]]
  raise BadDescriptor(repr(op))


def op_args(op):
  k = op[0]
  if k == "call":
    return (op[2] if len(op) > 2 else []), (op[3] if len(op) > 3 else {})
  if k in ("eq", "ne", "lt", "sub", "getitem"):
    return [op[1]], {}
  return [], {}


def run_query(g, tab, q, idx=None):
  """Execute one query.  Returns (canonical result, canonical arguments before
  the call, canonical arguments after the call).  An exception raised by the
  query (or while fetching the receiver, which is itself a read) is an
  outcome."""
  try:
    x = resolve_recv(q["recv"], g, tab)
    adesc, kwdesc = op_args(q["op"])
    args = [build_arg(a, g, tab) for a in adesc]
    kw = {k: build_arg(a, g, tab) for k, a in sorted(kwdesc.items())}
  except BadDescriptor:
    raise
  except IndexError as e:
    return ["raised-in-setup", type(e).__name__], None, None
  except Exception as e:
    return ["raised-in-setup"] + exc_canon(e)[1:], None, None
  before = canon([args, kw], idx=idx) if (args or kw) else None
  try:
    r = canon(apply_op(x, q["op"], args, kw), idx=idx)
  except BadDescriptor:
    raise
  except Exception as e:
    r = exc_canon(e)
  after = canon([args, kw], idx=idx) if (args or kw) else None
  return r, before, after


def qstr(q):
  """Readable one-line form of a query descriptor (used in keys)."""
  r = q["recv"]
  if r[0] == "g":
    rs = "g"
  elif r[0] == "line":
    rs = "line"
  elif r[0] == "val":
    rs = "line." + r[2]
  elif r[0] == "item":
    rs = "line.{}[{}]".format(r[2], r[3])
  else:
    rs = _argstr(r[1])
  op = q["op"]
  if op[0] == "attr":
    return "{}.{}".format(rs, op[1])
  if op[0] == "call":
    a, kw = op_args(op)
    s = ", ".join([_argstr(x) for x in a] +
                  ["{}={}".format(k, _argstr(v)) for k, v in sorted(kw.items())])
    return "{}.{}({})".format(rs, op[1], s)
  if op[0] in ("eq", "ne", "lt", "sub", "getitem"):
    sym = {"eq": "==", "ne": "!=", "lt": "<", "sub": "-",
           "getitem": "[]"}[op[0]]
    return "{} {} {}".format(rs, sym, _argstr(op[1]))
  return "{}({})".format(op[0], rs)


def _argstr(a):
  k = a[0]
  if k == "lit":
    return repr(a[1])
  if k == "line":
    return "<line>"
  if k == "name":
    return "<name>"
  if k == "val":
    return "<line>." + a[2]
  if k in ("ol", "se"):
    return "{}({},{!r})".format(k, _argstr(a[1]), a[2])
  if k == "aln":
    return "Alignment({!r})".format(a[1])
  if k == "newline":
    return "Line({!r})".format(a[1])
  if k == "lastpos":
    return "LastPos({})".format(a[1])
  return repr(a)


def _argpy(a, tabname="T"):
  k = a[0]
  if k == "lit":
    return repr(a[1])
  if k == "line":
    return "{}[{}]".format(tabname, a[1])
  if k == "name":
    return "{}[{}].name".format(tabname, a[1])
  if k == "val":
    return "{}[{}].get({!r})".format(tabname, a[1], a[2])
  if k == "ol":
    return "gfapy.OrientedLine({}, {!r})".format(_argpy(a[1]), a[2])
  if k == "se":
    return "gfapy.SegmentEnd({}, {!r})".format(_argpy(a[1]), a[2])
  if k == "aln":
    return "gfapy.Alignment({!r}, version={!r})".format(a[1], a[2])
  if k == "newline":
    return "gfapy.Line({!r}, version={!r})".format(a[1], a[2])
  if k == "lastpos":
    return "gfapy.LastPos({})".format(a[1])
  return repr(a)


def qpy(q):
  """Python expression of a query for stand-alone scripts; T is the list
  `g.lines + [g.header]` (+ virtual lines)."""
  r = q["recv"]
  if r[0] == "g":
    rs = "g"
  elif r[0] == "line":
    rs = "T[{}]".format(r[1])
  elif r[0] == "val":
    rs = "T[{}].get({!r})".format(r[1], r[2])
  elif r[0] == "item":
    rs = "T[{}].get({!r})[{}]".format(r[1], r[2], r[3])
  else:
    rs = _argpy(r[1])
  op = q["op"]
  if op[0] == "attr":
    return "{}.{}".format(rs, op[1])
  if op[0] == "call":
    a, kw = op_args(op)
    s = ", ".join([_argpy(x) for x in a] +
                  ["{}={}".format(k, _argpy(v)) for k, v in sorted(kw.items())])
    return "{}.{}({})".format(rs, op[1], s)
  if op[0] in ("eq", "ne", "lt", "sub"):
    sym = {"eq": "==", "ne": "!=", "lt": "<", "sub": "-"}[op[0]]
    return "({} {} {})".format(rs, sym, _argpy(op[1]))
  if op[0] == "getitem":
    return "{}[{}]".format(rs, _argpy(op[1]))
  return "{}({})".format(op[0], rs)
