"""C07 -- only gfapy.Error escapes, whatever the input.

Engine I: all strings of length <= k over a 22-symbol critical alphabet offered
as a line and as a document, every single-point mutation of a corpus of valid
lines/documents, an API-string menu, file variants and bin/gfapy-validate;
each x vlevel 0..3 x version x dialect.  Oracle: the call returns or raises an
instance of gfapy.Error; anything else (incl. the harness time budget) is a
violation fingerprinted by (exception class, innermost gfapy file:function)."""
import os, sys, traceback, tempfile, shutil, subprocess, itertools
import gfapy
from .. import enumstr, corpus
from ..runner import (guard, timed_out, HarnessTimeout, new_result,
                      mkviolation, h, REPO)

PROPERTY = "C07"

ALPHA = ["S", "L", "H", "#", "E", "\t", " ", "A", "+", "-", "*", "0", "1", "$",
         ":", "i", "J", "{", "\n", "\r", "\x00", "\u00e9"]
MUT_ALPHA = ["\t", " ", "*", "+", "-", "0", "9", "$", ":", ",", "A", "{", "\n",
             "\x00", "\u00e9", "i", "Z", "\u00b2"]
API_ALPHA = ["A", "a", "x", "1", "*", "+", " ", "\t", ":", "\u00e9"]
GFAPY_DIR = os.path.join(os.path.realpath(REPO), "gfapy") + os.sep


def root_of(exc):
  """Deepest explicit cause: gfapy re-wraps errors with `raise cls(msg) from
  err`, which would make every parser failure look like one call site."""
  seen = set()
  while exc.__cause__ is not None and id(exc) not in seen:
    seen.add(id(exc))
    exc = exc.__cause__
  return exc


def site_of(exc):
  """(file:function) of the innermost frame inside the gfapy package, taken
  from the root cause of the exception."""
  exc = root_of(exc)
  tb = exc.__traceback__
  site = "?"
  while tb is not None:
    fn = os.path.realpath(tb.tb_frame.f_code.co_filename)
    if fn.startswith(GFAPY_DIR) and not fn.endswith("dynamic_fields.py") \
        and not (fn.endswith("oriented_line.py") and
                 tb.tb_frame.f_code.co_name == "__getattr__"):
      # (attribute look-ups all pass through dynamic_fields.__getattribute__;
      #  the caller is the informative site)
      site = "gfapy/" + fn[len(GFAPY_DIR):] + ":" + tb.tb_frame.f_code.co_name
    tb = tb.tb_next
  return site


def call(fn):
  """Runs fn(); returns None if it returned or raised gfapy.Error, else a
  (excname, site) pair."""
  try:
    with guard(3.0):
      fn()
  except gfapy.Error as e:
    if timed_out():
      return ("Timeout", "?")
    _last[0] = "gfapy." + type(e).__name__
    return None
  except HarnessTimeout:
    return ("Timeout", "?")
  except RecursionError as e:
    return ("RecursionError", site_of(e))
  except Exception as e:
    return (type(e).__name__ + "<-" + type(root_of(e)).__name__
            if root_of(e) is not e else type(e).__name__, site_of(e))
  if timed_out():
    return ("Timeout", "?")
  _last[0] = "returned"
  return None


_last = ["?"]


def use_line(s, vlevel, version):
  l = gfapy.Line(s, vlevel=vlevel, version=version)
  str(l)
  repr(l)
  l.validate()


def use_doc(s, vlevel, version, dialect):
  g = gfapy.Gfa(s, vlevel=vlevel, version=version, dialect=dialect)
  str(g)
  g.validate()
  g.names


def use_lines_list(lst, vlevel, version, dialect):
  g = gfapy.Gfa(lst, vlevel=vlevel, version=version, dialect=dialect)
  str(g)
  g.validate()


CONFIGS_FULL = [(v, ver, d) for v in (0, 1, 2, 3) for ver in (None, "gfa1", "gfa2")
                for d in ("standard", "rgfa") if not (d == "rgfa" and ver == "gfa2")]
CONFIGS_LIGHT = [(0, None, "standard"), (1, None, "standard"),
                 (1, "gfa1", "standard"), (1, "gfa2", "standard"),
                 (3, None, "standard"), (1, "gfa1", "rgfa")]
CONFIGS_QUICK4 = [(0, None, "standard"), (1, None, "standard"),
                  (2, "gfa2", "standard")]


def judge_string(s, configs, res, found):
  for (vlevel, version, dialect) in configs:
    if dialect == "standard":
      res["evaluations"] += 1
      r = call(lambda: use_line(s, vlevel, version))
      note(res, found, r, "line", s, vlevel, version, dialect)
    res["evaluations"] += 1
    r = call(lambda: use_doc(s, vlevel, version, dialect))
    note(res, found, r, "doc", s, vlevel, version, dialect)


def note(res, found, r, entry, s, vlevel, version, dialect):
  if r is None:
    res["outcomes"].add(entry.split(":")[0] + ":" + _last[0])
    return
  res["outcomes"].add(r[0])
  k = (r[0], r[1])
  w = {"entry": entry, "input": s, "vlevel": vlevel, "version": version,
       "dialect": dialect}
  old = found.get(k)
  if old is None or (len(s), s) < (len(old["input"]), old["input"]):
    found[k] = w


def work_strings(item):
  task, maxlen, light = item
  res = new_result()
  found = {}
  configs = {0: CONFIGS_FULL, 1: CONFIGS_LIGHT, 2: CONFIGS_QUICK4}[int(light)]
  n = 0
  for s in enumstr.task_strings(task, ALPHA, maxlen):
    judge_string(s, configs, res, found)
    n += 1
  res["transitions"] = res["evaluations"]
  res["states"].add("strings:" + repr(task))
  res["found"] = found
  res["n_strings"] = n
  return res


def work_mutations(item):
  kind, idx, version = item
  res = new_result()
  found = {}
  lines = corpus.GFA1_LINES if version == "gfa1" else corpus.GFA2_LINES
  doc = corpus.GFA1_DOC if version == "gfa1" else corpus.GFA2_DOC
  n = 0
  if kind == "line":
    base = lines[idx]
    for _, _, m in enumstr.mutations(base, MUT_ALPHA):
      n += 1
      for vlevel in (0, 1, 2, 3):
        for ver in (None, version):
          res["evaluations"] += 1
          r = call(lambda: use_line(m, vlevel, ver))
          note(res, found, r, "line", m, vlevel, ver, "standard")
  else:
    base = doc[idx]
    for _, _, m in enumstr.mutations(base, MUT_ALPHA):
      n += 1
      d2 = list(doc)
      d2[idx] = m
      text = "\n".join(d2)
      for vlevel in (0, 1, 3):
        for ver in (None, version):
          res["evaluations"] += 1
          r = call(lambda: use_doc(text, vlevel, ver, "standard"))
          note(res, found, r, "doc", text, vlevel, ver, "standard")
  res["transitions"] = res["evaluations"]
  res["states"].add("mut:{}:{}:{}".format(kind, idx, version))
  res["found"] = found
  res["n_strings"] = n
  return res


def api_calls(version, vlevel):
  doc = corpus.GFA1_DOC if version == "gfa1" else corpus.GFA2_DOC
  seg = "A" if version == "gfa1" else "a"
  def fresh():
    return gfapy.Gfa(doc, vlevel=vlevel, version=version)
  menu = [
      ("line", lambda g, s: g.line(s)),
      ("segment", lambda g, s: g.segment(s)),
      ("try_get_line", lambda g, s: g.try_get_line(s)),
      ("try_get_segment", lambda g, s: g.try_get_segment(s)),
      ("rm", lambda g, s: (g.rm(s), str(g), g.validate())),
      ("fragments_for_external", lambda g, s: g.fragments_for_external(s)),
      ("select-name", lambda g, s: g.select({"name": s})),
      ("get", lambda g, s: g.segment(seg).get(s)),
      ("try_get", lambda g, s: g.segment(seg).try_get(s)),
      ("delete", lambda g, s: (g.segment(seg).delete(s), str(g))),
      ("get_datatype", lambda g, s: g.segment(seg).get_datatype(s)),
      ("field_to_s", lambda g, s: g.segment(seg).field_to_s(s)),
      ("validate_field", lambda g, s: g.segment(seg).validate_field(s)),
      ("set-name", lambda g, s: (g.segment(seg).set(s, 1), str(g), g.validate())),
      ("set-value", lambda g, s: (g.segment(seg).set("xx", s), str(g),
                                  g.segment(seg).validate())),
      ("set-value-i", lambda g, s: (g.segment(seg).set("RC", s), str(g),
                                    g.segment(seg).validate())),
      ("set_datatype-name", lambda g, s: g.segment(seg).set_datatype(s, "i")),
      ("set_datatype-type", lambda g, s: (g.segment(seg).set_datatype("xx", s),
                                          str(g))),
      ("rename", lambda g, s: (setattr(g.segment(seg), "name", s), str(g),
                               g.validate())),
      ("add_line", lambda g, s: (g.add_line(s), str(g))),
      ("header-add", lambda g, s: (g.header.add("xx", s), str(g))),
      ("header-set", lambda g, s: (g.header.set(s, 1), str(g))),
  ]
  # less-used queries and options that take an identifier or a name
  menu += [
      ("is_cut_segment", lambda g, s: g.is_cut_segment(s)),
      ("is_cut_segment-all", lambda g, s: [g.is_cut_segment(x)
                                           for x in g.segment_names]),
      ("segment_connected_component", lambda g, s:
       g.segment_connected_component(s)),
      ("linear_path", lambda g, s: g.linear_path(s)),
      ("multiply-copy_names", lambda g, s: (g.multiply(seg, 2, copy_names=[s]),
                                            str(g))),
      ("multiply-name", lambda g, s: (g.multiply(s, 2), str(g))),
      ("merge-merged_name", lambda g, s: (g.merge_linear_paths(merged_name=s),
                                          str(g))),
      ("unused_name-after-add", lambda g, s: (swallow(lambda: g.add_line(
          "S\t" + s + "\t*" if version == "gfa1" else "S\t" + s + "\t1\t*")),
          g.unused_name(), g.names)),
      # assigning None removes a tag -- and a positional field?
      ("set-None", lambda g, s: (lambda o: (swallow(lambda: o.set(s, None)),
                                            str(g), g.names,
                                            swallow(g.validate)))(g.segment(seg))),
      ("set-None-other", lambda g, s: (lambda o: (
          swallow(lambda: o.set(s, None)), str(g), g.names,
          swallow(g.validate)))(g.line("p1" if version == "gfa1" else "e1"))),
  ]
  if version == "gfa2":
    menu += [
        ("set-None-fragment", lambda g, s: (lambda o: (
            swallow(lambda: o.set(s, None)), str(g), g.external_names,
            swallow(lambda: g.rm(o)), str(g)))(g.fragments[0])),
    ]
  # a refused call, caught by the caller, then ordinary calls on the same
  # objects: nothing but gfapy.Error may come out of those either
  def swallow(fn):
    try:
      fn()
    except gfapy.Error:
      pass
  other = ("p1" if version == "gfa1" else "e1")   # a path / an edge
  for tgt_name, getter in (("seg", lambda g: g.segment(seg)),
                           ("other", lambda g: g.line(other))):
    menu += [
        ("rename-" + tgt_name + ";rename",
         lambda g, s, getter=getter: (lambda o: (
             swallow(lambda: setattr(o, "name", s)),
             swallow(lambda: setattr(o, "name", "q9")), str(g),
             swallow(g.validate)))(getter(g))),
        ("rename-" + tgt_name + ";rm",
         lambda g, s, getter=getter: (lambda o: (
             swallow(lambda: setattr(o, "name", s)),
             swallow(lambda: g.rm(o)), str(g),
             swallow(g.validate)))(getter(g))),
        ("rename-" + tgt_name + ";disconnect;add",
         lambda g, s, getter=getter: (lambda o: (
             swallow(lambda: setattr(o, "name", s)),
             swallow(o.disconnect), swallow(lambda: g.add_line(o)), str(g),
             swallow(g.validate)))(getter(g))),
    ]
  menu += [
      ("add_line;add_line", lambda g, s: (
          swallow(lambda: g.add_line(s)),
          swallow(lambda: g.add_line("S\tq9\t*" if version == "gfa1"
                                     else "S\tq9\t1\t*")),
          str(g), swallow(g.validate))),
      ("set-value;set-value", lambda g, s: (lambda o: (
          swallow(lambda: o.set("xx", s)), swallow(lambda: o.set("xx", 1)),
          swallow(lambda: o.delete("xx")), swallow(lambda: o.set("xx", "a")),
          str(g), swallow(o.validate)))(g.segment(seg))),
  ]
  # encoded strings assigned to a tag of every datatype, then written/validated
  for dt in "AifZJHB":
    menu.append(("set-typed-" + dt,
                 lambda g, s, dt=dt: (g.segment(seg).set_datatype("xt", dt),
                                      g.segment(seg).set("xt", s), str(g),
                                      g.segment(seg).validate_field("xt"),
                                      g.segment(seg).validate())))
  if version == "gfa2":
    # a fragment is filed under its external sequence, not under a name
    FR = lambda g: g.fragments[0]
    menu += [
        ("fragment-external;rm", lambda g, s: (lambda f: (
            swallow(lambda: f.set("external", gfapy.OrientedLine(s, "+"))),
            str(g), swallow(lambda: g.rm(f)), str(g),
            swallow(g.validate)))(FR(g))),
        ("fragment-external-str;rm-segment", lambda g, s: (lambda f: (
            swallow(lambda: f.set("external", s + "+")), str(g),
            swallow(lambda: g.rm(f.sid.name if hasattr(f.sid, "name")
                                 else f.sid)),
            str(g), swallow(g.validate)))(FR(g))),
        ("fragment-external;fragments_for_external", lambda g, s: (lambda f: (
            swallow(lambda: f.set("external", gfapy.OrientedLine(s, "-"))),
            g.fragments_for_external(s), str(g),
            swallow(f.disconnect), str(g)))(FR(g))),
    ]
    # documented in doc/tutorial/references.rst, "Adding and removing group
    # elements", on connected and on stand-alone group lines
    O = lambda g: g.line("o1")
    U = lambda g: g.line("u1")
    SO = lambda: gfapy.Line("O\to9\ta+ b-", version="gfa2", vlevel=vlevel)
    SU = lambda: gfapy.Line("U\tu9\ta b", version="gfa2", vlevel=vlevel)
    menu += [
        ("group-append_item", lambda g, s: (O(g).append_item(gfapy.OrientedLine(s, "+")), str(g), g.validate())),
        ("group-prepend_item", lambda g, s: (O(g).prepend_item(gfapy.OrientedLine(s, "-")), str(g), g.validate())),
        ("group-rm_first_item", lambda g, s: (O(g).rm_first_item(), str(g), g.validate())),
        ("group-rm_last_item", lambda g, s: (O(g).rm_last_item(), str(g), g.validate())),
        ("group-add_item", lambda g, s: (U(g).add_item(s), str(g), g.validate())),
        ("group-rm_item", lambda g, s: (U(g).rm_item(s), str(g), g.validate())),
        ("group-append_item-standalone", lambda g, s: (lambda l: (l.append_item(gfapy.OrientedLine(s, "+")), str(l)))(SO())),
        ("group-prepend_item-standalone", lambda g, s: (lambda l: (l.prepend_item(gfapy.OrientedLine(s, "-")), str(l)))(SO())),
        ("group-rm_first_item-standalone", lambda g, s: (lambda l: (l.rm_first_item(), str(l)))(SO())),
        ("group-rm_last_item-standalone", lambda g, s: (lambda l: (l.rm_last_item(), str(l)))(SO())),
        ("group-add_item-standalone", lambda g, s: (lambda l: (l.add_item(s), str(l)))(SU())),
        ("group-rm_item-standalone", lambda g, s: (lambda l: (l.rm_item(s), str(l)))(SU())),
    ]
  return fresh, menu


TYPED_ALPHA = ["f", "c", ",", ".", "-", "1", "e", "{", "[", "A", "+"]
RESERVED_NAMES = ["_data", "_datatype", "_gfa", "_refs", "_vlevel", "get",
                  "set", "name", "vlevel", "version", "virtual", "gfa",
                  "record_type", "tagnames", "validate", "__class__",
                  "__dict__", "try_get_xx", "x" * 1000,
                  # positional field names and aliases of the record types
                  "sequence", "sid", "slen", "length", "LN", "external",
                  "path_name", "segment_names", "overlaps", "eid", "sid1",
                  "sid2", "beg1", "end1", "alignment", "from_segment",
                  "to_segment", "overlap", "ID", "RC", "xx"]


def work_api(item):
  version, vlevel, name_idx = item
  res = new_result()
  found = {}
  fresh, menu = api_calls(version, vlevel)
  name, fn = menu[name_idx]
  n = 0
  alpha = TYPED_ALPHA if name.startswith("set-typed-") else API_ALPHA
  # (the two-step programs: strings of length <= 2); entries that take a
  # field or tag NAME also get names that are attributes of a line object
  strings = list(enumstr.all_strings(alpha, 2 if ";" in name else 3))
  if name in ("get", "try_get", "delete", "get_datatype", "field_to_s",
              "validate_field", "set-name", "set_datatype-name",
              "header-set", "set-None", "set-None-other",
              "set-None-fragment"):
    strings += RESERVED_NAMES
  for s in strings:
    n += 1
    res["evaluations"] += 1
    try:
      g = fresh()
    except Exception as e:
      res["found"] = {("HarnessSetup", type(e).__name__): {
          "entry": "api:" + name, "input": s, "vlevel": vlevel,
          "version": version, "dialect": "standard"}}
      return res
    r = call(lambda: fn(g, s))
    note(res, found, r, "api:" + name, s, vlevel, version, "standard")
  res["transitions"] = res["evaluations"]
  res["states"].add("api:{}:{}:{}".format(version, vlevel, name))
  res["found"] = found
  res["n_strings"] = n
  return res


def extreme_cases():
  """inputs that are extreme in size rather than in shape: very long digit
  strings (Python's int/str conversion limit), very deep JSON nesting
  (recursion limit), very long fields; unicode digits; predefined tags with
  another datatype.  (entry, text, version)"""
  big = "9" * 5000
  deep = "[" * 100000 + "]" * 100000
  out = []
  for v in (big, "-" + big, big + "$", "1e" + big, "0." + big):
    out += [("line", "S\tA\t*\txx:i:" + v, "gfa1"), ("line", "S\tA\t*\txx:f:" + v, "gfa1"),
            ("line", "S\tA\t*\tLN:i:" + v, "gfa1"), ("line", "S\ta\t" + v + "\t*", "gfa2"),
            ("line", "S\tA\t*\txx:B:i," + v, "gfa1"), ("line", "S\tA\t*\txx:B:f," + v, "gfa1"),
            ("line", "C\tA\t+\tB\t+\t" + v + "\t*", "gfa1"),
            ("line", "L\tA\t+\tB\t+\t" + v + "M", "gfa1"),
            ("line", "E\te\ta+\tb+\t0\t" + v + "\t0\t5\t" + v + "M", "gfa2"),
            ("line", "E\te\ta+\tb+\t0\t5\t0\t5\t1," + v, "gfa2"),
            # one extreme field at a time (an earlier field that is refused
            # first would hide the later one)
            ("line", "E\te\ta+\tb+\t0\t5\t0\t5\t" + v + "M", "gfa2"),
            ("line", "E\te\ta+\tb+\t0\t5\t0\t" + v + "\t*", "gfa2"),
            ("line", "F\ta\tx+\t0\t5\t0\t5\t" + v + "M", "gfa2"),
            ("line", "F\ta\tx+\t0\t5\t0\t5\t" + v, "gfa2"),
            ("line", "C\tA\t+\tB\t+\t0\t" + v + "M", "gfa1"),
            ("line", "P\tp\tA+,B+\t" + v + "M", "gfa1"),
            ("line", "G\tg\ta+\tb+\t5\t" + v, "gfa2"),
            ("line", "G\tg\ta+\tb+\t" + v + "\t" + v, "gfa2"),
            ("line", "S\t" + v + "\t*", "gfa1"), ("line", "S\tA\t*\txx:H:" + v, "gfa1")]
  out += [("line", "S\tA\t*\txx:J:" + deep, "gfa1"),
          ("line", "S\tA\t*\txx:J:" + "[" * 100000, "gfa1"),
          ("line", "S\tA\t*\txx:J:" + '{"a":' * 50000 + "1" + "}" * 50000, "gfa1"),
          ("line", "S\tA\t*\txx:Z:" + "x" * 200000, "gfa1"),
          ("line", "S\tA\t" + "A" * 200000, "gfa1"),
          ("line", "P\tp\t" + ",".join(["A+"] * 300) + "\t*", "gfa1"),
          ("line", "O\to\t" + " ".join(["a+"] * 300), "gfa2"),
          ("line", "S\tA\t*" + "".join("\tx{}:i:1".format(c) for c in "abcdefghij") * 1, "gfa1")]
  for d in ("\u00b2", "\u0661", "\uff11"):
    out += [("line", "S\t" + d + "\t*", "gfa1"), ("line", "S\t" + d + "\t4\t*", "gfa2"),
            ("line", "S\tA\t*\txx:i:" + d, "gfa1"), ("line", "S\ta\t" + d + "\t*", "gfa2"),
            ("line", "E\t" + d + "\ta+\tb+\t0\t" + d + "\t0\t1\t*", "gfa2"),
            ("line", "L\tA\t+\tB\t+\t" + d + "M", "gfa1"),
            ("line", "L\tA\t+\tB\t+\t*\tID:Z:" + d, "gfa1"),
            ("line", "P\t" + d + "\tA+\t*", "gfa1"), ("line", "O\t" + d + "\ta+", "gfa2")]
  vals = {"A": "x", "i": "5", "f": "1.5", "Z": "ab", "J": "[1]", "H": "1A", "B": "c,1"}
  from ..ref import grammar
  for version, recs in grammar.RECORDS.items():
    lines = corpus.GFA1_LINES if version == "gfa1" else corpus.GFA2_LINES
    for rt, (pos, pre) in recs.items():
      base = next(l for l in lines if l.split("\t")[0] == rt).split("\t")[:1 + len(pos)]
      for tag in list(pre) + ["VN", "TS", "ID", "LN", "SN", "SO"]:
        for dt, v in vals.items():
          out.append(("line", "\t".join(base + ["{}:{}:{}".format(tag, dt, v)]), version))
  return out


def work_extremes(chunk):
  res = new_result()
  found = {}
  for entry, text, version in chunk:
    for vlevel in (0, 1, 2, 3):
      for ver in (None, version):
        res["evaluations"] += 1
        r = call(lambda: use_line(text, vlevel, ver))
        note(res, found, r, "line", text, vlevel, ver, "standard")
        res["evaluations"] += 1
        r = call(lambda: use_doc(text, vlevel, ver, "standard"))
        note(res, found, r, "doc", text, vlevel, ver, "standard")
        # the lazily parsed / API path: set the raw value, then validate
        def viaset():
          f = text.split("\t")
          l = gfapy.Line("S\tA\t*", vlevel=vlevel, version="gfa1")
          for t in f:
            m = t.split(":", 2)
            if len(m) == 3 and len(m[0]) == 2 and m[1] in "AifZJHB":
              l.set_datatype("xx", m[1])
              l.set("xx", m[2])
              str(l); l.validate()
        res["evaluations"] += 1
        r = call(viaset)
        note(res, found, r, "line", text, vlevel, ver, "standard")
  res["transitions"] = res["evaluations"]
  res["states"].add("extremes:" + h([c[1][:50] + str(len(c[1])) for c in chunk]))
  res["found"] = found
  res["n_strings"] = len(chunk)
  return res


def work_conversions(item):
  """line-level and graph-level version conversion called on every line of
  the corpus documents, each call on a fresh Gfa (no string argument: the
  input is the position of the line)"""
  version, vlevel = item
  res = new_result()
  found = {}
  doc = corpus.GFA1_DOC if version == "gfa1" else corpus.GFA2_DOC
  extra = ([T_(["P", "pc", "A+,B-,A+", "2M1I,*"]), T_(["L", "B", "-", "A", "+", "*"]),
            T_(["L", "C", "+", "A", "-", "*"])]
           if version == "gfa1" else [T_(["E", "ei", "a+", "b+", "1", "2", "1", "2", "*"]),
                                      T_(["O", "os", "a+"]), T_(["O", "*", "a+ b-"])])
  doc = doc + extra
  n = len(gfapy.Gfa(doc, vlevel=vlevel, version=version).lines)
  for i in range(n):
    for meth in ("to_gfa1_s", "to_gfa2_s", "to_gfa1", "to_gfa2"):
      res["evaluations"] += 1
      def fn():
        g = gfapy.Gfa(doc, vlevel=vlevel, version=version)
        l = g.lines[i]
        r = getattr(l, meth)()
        str(r)
      r = call(fn)
      note(res, found, r, "api:convert-" + meth, str(i), vlevel, version, "standard")
  for meth in ("to_gfa1_s", "to_gfa2_s", "to_gfa1", "to_gfa2"):
    res["evaluations"] += 1
    def fn2():
      g = gfapy.Gfa(doc, vlevel=vlevel, version=version)
      str(getattr(g, meth)())
    r = call(fn2)
    note(res, found, r, "api:convert-gfa-" + meth, "-", vlevel, version, "standard")
  res["transitions"] = res["evaluations"]
  res["states"].add("conv:{}:{}".format(version, vlevel))
  res["found"] = found
  return res


def T_(f):
  return "\t".join(f)


FILE_VARIANTS = [
    ("empty", b""), ("newline-only", b"\n"), ("crlf-only", b"\r\n"),
    ("no-final-newline", b"S\tA\t*"), ("final-newline", b"S\tA\t*\n"),
    ("crlf", b"S\tA\t*\r\nS\tB\t*\r\n"), ("blank-middle", b"S\tA\t*\n\nS\tB\t*\n"),
    ("cr-middle", b"S\tA\t*\r\rS\tB\t*\n"), ("nul", b"S\tA\t*\x00\n"),
    ("utf8", "S\tA\t*\txx:Z:\u00e9\n".encode()),
    ("bom", b"\xef\xbb\xbfS\tA\t*\n"), ("tabs-only", b"\t\t\n"),
    ("space-line", b" \n"), ("gfa2", b"S\ta\t1\t*\nE\t*\ta+\ta-\t0\t1$\t0\t1$\t*\n"),
    ("mixed", b"S\tA\t*\nE\t*\tA+\tA-\t0\t1$\t0\t1$\t*\n"),
    ("header-only", b"H\tVN:Z:1.0\n"), ("bad-version", b"H\tVN:Z:3.0\n"),
]


def work_files(item):
  res = new_result()
  found = {}
  d = tempfile.mkdtemp(prefix="gfamc_c07_")
  try:
    for name, data in FILE_VARIANTS:
      p = os.path.join(d, name + ".gfa")
      with open(p, "wb") as f:
        f.write(data)
      for vlevel in (0, 1, 3):
        for version in (None, "gfa1", "gfa2"):
          res["evaluations"] += 1
          def fn():
            g = gfapy.Gfa.from_file(p, vlevel=vlevel, version=version)
            str(g)
            g.validate()
            g.to_file(os.path.join(d, "out.gfa"))
          r = call(fn)
          note(res, found, r, "file:" + name, repr(data), vlevel, version,
               "standard")
    # the same files read with progress logging switched on (its options
    # take part in reading: part = 0 means "report at every line"); then the
    # operations that report progress
    import io
    for name, data in FILE_VARIANTS:
      p = os.path.join(d, name + ".gfa")
      with open(p, "wb") as f:
        f.write(data)
      for part in (0, 0.1, 0.5, 1, 2):
        res["evaluations"] += 1
        def fn2():
          g = gfapy.Gfa(vlevel=1)
          g.enable_progress_logging(part=part, channel=io.StringIO())
          g.read_file(p)
          g.merge_linear_paths()
          str(g)
        r = call(fn2)
        note(res, found, r, "file-progress:{}:{}".format(part, name),
             repr(data), 1, None, "standard")
    # missing file: OSError is the documented behaviour of open(); not judged
    # bin/gfapy-validate: exit status 0 or 1 with an error message, never a
    # traceback of a foreign exception
    exe = os.path.join(REPO, "bin", "gfapy-validate")
    for name, data in FILE_VARIANTS[:12]:
      p = os.path.join(d, name + ".gfa")
      res["evaluations"] += 1
      pr = subprocess.run([sys.executable, exe, p], capture_output=True,
                          text=True, env=dict(os.environ, PYTHONPATH=REPO),
                          timeout=60)
      if "Traceback" in pr.stderr:
        last = pr.stderr.strip().split("\n")[-1]
        exc = last.split(":")[0].strip()
        if not exc.startswith("gfapy."):
          k = (exc.split(".")[-1], "bin/gfapy-validate")
          found.setdefault(k, {"entry": "gfapy-validate:" + name,
                               "input": repr(data), "vlevel": 1,
                               "version": None, "dialect": "standard"})
  finally:
    shutil.rmtree(d, ignore_errors=True)
  res["transitions"] = res["evaluations"]
  res["states"].add("files")
  res["found"] = found
  return res


def standalone_for(w):
  if w["entry"] == "line":
    return ("import gfapy\nl = gfapy.Line({!r}, vlevel={!r}, version={!r})\n"
            "str(l); repr(l); l.validate()").format(w["input"], w["vlevel"],
                                                    w["version"])
  if w["entry"] == "doc":
    return ("import gfapy\ng = gfapy.Gfa({!r}, vlevel={!r}, version={!r}, "
            "dialect={!r})\nstr(g); g.validate(); g.names").format(
                w["input"], w["vlevel"], w["version"], w["dialect"])
  return "# entry {}: see gfamc/checks/c07.py; input {!r}".format(
      w["entry"], w["input"])


def report(ctx, found_all):
  for (exc, site), w in sorted(found_all.items()):
    ctx.violation(mkviolation(
        "foreign-exception", {"exc": exc, "site": site}, w,
        "returns or raises gfapy.Error", "{} at {}".format(exc, site),
        standalone_for(w)))


def run(ctx):
  ctx.rule = ("every string of length <= k over the 22-symbol alphabet as a "
              "line and as a document under every configuration; every "
              "single-point mutation of the valid corpus; API string menu; "
              "file variants; distinct = distinct (exception class, call "
              "site) outcome; non-trivial = input reaching a parser (len>0)")
  ctx.alphabet = {"strings": ALPHA, "mutations": MUT_ALPHA, "api": API_ALPHA,
                  "configs_full": CONFIGS_FULL,
                  "configs_longer_strings": CONFIGS_QUICK4 if ctx.quick
                  else CONFIGS_LIGHT}
  ctx.assumptions = [
      "inputs limited to the enumerated alphabets/lengths and to single-point "
      "mutations of the corpus in gfamc/corpus.py",
      "non-termination is approximated by a 3 s per-call budget",
      "OSError for a missing/unreadable file is outside the claim"]
  found_all = {}
  def absorb(rs):
    for r in rs:
      f = r.pop("found")
      ns = r.pop("n_strings", 0)
      ctx.extra["inputs"] = ctx.extra.get("inputs", 0) + ns
      for k, w in f.items():
        old = found_all.get(k)
        if old is None or (len(w["input"]), w["input"]) < (len(old["input"]),
                                                         old["input"]):
          found_all[k] = w
      ctx.merge(r)
  k_full = 3
  k_light = 4 if ctx.quick else 5
  tasks = [(t, k_full, 0) for t in enumstr.prefix_tasks(ALPHA, k_full)]
  absorb(ctx.pmap(work_strings, tasks, chunksize=4))
  # longer strings under the light configuration set (skip those <= k_full)
  tasks = [(t, k_light, 2 if ctx.quick else 1)
           for t in enumstr.prefix_tasks(ALPHA, k_light)
           if t[0] == "prefix"]
  absorb(ctx.pmap(work_strings, tasks, chunksize=2))
  mt = []
  for version, lines, doc in (("gfa1", corpus.GFA1_LINES, corpus.GFA1_DOC),
                              ("gfa2", corpus.GFA2_LINES, corpus.GFA2_DOC)):
    mt += [("line", i, version) for i in range(len(lines))]
    mt += [("doc", i, version) for i in range(len(doc))]
  absorb(ctx.pmap(work_mutations, mt, chunksize=1))
  at = []
  for version in ("gfa1", "gfa2"):
    for vlevel in ((1, 3) if ctx.quick else (0, 1, 2, 3)):
      n = len(api_calls(version, vlevel)[1])
      at += [(version, vlevel, i) for i in range(n)]
  absorb(ctx.pmap(work_api, at, chunksize=1))
  absorb([work_files(None)])
  absorb(ctx.pmap(work_conversions, [(v, k) for v in ("gfa1", "gfa2")
                                     for k in (0, 1, 2, 3)], chunksize=1))
  ex = extreme_cases()
  absorb(ctx.pmap(work_extremes, [ex[i:i + 8] for i in range(0, len(ex), 8)],
                  chunksize=1))
  ctx.extra["extreme_cases"] = len(ex)
  ctx.nontrivial.update(ctx.states)
  ctx.bound_completed = {"strings_full_configs": k_full,
                         "strings_light_configs": k_light,
                         "api_strings": 3, "mutations": "single-point"}
  ctx.sample({"entry": "doc", "input": "S\tA\t*\n", "vlevel": 1})
  ctx.sample({"entry": "line", "input": "E\t\t", "vlevel": 0})
  report(ctx, found_all)


def replay(w, ctx):
  out = []
  e = w["entry"]
  r = None
  if e == "line":
    r = call(lambda: use_line(w["input"], w["vlevel"], w["version"]))
  elif e == "doc":
    r = call(lambda: use_doc(w["input"], w["vlevel"], w["version"],
                             w["dialect"]))
  elif e.startswith("api:convert-"):
    res = work_conversions((w["version"], w["vlevel"]))
    for (exc, site), ww in res["found"].items():
      out.append(mkviolation("foreign-exception", {"exc": exc, "site": site},
                             ww, "returns or raises gfapy.Error",
                             "{} at {}".format(exc, site), ""))
    return out
  elif e.startswith("api:"):
    fresh, menu = api_calls(w["version"], w["vlevel"])
    fn = dict(menu)[e[4:]]
    g = fresh()
    r = call(lambda: fn(g, w["input"]))
  elif e.startswith("file:") or e.startswith("gfapy-validate:"):
    res = work_files(None)
    for (exc, site), ww in res["found"].items():
      out.append(mkviolation("foreign-exception", {"exc": exc, "site": site},
                             ww, "returns or raises gfapy.Error",
                             "{} at {}".format(exc, site), ""))
    return out
  if r is not None:
    out.append(mkviolation("foreign-exception", {"exc": r[0], "site": r[1]}, w,
                           "returns or raises gfapy.Error",
                           "{} at {}".format(r[0], r[1]), standalone_for(w)))
  return out
