"""C19 -- a clone is an equal, detached and fully independent line.

Engine I: every record type x every field datatype x every tag datatype, each
line stand-alone, connected with its references resolved, connected with its
references dangling (virtual targets), and the virtual lines themselves.

Static clauses, evaluated for every line:
  clone-raises   clone() must return
  clone-gfa      clone.gfa is None and not clone.is_connected()
  clone-text     str(clone) == str(original)  (str() renders references as
                 identifiers), without an INVALID marker
  clone-equal    clone == original and original == clone
  line-inside    no gfapy.Line / Gfa object reachable from the clone
  shared-mutable no mutable object reachable from both lines (LastPos and
                 placeholder objects count as immutable values)
Dynamic clauses, one fresh build per (line, field, in-place edit):
  edit-clone-changes-original   the edit is applied to the clone; the
                 observation of the original and str(gfa) must not change
  edit-original-changes-clone   the edit is applied to the original; the
                 observation of the clone must not change
"""
import json
import gfapy
from .. import purity, observe
from ..purity import canon, line_obs, safe_str
from ..runner import guard, timed_out, h, new_result, mkviolation, \
    HarnessTimeout

PROPERTY = "C19"
T = "\t".join

# ---------------------------------------------------------------- corpus ---

TAGS = [
    ("A", "xa:A:c"), ("i", "xi:i:-5"), ("f", "xf:f:1.5"),
    ("Z", "xz:Z:hello world"),
    ("J", 'xj:J:{"a": [1, {"b": [2]}], "c": {"d": [3]}}'),
    ("J", 'xk:J:[1, [2, [3]], {"k": [4]}]'),
    ("H", "xh:H:1AFF"), ("B", "xb:B:C,1,2,3"), ("B", "xc:B:f,1.5,2.0"),
]

# (name, version, text of the line, support lines that resolve its references)
TEMPLATES = [
    ("H1", "gfa1", T(["H", "VN:Z:1.0"]), []),
    ("S1.seq", "gfa1", T(["S", "A", "ACGT"]), []),
    ("S1.ph", "gfa1", T(["S", "B", "*", "LN:i:4"]), []),
    ("L.cigar", "gfa1", T(["L", "A", "+", "B", "-", "2M1I1M"]),
     ["S\tA\tACGT", "S\tB\tACG"]),
    ("L.ph", "gfa1", T(["L", "A", "+", "B", "+", "*"]),
     ["S\tA\tACGT", "S\tB\tACG"]),
    ("C.cigar", "gfa1", T(["C", "A", "+", "B", "-", "1", "2M1D"]),
     ["S\tA\tACGT", "S\tB\tAC"]),
    ("C.ph", "gfa1", T(["C", "A", "-", "B", "+", "0", "*"]),
     ["S\tA\tACGT", "S\tB\tAC"]),
    ("P.cigars", "gfa1", T(["P", "p", "A+,B-,C+", "2M1I1M,3M"]),
     ["S\tA\tACGT", "S\tB\tACG", "S\tC\tACGT",
      "L\tA\t+\tB\t-\t2M1I1M", "L\tB\t-\tC\t+\t3M"]),
    ("P.ph", "gfa1", T(["P", "q", "A+,B-", "*"]),
     ["S\tA\tACGT", "S\tB\tACG", "L\tA\t+\tB\t-\t2M1I1M"]),
    ("P.one", "gfa1", T(["P", "r", "A+", "*"]), ["S\tA\tACGT"]),
    ("#1", "gfa1", "# a comment", []),
    ("H2", "gfa2", T(["H", "VN:Z:2.0", "TS:i:10"]), []),
    ("S2.seq", "gfa2", T(["S", "a", "4", "ACGT"]), []),
    ("S2.ph", "gfa2", T(["S", "b", "4", "*"]), []),
    ("E.cigar", "gfa2", T(["E", "e1", "a+", "b-", "2", "4$", "0", "2", "2M"]),
     ["S\ta\t4\t*", "S\tb\t4\t*"]),
    ("E.trace", "gfa2", T(["E", "e2", "a+", "b+", "0", "2", "1", "3", "1,2"]),
     ["S\ta\t4\t*", "S\tb\t4\t*"]),
    ("E.ph", "gfa2", T(["E", "*", "a-", "b+", "0", "2", "2", "4$", "*"]),
     ["S\ta\t4\t*", "S\tb\t4\t*"]),
    ("G.var", "gfa2", T(["G", "g1", "a+", "b-", "10", "2"]),
     ["S\ta\t4\t*", "S\tb\t4\t*"]),
    ("G.ph", "gfa2", T(["G", "*", "a-", "b+", "10", "*"]),
     ["S\ta\t4\t*", "S\tb\t4\t*"]),
    ("F.cigar", "gfa2", T(["F", "a", "x+", "0", "4$", "0", "2", "2M"]),
     ["S\ta\t4\t*"]),
    ("F.trace", "gfa2", T(["F", "a", "y-", "1", "3", "0", "2$", "1,1"]),
     ["S\ta\t4\t*"]),
    ("F.ph", "gfa2", T(["F", "a", "z+", "0", "2", "1", "2", "*"]),
     ["S\ta\t4\t*"]),
    ("O", "gfa2", T(["O", "o1", "a+ e1+ b-"]),
     ["S\ta\t4\t*", "S\tb\t4\t*", "E\te1\ta+\tb-\t2\t4$\t0\t2\t2M"]),
    ("O.unnamed", "gfa2", T(["O", "*", "a+ b-"]),
     ["S\ta\t4\t*", "S\tb\t4\t*", "E\te1\ta+\tb-\t2\t4$\t0\t2\t2M"]),
    ("O.nested", "gfa2", T(["O", "o2", "o1- a-"]),
     ["S\ta\t4\t*", "S\tb\t4\t*", "E\te1\ta+\tb-\t2\t4$\t0\t2\t2M",
      "E\te9\ta-\ta-\t0\t1\t3\t4$\t*", "O\to1\ta+ e1+ b-"]),
    ("U", "gfa2", T(["U", "u1", "a e1 g1 o1"]),
     ["S\ta\t4\t*", "S\tb\t4\t*", "E\te1\ta+\tb-\t2\t4$\t0\t2\t2M",
      "G\tg1\ta+\tb-\t10\t2", "O\to1\ta+ e1+ b-"]),
    ("U.unnamed", "gfa2", T(["U", "*", "a b"]), ["S\ta\t4\t*", "S\tb\t4\t*"]),
    ("U.nested", "gfa2", T(["U", "u2", "u1 a"]),
     ["S\ta\t4\t*", "S\tb\t4\t*", "U\tu1\tb"]),
    ("X.two", "gfa2", T(["X", "f1", "f2"]), []),
    ("Y.num", "gfa2", T(["Y", "12", "a+ b-", "*"]), []),
    ("#2", "gfa2", "#   another comment", []),
]
TEMPLATE_BY_NAME = {t[0]: t for t in TEMPLATES}

# multi-valued header tags: the merged header line holds a FieldArray
MULTI_HEADERS = [
    ("Hm.i", "gfa1", ["H\txx:i:1", "H\txx:i:2"]),
    ("Hm.Z", "gfa1", ["H\txx:Z:a b", "H\txx:Z:c"]),
    ("Hm.f", "gfa2", ["H\txx:f:1.5", "H\txx:f:2.5"]),
    ("Hm.J", "gfa2", ['H\txx:J:{"a": [1]}', 'H\txx:J:[2, [3]]']),
    ("Hm.B", "gfa2", ["H\txx:B:C,1,2", "H\txx:B:C,3"]),
    ("Hm.H", "gfa1", ["H\txx:H:1A", "H\txx:H:FF"]),
    ("Hm.A", "gfa1", ["H\txx:A:a", "H\txx:A:b"]),
]
MULTI_BY_NAME = {t[0]: t for t in MULTI_HEADERS}

CONTEXTS = ["alone", "alone-read", "alone-api", "connected", "dangling"]
# tags created through the API (never parsed from text, never rendered before
# the clone is taken): name, value constructor
API_TAGS = [("ya", lambda: {"a": [1, {"b": 2}]}), ("yb", lambda: [1, "x", [2]]),
            ("yc", lambda: [1, 2, 3]), ("yd", lambda: [1.5, 2.5]),
            ("ye", lambda: gfapy.NumericArray([4, 5])), ("yf", lambda: "text"),
            ("yg", lambda: 7), ("yh", lambda: 2.5),
            ("yi", lambda: gfapy.ByteArray([1, 2]))]


def tagsets(quick):
  """Index sets into TAGS: none, each single datatype, all together (and, in
  the thorough tier, every pair)."""
  out = [()] + [(i,) for i in range(len(TAGS))] + [tuple(range(len(TAGS)))]
  if not quick:
    out += [(i, j) for i in range(len(TAGS)) for j in range(i + 1, len(TAGS))]
  return out


def line_text(tname, tagset):
  t = TEMPLATE_BY_NAME[tname]
  if t[2].startswith("#") or not tagset:
    return t[2]
  return t[2] + "\t" + T([TAGS[i][1] for i in tagset])


def work_items(quick):
  vlevels = (0, 1, 3) if quick else (0, 1, 2, 3)
  items = []
  for t in TEMPLATES:
    for ts in tagsets(quick):
      if t[2].startswith("#") and ts:
        continue
      for ctx_ in CONTEXTS:
        for vl in vlevels:
          if ctx_ == "alone-read" and vl != 0:
            continue  # only differs from "alone" when parsing is lazy
          if ctx_ == "alone-api" and (ts or t[2].startswith("#")):
            continue  # the API tags replace the textual tag sets
          items.append({"kind": "line", "template": t[0], "tags": list(ts),
                        "context": ctx_, "vlevel": vl})
  for m in MULTI_HEADERS:
    for vl in vlevels:
      items.append({"kind": "multiheader", "template": m[0], "tags": [],
                    "context": "connected", "vlevel": vl})
  return items


# ----------------------------------------------------------------- build ---

class Skip(Exception):
  pass


def build(item):
  """Returns (gfa or None, [original lines to clone], description)."""
  vl = item["vlevel"]
  if item["kind"] == "multiheader":
    name, ver, doc = MULTI_BY_NAME[item["template"]]
    g = gfapy.Gfa(version=ver, vlevel=vl)
    for l in doc:
      g.add_line(l)
    return g, [g.header] + list(g.headers)
  tname, ver, _, support = TEMPLATE_BY_NAME[item["template"]]
  text = line_text(tname, item["tags"])
  c = item["context"]
  if c == "alone-api":
    l = gfapy.Line(text, version=ver, vlevel=vl)
    for i, (n, mk) in enumerate(API_TAGS):
      if i % 2:
        setattr(l, n, mk())
      else:
        l.set(n, mk())
    return None, [l]
  if c in ("alone", "alone-read"):
    l = gfapy.Line(text, version=ver, vlevel=vl)
    if c == "alone-read":
      for f in purity.fields_of(l):
        l.get(f)
    return None, [l]
  g = gfapy.Gfa(version=ver, vlevel=vl)
  if c == "connected":
    for s in support:
      g.add_line(s)
  g.add_line(text)
  if text.startswith("H"):
    return g, [g.header] + list(g.headers)
  found = [l for l in g.lines if safe_str(l) == text]
  if not found:
    raise Skip("line not found by text after add_line")
  lines = [found[0]]
  if c == "dangling":
    ls, extra = observe.all_lines(g)
    lines += [l for l in ls + extra if observe.is_virtual(l)]
  return g, lines


# ----------------------------------------------------------------- edits ---
# An edit is a JSON-able list [label, field, path, action]:
#   path   = list of steps from the field value: ["i", n] (list / CIGAR /
#            FieldArray item), ["k", key] (dict value)
#   action = "append" | "setitem0" | "pop" | "clear" | "dict-new" |
#            "dict-set" | "dict-pop" | "orient" | "line" | "invert" |
#            "op-code" | "op-length"
# plus line-level edits [label, field, [], "set" | "delete" | "set_datatype"]
# and ["new-tag", "zz", [], "set-new"].

def listlike(v):
  return isinstance(v, list)


def items_of(v):
  if isinstance(v, gfapy.FieldArray):
    return list(iter(v))
  return list(v)


def new_element(v):
  """An element of the kind the container holds."""
  its = items_of(v)
  if isinstance(v, gfapy.CIGAR):
    return gfapy.CIGAR.Operation(7, "M")
  if isinstance(v, gfapy.Trace):
    return 9
  if isinstance(v, gfapy.NumericArray):
    return 7.5 if its and isinstance(its[0], float) else 7
  if its:
    e = its[0]
    if isinstance(e, gfapy.OrientedLine):
      return gfapy.OrientedLine("zz", "+")
    if isinstance(e, (gfapy.CIGAR, gfapy.Placeholder)):
      return gfapy.CIGAR([gfapy.CIGAR.Operation(7, "M")])
    if isinstance(e, (gfapy.Line, str)):
      return "zz"
    if isinstance(e, float):
      return 7.5
  return 7


def enum_edits(v, depth, path=None):
  """All in-place edits of value v and of what it contains, to `depth`."""
  path = path or []
  out = []
  if isinstance(v, gfapy.OrientedLine):
    out += [(path, "orient"), (path, "line"), (path, "invert")]
  elif isinstance(v, gfapy.CIGAR.Operation):
    out += [(path, "op-code"), (path, "op-length")]
  elif isinstance(v, dict):
    out += [(path, "dict-new")]
    if v:
      out += [(path, "dict-set"), (path, "dict-pop")]
    if depth > 0:
      for k, e in v.items():
        out += enum_edits(e, depth - 1, path + [["k", k]])
  elif listlike(v) or isinstance(v, gfapy.FieldArray):
    out += [(path, "append")]
    its = items_of(v)
    if its:
      out += [(path, "setitem0"), (path, "pop"), (path, "clear")]
    if depth > 0:
      for i, e in enumerate(its):
        out += enum_edits(e, depth - 1, path + [["i", i]])
  return out


def navigate(v, path):
  for kind, key in path:
    if kind == "i":
      v = items_of(v)[key] if isinstance(v, gfapy.FieldArray) else v[key]
    else:
      v = v[key]
  return v


def apply_edit(line, edit):
  """Apply one edit to `line`.  Raises whatever gfapy raises."""
  label, field, path, action = edit
  if action == "set-new":
    line.set(field, 1)
    return
  if action == "delete":
    line.delete(field)
    return
  if action == "set_datatype":
    cur = line.get_datatype(field)
    line.set_datatype(field, "Z" if cur != "Z" else "J")
    return
  v = line.get(field)
  if action == "set":
    if isinstance(v, bool) or v is None:
      raise Skip("no atom")
    if isinstance(v, int):
      line.set(field, v + 1)
    elif isinstance(v, float):
      line.set(field, v + 1.0)
    elif isinstance(v, str):
      line.set(field, "Q" + v[1:] if len(v) > 1 else "Q")
    else:
      raise Skip("no atom")
    return
  x = navigate(v, path)
  if action == "append":
    x.append(new_element(x))
  elif action == "setitem0":
    if isinstance(x, gfapy.FieldArray):
      x._data[0] = new_element(x)
    else:
      x[0] = new_element(x)
  elif action == "pop":
    x.pop()
  elif action == "clear":
    if isinstance(x, gfapy.FieldArray):
      del x._data[:]
    else:
      del x[:]
  elif action == "dict-new":
    x["zz"] = 7
  elif action == "dict-set":
    x[next(iter(x))] = 7
  elif action == "dict-pop":
    x.pop(next(iter(x)))
  elif action == "orient":
    x.orient = "-" if x.orient == "+" else "+"
  elif action == "line":
    x.line = "zz"
  elif action == "invert":
    x.invert()
  elif action == "op-code":
    x.code = "P" if x.code != "P" else "M"
  elif action == "op-length":
    x.length = x.length + 1
  else:
    raise ValueError(action)


def edits_of(line, depth):
  out = []
  for f in purity.fields_of(line):
    try:
      v = line.get(f)
    except Exception:
      continue
    for path, action in enum_edits(v, depth):
      lab = "{}@{}".format(action, "/".join(str(s[1]) for s in path) or ".")
      out.append([lab, f, path, action])
    out.append(["set", f, [], "set"])
    try:
      istag = f in line.tagnames
    except Exception:
      istag = False
    if istag:
      out.append(["delete", f, [], "delete"])
      out.append(["set_datatype", f, [], "set_datatype"])
  if observe.rt_of(line) != "#":
    out.append(["new-tag", "zz", [], "set-new"])
  return out


# ---------------------------------------------------------------- oracle ---

def rclass(line):
  rt = observe.rt_of(line)
  v = ""
  if rt == "S":
    v = "1" if isinstance(line, gfapy.line.segment.GFA1) else "2"
  if isinstance(line, gfapy.line.CustomRecord):
    return "custom"
  if isinstance(line, gfapy.line.Unknown):
    return "unknown"
  if observe.is_virtual(line):
    return rt + v + ".virtual"
  return rt + v


def dtype(line, f):
  try:
    t = line.get_datatype(f)
  except Exception:
    t = "?"
  try:
    v = line.get(f)
  except Exception:
    return str(t)
  return "{}:{}".format(t, type(v).__name__)


def static_clauses(g, orig, res):
  """Returns list of (clause, key-extras, expected, observed)."""
  out = []
  text0 = safe_str(orig)
  gtext0 = safe_str(g) if g is not None else None
  try:
    c = orig.clone()
  except Exception as e:
    return None, [("clone-raises", {"what": type(e).__name__},
                   "clone() returns a line", purity.exc_canon(e))]
  res["transitions"] += 1
  try:
    ok = c.gfa is None and not c.is_connected()
  except Exception as e:
    ok = False
  if not ok:
    out.append(("clone-gfa", {}, "clone.gfa is None", "clone is connected"))
  try:
    ctext = str(c)
  except Exception as e:
    ctext = purity.exc_canon(e)
  if ctext != text0 or "INVALID" in text0:
    what = ctext[1] if isinstance(ctext, list) else "differs"
    out.append(("clone-text", {"what": what}, text0, ctext))
  for a, b, lab in ((c, orig, "clone==original"), (orig, c, "original==clone")):
    try:
      eq = (a == b)
    except Exception as e:
      eq = purity.exc_canon(e)
    if eq is not True:
      what = eq[1] if isinstance(eq, list) else "False"
      out.append(("clone-equal", {"what": what, "side": lab}, True, eq))
  inside = purity.lines_inside(c)
  if inside:
    out.append(("line-inside", {"where": inside[0][0].split("[")[0]},
                "no Line/Gfa reachable from the clone", inside[:4]))
  for pa, pb, tn in purity.shared_mutables(orig, c):
    f = pa.split("]")[0].split("[")[-1].strip("'") if "[" in pa else pa
    out.append(("shared-mutable", {"field": f, "type": tn},
                "no mutable object reachable from both lines",
                {"path_in_original": pa, "path_in_clone": pb, "type": tn}))
  if safe_str(orig) != text0 or (g is not None and safe_str(g) != gtext0):
    out.append(("clone-modifies-original", {}, text0, safe_str(orig)))
  # equality must not depend on which of the two copies has been *read*
  # (lazily parsed fields are decoded on first access)
  def read_all(l):
    for f in list(l.positional_fieldnames) + list(l.tagnames):
      try:
        l.get(f)
      except Exception:
        pass
  for who in ("clone", "original"):
    try:
      c2 = orig.clone()
      read_all(c2 if who == "clone" else orig)
      res["transitions"] += 1
      for a, b, lab in ((c2, orig, "clone==original"), (orig, c2, "original==clone")):
        try:
          eq = (a == b)
        except Exception as e:
          eq = purity.exc_canon(e)
        if eq is not True:
          what = eq[1] if isinstance(eq, list) else "False"
          out.append(("clone-equal", {"what": what, "side": lab,
                                      "after": "fields of the {} read".format(who)},
                      True, eq))
    except Exception as e:
      out.append(("clone-raises", {"what": type(e).__name__}, "clone() returns a line",
                  purity.exc_canon(e)))
  return c, out


def check_item(item):
  res = new_result()
  res["evaluations"] += 1
  depth = item.get("depth", 2)
  for budget in (60, 600):   # a stalled machine must not raise an alarm
    res = new_result()
    res["evaluations"] += 1
    try:
      with guard(budget):
        _check_item(item, res, depth)
    except HarnessTimeout:
      pass
    except Skip as e:
      # the same document was built before for the static clauses; if a
      # later build no longer shows a line with its input text, an earlier
      # edit of a clone (or of another line) leaked into it
      res["violations"].append(mkviolation(
          "rebuilt-document-differs",
          {"template": item["template"].split(".")[0], "what": str(e)},
          {"item": item}, "every fresh build of the same text gives the same "
          "lines", str(e), ""))
    if not timed_out():
      break
  if timed_out():
    res["violations"].append(mkviolation(
        "timeout", {"template": item["template"], "context": item["context"]},
        {"item": item}, "terminates", "time budget exceeded", ""))
  return res


def _viol(res, item, li, clause, kx, expected, observed, edit=None, side=None):
  key = {"record": kx.pop("_rc"), "template": item["template"].split(".")[0]}
  key.update(kx)
  w = {"item": item, "line": li, "clause": clause}
  if edit is not None:
    w["edit"] = edit
    w["side"] = side
  res["violations"].append(mkviolation(
      clause, key, w, expected, observed, standalone(item, li, edit, side)))


def _check_item(item, res, depth):
  try:
    g, lines = build(item)
  except Skip as e:
    res["outcomes"].add("skip:" + str(e))
    return
  except gfapy.Error as e:
    res["outcomes"].add("build-refused:" + type(e).__name__)
    return
  for li, orig in enumerate(lines):
    rc = rclass(orig)
    if item["context"] == "alone-api":
      # clone BEFORE the original is rendered, compared or asked for a
      # datatype (default datatypes of API-created tags are computed lazily)
      try:
        early = orig.clone()
        for pa, pb, tn in purity.shared_mutables(orig, early):
          f = pa.split("]")[0].split("[")[-1].strip("'") if "[" in pa else pa
          _viol(res, item, li, "shared-mutable",
                {"_rc": rc, "field": f, "type": tn, "when": "clone before first rendering"},
                "no mutable object reachable from both lines",
                {"path_in_original": pa, "path_in_clone": pb, "type": tn})
      except Exception as e:
        _viol(res, item, li, "clone-raises", {"_rc": rc, "what": type(e).__name__},
              "clone() returns a line", purity.exc_canon(e))
    clone, probs = static_clauses(g, orig, res)
    obs_o = line_obs(orig)
    res["states"].add(h([rc, obs_o]))
    for clause, kx, exp, obs in probs:
      kx = dict(kx, _rc=rc)
      _viol(res, item, li, clause, kx, exp, obs)
    res["outcomes"].add("static:" + ("ok" if not probs else
                                     ",".join(sorted(set(p[0] for p in probs)))))
    if clone is None:
      continue
    n_edit = 0
    # a field whose value is already known to be shared is not expanded into
    # one violation per edit (one root cause, one report)
    flagged = set(kx.get("field") for clause, kx, _, _ in probs
                  if clause == "shared-mutable")
    # -- edits of the clone must not reach the original (nor the Gfa) ------
    for edit in edits_of(clone, depth):
      if edit[1] in flagged:
        continue
      r = one_edit(item, li, edit, "clone", res)
      n_edit += 1
      if r is not None:
        _viol(res, item, li, "edit-clone-changes-original",
              {"_rc": rc, "field": edit[1], "datatype": dtype(orig, edit[1]),
               "edit": edit[0]}, r[0], r[1], edit, "clone")
    # -- edits of the original must not reach the clone --------------------
    for edit in edits_of(orig, depth):
      if edit[1] in flagged:
        continue
      r = one_edit(item, li, edit, "original", res)
      n_edit += 1
      if r is not None:
        _viol(res, item, li, "edit-original-changes-clone",
              {"_rc": rc, "field": edit[1], "datatype": dtype(orig, edit[1]),
               "edit": edit[0]}, r[0], r[1], edit, "original")
    if n_edit and len(res["samples"]) < 2:
      res["samples"].append({"line": safe_str(orig), "context": item["context"],
                             "vlevel": item["vlevel"], "edits": n_edit})


def one_edit(item, li, edit, side, res):
  """Fresh build; clone; observe; apply the edit to `side`; observe the other
  line again.  Returns None or (expected, observed)."""
  g, lines = build(item)
  orig = lines[li]
  clone = orig.clone()
  target, other = (clone, orig) if side == "clone" else (orig, clone)
  before_other = line_obs(other)
  before_target = safe_str(target)
  gtext = safe_str(g) if (g is not None and side == "clone") else None
  try:
    apply_edit(target, edit)
    outcome = "applied"
  except Skip:
    res["outcomes"].add("edit-not-applicable")
    return None
  except Exception as e:
    outcome = "refused:" + type(e).__name__
  res["transitions"] += 1
  res["traces"] += 1
  after_other = line_obs(other)
  changed = safe_str(target) != before_target
  res["outcomes"].add("edit:{}:{}:{}".format(
      edit[3], outcome, "effective" if changed else "no-effect"))
  if changed:
    res["nontrivial"].add(h([side, edit, before_target]))
  if after_other != before_other:
    return before_other, {"diff": purity.first_diff(before_other, after_other),
                          "edit_outcome": outcome}
  if gtext is not None and safe_str(g) != gtext:
    return gtext, {"gfa_text_after": safe_str(g), "edit_outcome": outcome}
  return None


# --------------------------------------------------------- stand-alone py ---

def standalone(item, li, edit=None, side=None):
  L = ["import gfapy"]
  vl = item["vlevel"]
  if item["kind"] == "multiheader":
    name, ver, doc = MULTI_BY_NAME[item["template"]]
    L.append("g = gfapy.Gfa(version={!r}, vlevel={})".format(ver, vl))
    L += ["g.add_line({!r})".format(l) for l in doc]
    L.append("lines = [g.header] + g.headers")
    L.append("orig = lines[{}]".format(li))
  else:
    tname, ver, _, support = TEMPLATE_BY_NAME[item["template"]]
    text = line_text(tname, item["tags"])
    if item["context"] in ("alone", "alone-read", "alone-api"):
      L.append("orig = gfapy.Line({!r}, version={!r}, vlevel={})".format(
          text, ver, vl))
      if item["context"] == "alone-api":
        L.append("# then the tags of gfamc.checks.c19.API_TAGS are set through "
                 "orig.set(...) / setattr(orig, ...)")
      if item["context"] == "alone-read":
        L.append("[orig.get(f) for f in orig.positional_fieldnames + "
                 "orig.tagnames]")
    else:
      L.append("g = gfapy.Gfa(version={!r}, vlevel={})".format(ver, vl))
      if item["context"] == "connected":
        L += ["g.add_line({!r})".format(s) for s in support]
      L.append("g.add_line({!r})".format(text))
      if text.startswith("H"):
        L.append("orig = ([g.header] + g.headers)[{}]".format(li))
      elif li == 0:
        L.append("orig = [l for l in g.lines if str(l) == {!r}][0]".format(
            text))
      else:
        L.append("orig = [l for l in g.lines if l.virtual][{}]".format(li - 1))
  L.append("clone = orig.clone()")
  if edit is None:
    L += ["print(clone.gfa, clone == orig)", "print(str(orig))",
          "print(str(clone))"]
    return "\n".join(L)
  tgt = "clone" if side == "clone" else "orig"
  oth = "orig" if side == "clone" else "clone"
  L.append("print('before:', str({}))".format(oth))
  label, field, path, action = edit
  nav = "{}.get({!r})".format(tgt, field)
  for kind, key in path:
    nav += "[{!r}]".format(key)
  code = {
      "append": nav + ".append(7)", "setitem0": nav + "[0] = 7",
      "pop": nav + ".pop()", "clear": "del " + nav + "[:]",
      "dict-new": nav + "['zz'] = 7",
      "dict-set": "d = {0}; d[next(iter(d))] = 7".format(nav),
      "dict-pop": "d = {0}; d.pop(next(iter(d)))".format(nav),
      "orient": "{0}.orient = '-' if {0}.orient == '+' else '+'".format(nav),
      "line": nav + ".line = 'zz'", "invert": nav + ".invert()",
      "op-code": nav + ".code = 'P'", "op-length": nav + ".length += 1",
      "set": "{}.set({!r}, 'Q')".format(tgt, field),
      "delete": "{}.delete({!r})".format(tgt, field),
      "set_datatype": "{}.set_datatype({!r}, 'Z')".format(tgt, field),
      "set-new": "{}.set('zz', 1)".format(tgt),
  }[action]
  L.append(code + "   # edit the " + ("clone" if side == "clone" else
                                       "original"))
  L.append("print('after: ', str({}))".format(oth))
  return "\n".join(L)


# ------------------------------------------------------------- run/replay ---

def run(ctx):
  ctx.rule = ("one case = one (line, context, vlevel): static clone clauses "
              "plus one fresh build per (field, in-place edit, side); "
              "non-trivial = an edit that changed the edited line")
  depth = 2 if ctx.quick else 3
  items = work_items(ctx.quick)
  for it in items:
    # the edits of every single tag value are enumerated on the single-tag
    # lines; the all-tags line adds the static clauses and top-level edits
    it["depth"] = 0 if (ctx.quick and len(it["tags"]) == len(TAGS)) else depth
  ctx.alphabet = {
      "templates": [t[0] + ": " + t[2].replace("\t", " ") for t in TEMPLATES],
      "multi_valued_headers": [m[0] for m in MULTI_HEADERS],
      "tags": [t[1] for t in TAGS],
      "tag_sets": "none, each single, all" + ("" if ctx.quick else ", pairs"),
      "contexts": CONTEXTS + ["virtual lines of the dangling documents"],
      "vlevels": [0, 1, 3] if ctx.quick else [0, 1, 2, 3],
      "edits": ["list append / item assignment / pop / clear",
                "dict new key / overwrite / pop", "OrientedLine orient / line "
                "/ invert()", "CIGAR operation code / length",
                "FieldArray append / item / pop / clear",
                "line.set(atom) / delete(tag) / set_datatype(tag) / new tag"],
      "edit_depth": depth}
  ctx.assumptions = [
      "LastPos and placeholder objects are treated as immutable values",
      "edits are single in-place edits from a fresh build (aliasing is a "
      "property of the object graph right after clone(), also walked "
      "exhaustively); nesting of JSON values <= 3",
      "extension record types: the T / M extension of the tutorial (two "
      "reference fields), cloned in a process of its own"]
  for r in ctx.pmap(check_item, items, chunksize=4):
    ctx.merge(r)
  for v in extension_probe():
    ctx.violation(v)
  ctx.evaluations += 1
  ctx.outcomes.add("extension-probe")
  ctx.bound_completed = {"items": len(items), "edit_depth": depth}


def extension_probe():
  """gfamc/ext_clone_probe.py in a fresh interpreter (same gfapy tree)."""
  import subprocess, sys, os
  from ..runner import VERIF
  pr = subprocess.run([sys.executable, "-m", "gfamc.ext_clone_probe"],
                      cwd=VERIF, capture_output=True, text=True, timeout=300,
                      env=dict(os.environ, PYTHONHASHSEED="0"))
  out = []
  lines = [l for l in pr.stdout.split("\n") if l.startswith("RESULT ")]
  if not lines:
    probs = [["extension-probe-raises",
              (pr.stderr.strip().split("\n") or ["no output"])[-1][:200]]]
  else:
    probs = json.loads(lines[-1][7:])
  for clause, detail in probs:
    out.append(mkviolation(
        clause, {"record": "extension", "template": "T/M", "what": detail[:120]},
        {"kind": "extension", "clause": clause},
        "a clone of an extension record is detached and independent", detail,
        "cd /verif && GFAMC_REPO=/repo /venv/bin/python -m gfamc.ext_clone_probe"))
  return out


def replay(w, ctx):
  if w.get("kind") == "extension":
    return [v for v in extension_probe() if v["clause"] == w["clause"]]
  item = w["item"]
  res = new_result()
  with guard(60):
    _check_item(item, res, item.get("depth", 2))
  out = []
  for v in res["violations"]:
    ww = v["witness"]
    if ww.get("line") == w.get("line") and ww.get("clause") == w.get("clause") \
        and ww.get("edit") == w.get("edit") and ww.get("side") == w.get("side"):
      out.append(v)
  return out
