"""C08 -- a failed mutation leaves the Gfa unchanged.

Engine H x failure alphabet: in every state reached by histories of successful
operations, every call of a failure alphabet is applied; if it raised, the full
observation (text in order, version, names, references, back-references,
header, and the observation after process_line_queue() on a replica) must equal
the observation before the call."""
import gfapy
from .. import explore, universe, observe
from ..runner import h

PROPERTY = "C08"
HASHSEED_SLICE = True
T = "\t".join


def full_obs(g):
  o = observe.obs(g, ordered_text=True)
  try:
    hdr = [str(x) for x in g.headers]
  except BaseException as e:
    hdr = ["<headers-error:{}>".format(type(e).__name__)]
  return (o["version"], o["text"], o["lines"], o["names"], hdr)


def diff_obs(a, b):
  names = ["version", "text", "lines", "names", "header"]
  out = []
  for n, x, y in zip(names, a, b):
    if x != y:
      if isinstance(x, list):
        dx = [e for e in x if e not in y][:3]
        dy = [e for e in y if e not in x][:3]
        out.append("{}: before-only {} after-only {}".format(n, dx, dy))
      else:
        out.append("{}: {!r} -> {!r}".format(n, x, y))
  return "; ".join(out)[:600]


class S(explore.Spec):
  failing = ()

  def extra_ops(self, g, env, hist):
    texts = set(observe.safe_str(l) for l in g.lines)
    ops = list(self.failing)
    # illegal edits of connected lines
    for l in g.lines:
      t = observe.safe_str(l)
      rt = observe.rt_of(l)
      if observe.is_virtual(l):
        continue
      if rt in ("L", "C"):
        ops.append(("setfield", t, "from_segment", "C"))
        ops.append(("setfield", t, "to_orient", "-"))
      elif rt == "E":
        ops.append(("setfield", t, "beg1", 1))
        ops.append(("setfield", t, "sid1", "c+"))
      elif rt == "G":
        ops.append(("setfield", t, "sid2", "c-"))
      elif rt == "P":
        ops.append(("setfield", t, "segment_names", "C+"))
      elif rt in ("O", "U"):
        ops.append(("setfield", t, "items", "c+" if rt == "O" else "c"))
      elif rt == "F":
        ops.append(("setfield", t, "sid", "b"))
    # re-adding every line that is present (duplicates / equal links)
    for u in self.universe:
      if u in texts:
        ops.append(("add", u))
    # rename onto every identifier in use
    names = [observe.line_name(l) for l in g.lines
             if observe.line_name(l) is not None and observe.rt_of(l) != "H"]
    for a in names:
      for b in names:
        if a != b:
          ops.append(("rename", a, b))
    return ops

  def key(self, g, env):
    # the line queue and the version guess are hidden state with different
    # futures; they only refine the de-duplication key (never the oracle),
    # so reading them directly is harmless: an over-fine key only costs time
    q = [observe.safe_str(x) for x in getattr(g, "_line_queue", [])]
    return h([observe.obs(g), q, getattr(g, "_version_guess", None)])

  def ops(self, g, env, hist):
    return explore.enabled_ops(g, self)

  def judge(self, g, env, hist, op, err):
    normal = op in self._normal_ops(hist)
    if err is None:
      if normal:
        return []
      return [("skip", "failure-alphabet call succeeded")]
    if not isinstance(err, gfapy.Error):
      # foreign exceptions are C07's; the state afterwards is still judged
      pass
    g0, env0, errs0 = explore.replay(self, hist)
    before = full_obs(g0)
    after = full_obs(g)
    probs = []
    if before != after:
      probs.append(("state-changed-by-failed-call", "{} raised {}; {}".format(
          explore.fmt_op(op), type(err).__name__, diff_obs(before, after))))
      return probs
    # one-step look-ahead: the line queue / version guess
    try:
      g0.process_line_queue()
      g.process_line_queue()
      la0, la1 = full_obs(g0), full_obs(g)
    except BaseException as e:
      return [("skip", "look-ahead raised " + type(e).__name__)]
    if la0 != la1:
      probs.append(("hidden-state-changed-by-failed-call",
                    "{} raised {}; after process_line_queue(): {}".format(
                        explore.fmt_op(op), type(err).__name__,
                        diff_obs(la0, la1))))
    return probs or [("skip", "failed call left the state unchanged")]

  def _normal_ops(self, hist):
    g, env, errs = explore.replay(self, hist)
    return set(explore.enabled_ops(g, self))


F1 = [
    # identifier clashes, all type pairs over the ids of the universe
] + [("add", T(["S", i, "*"])) for i in ("A", "p", "x")] + \
    [("add", T(["P", i, "C+", "*"])) for i in ("A", "p", "x")] + \
    [("add", T(["L", "C", "+", "B", "-", "*", "ID:Z:" + i])) for i in ("A", "p", "x")] + \
    [("add", T(["C", "C", "+", "B", "-", "0", "*", "ID:Z:" + i])) for i in ("A", "p", "x")] + [
    # other version
    ("add", T(["S", "D", "4", "*"])), ("add", T(["E", "*", "A+", "B+", "0", "1", "0", "1", "*"])),
    ("add", T(["G", "*", "A+", "B+", "1", "*"])), ("add", T(["U", "u", "A"])),
    ("add", T(["X", "custom"])),
    # malformed
    ("add", "S\tD"), ("add", "L\tA\t+\tB"), ("add", T(["S", "D", "*", "xx:i:x"])),
    ("add", T(["P", "z", "A+,B+", "1M,2M,3M,4M"])), ("add", T(["L", "A", "x", "B", "+", "*"])),
    ("add", T(["S", "D", "*", "LN:Z:1"])), ("add", T(["S", "D", "AC", "LN:i:5"])),
    # header
    ("add", T(["H", "ab:i:1", "TS:i:2"])), ("add", T(["H", "ab:i:1", "VN:Z:2.0"])),
    ("add", T(["H", "VN:Z:3.0"])), ("add", T(["H", "ab:i:1", "ab:i:2"])),
    ("add", T(["H", "yy:i:7", "xx:Z:a"])), ("add", T(["H", "yy:i:7", "xx:f:1.5"])),
    ("rm", "nope"), ("rename", "nope", "Z"),
    ("rename", "A", "a b"), ("rename", "A", ""), ("rename", "p", "x,y"),
    # a mention of an identifier that is in use by a line of another type
    ("add", T(["L", "B", "+", "p", "+", "*"])), ("add", T(["L", "C", "-", "x", "+", "*"])),
    ("add", T(["C", "p", "+", "B", "+", "0", "*"])), ("add", T(["P", "z", "B+,p+", "*"])),
    ("add", T(["P", "z", "x+", "*"])),
]
F2 = [("add", T(["S", i, "4", "*"])) for i in ("a", "e1", "g1", "o1", "u1")] + \
     [("add", T(["E", i, "c+", "b-", "0", "1", "0", "1", "*"])) for i in ("a", "e1", "g1", "o1", "u1")] + \
     [("add", T(["G", i, "c+", "b-", "1", "*"])) for i in ("a", "e1", "g1", "o1", "u1")] + \
     [("add", T(["O", i, "c+"])) for i in ("a", "e1", "g1", "u1")] + \
     [("add", T(["U", i, "c"])) for i in ("a", "e1", "g1", "o1")] + [
    ("add", T(["U", "u3", "b", "xx:i:2"])), ("add", T(["O", "o4", "b+", "xx:i:2"])),
    ("add", T(["S", "D", "*"])), ("add", T(["L", "a", "+", "b", "+", "*"])),
    ("add", T(["P", "p", "a+,b+", "*"])), ("add", T(["C", "a", "+", "b", "+", "0", "*"])),
    ("add", "S\td\t4"), ("add", "E\t*\ta+"), ("add", T(["S", "d", "x", "*"])),
    ("add", T(["E", "*", "a+", "b+", "3", "1", "0", "1", "*"])),
    ("add", T(["E", "ee", "a+", "b+", "0", "1$", "0", "1", "*", "TS:Z:x"])),
    ("add", T(["G", "*", "a+", "b", "1", "*"])), ("add", T(["O", "oo", "a"])),
    ("add", T(["F", "a", "x", "0", "1", "0", "1", "*"])),
    ("add", T(["H", "ab:i:1", "TS:i:2"])), ("add", T(["H", "ab:i:1", "VN:Z:1.0"])),
    ("add", T(["H", "VN:Z:3.0"])),
    ("add", T(["H", "yy:i:7", "xx:Z:a"])), ("add", T(["H", "yy:i:7", "xx:f:1.5"])),
    ("add", T(["U", "u3", "b", "xx:i:0"])), ("add", T(["O", "o4", "b+", "xx:i:0"])),
    ("add", T(["U", "u3", "b", "yy:i:1", "xx:i:2"])),
    ("rm", "nope"), ("rename", "nope", "z"),
    ("rename", "a", "a b"), ("rename", "a", ""), ("rename", "e1", "*x y"),
    # a mention of an identifier that is in use by a line of another type
    ("add", T(["G", "*", "c+", "e1+", "1", "*"])), ("add", T(["G", "*", "g1+", "c-", "1", "*"])),
    ("add", T(["E", "*", "c+", "e1-", "0", "1", "0", "1", "*"])),
    ("add", T(["E", "*", "o1+", "c-", "0", "1", "0", "1", "*"])),
    # ... whose FIRST side is an identifier so far only mentioned by a group
    ("add", T(["E", "*", "a+", "o1-", "0", "1", "0", "1", "*"])),
    ("add", T(["G", "*", "b-", "o1+", "1", "*"])),
    ("add", T(["F", "e1", "q+", "0", "1", "0", "1", "*"])), ("add", T(["F", "u1", "q+", "0", "1", "0", "1", "*"])),
]
F1 = F1 + [("add", T(["P", "z", "A+,B+,p+", "*"])), ("add", T(["P", "z", "B-,A-,r+", "*"])),
           ("add", T(["P", "z", "A+,C+,x-", "*"])), ("add", T(["L", "C", "+", "p", "+", "*"])),
           ("add", T(["C", "B", "+", "r", "-", "0", "*"]))]
# the header API: a value of another datatype / an invalid value for a tag
# that is already defined, a second value for a single-definition tag
HADD = [("hadd", "xx", "a", "Z"), ("hadd", "xx", 1.5, "f"), ("hadd", "xx", "a", None),
        ("hadd", "TS", 7, "i"), ("hadd", "TS", "x", "Z"), ("hadd", "xx", "[1]", "J")]
# an H line that fixes the version AND cannot be merged (its other tag
# contradicts the header): the version must not have been fixed
F1 = F1 + [("add", T(["H", "VN:Z:1.0", "TS:i:2"])), ("add", T(["H", "VN:Z:1.0", "xx:Z:one"])),
           ("add", T(["H", "TS:i:2", "VN:Z:1.0"]))]
F2 = F2 + [("add", T(["H", "VN:Z:2.0", "TS:i:2"])), ("add", T(["H", "VN:Z:2.0", "xx:Z:one"])),
           ("add", T(["H", "TS:i:2", "VN:Z:2.0"]))]
F1 = F1 + HADD
FRAG = T(["F", "a", "x+", "0", "2", "0", "2", "*"])
F2 = F2 + HADD + [
    # a fragment is filed under its external sequence: malformed values
    ("setfield", FRAG, "external", "read2"), ("setfield", FRAG, "external", "re ad2+"),
    ("setfield", FRAG, "external", ""), ("setfield", FRAG, "sid", "a b"),
    # a refused line that carries an identifier a group refers to in advance
    ("add", T(["E", "u1", "c+", "o1-", "0", "1", "0", "1", "*"])),
    ("add", T(["G", "u1", "c+", "o1-", "1", "*"])),
    ("add", T(["E", "e1", "c+", "u2-", "0", "1", "0", "1", "*"])),
]
U1 = universe.G1_CORE + [T(["H", "TS:i:1"]), T(["H", "xx:i:1"]),
                         T(["L", "B", "+", "C", "+", "*", "ID:Z:x"])]
U2 = universe.G2_CORE + [T(["H", "TS:i:1"]), T(["H", "xx:i:1"]), T(["U", "u3", "a", "xx:i:1"]),
                              T(["O", "o4", "a+", "xx:i:1"]), T(["U", "u1", "b"])]

S(name="c08.g1", universe=U1, version="gfa1", failing=F1, rename_targets=())
S(name="c08.g2", universe=U2, version="gfa2", failing=F2, rename_targets=())
S(name="c08.g1open", universe=U1, version=None, failing=F1 + F2[:8], rename_targets=())
S(name="c08.g2open", universe=U2, version=None, failing=F2 + F1[:8], rename_targets=())
S(name="c08.g1v3", universe=U1, version="gfa1", vlevel=3, failing=F1, rename_targets=())
S(name="c08.g1v2", universe=U1, version="gfa1", vlevel=2, failing=F1, rename_targets=())
S(name="c08.g2v2", universe=U2, version="gfa2", vlevel=2, failing=F2, rename_targets=())
S(name="c08.g2v3", universe=U2, version="gfa2", vlevel=3, failing=F2, rename_targets=())
S(name="c08.g1v0", universe=U1, version="gfa1", vlevel=0, failing=F1, rename_targets=())
S(name="c08.g2v0", universe=U2, version="gfa2", vlevel=0, failing=F2, rename_targets=())


def run(ctx):
  ctx.rule = ("in every state reached by <= d successful operations, every "
              "call of the failure alphabet (static list + state-dependent "
              "duplicates, illegal edits of connected lines, renames onto ids "
              "in use); a transition = one call; non-trivial = state with a "
              "reference")
  ctx.alphabet = {"G1": U1, "G2": U2, "failing_gfa1": [explore.fmt_op(o) for o in F1],
                  "failing_gfa2": [explore.fmt_op(o) for o in F2]}
  ctx.assumptions = [
      "states: histories of successful add/rm/disconnect operations up to "
      "the depth in coverage.bfs; the failure alphabet is the stated list",
      "hidden state (line queue, version guess) is observed through a "
      "one-step look-ahead: process_line_queue() on a replica"]
  if ctx.quick:
    plan = [("c08.g1", 3), ("c08.g2", 3), ("c08.g1open", 2), ("c08.g2open", 2),
            ("c08.g1v2", 2), ("c08.g2v2", 2), ("c08.g1v3", 2), ("c08.g2v3", 2),
            ("c08.g1v0", 2), ("c08.g2v0", 2)]
  else:
    plan = [("c08.g1", 4), ("c08.g2", 4), ("c08.g1open", 4), ("c08.g2open", 4),
            ("c08.g1v2", 3), ("c08.g2v2", 3), ("c08.g1v3", 3), ("c08.g2v3", 3),
            ("c08.g1v0", 3), ("c08.g2v0", 3)]
  if ctx.slice:
    plan = [(n, max(2, d - 2)) for n, d in plan[:2]]
  done = {}
  for name, d in plan:
    done[name] = explore.bfs(ctx, explore.SPECS[name], d)[0]
  # the same search from NON-initial states: the whole universe loaded, then
  # every refused operation of every history of depth <= d2
  if not ctx.slice:
    d2 = 2 if ctx.quick else 3
    for name in ("c08.g1", "c08.g2", "c08.g1v3", "c08.g2v3", "c08.g1v0",
                 "c08.g2v0"):
      sp = explore.SPECS[name]
      if name[-2] == "v":
        d2 = 1 if ctx.quick else 2
      done[name + "@full"] = explore.bfs(
          ctx, sp, d2, label=name + "@full",
          prefix=universe.full_prefix(sp.version))[0]
  ctx.bound_completed = done


def replay(w, ctx):
  return explore.replay_witness(w)
