"""C20 -- tag values set through the API are written and read back unchanged.

Engine I: every value of a bounded menu (boundary integers, floats incl.
non-finite, all strings of length <= 2 over a critical alphabet, JSON values of
<= 3 nodes, integer arrays of length <= 2 over the boundary integers, float /
mixed / empty arrays, byte arrays) x declared datatype (none or each of
A,i,f,Z,J,H,B) x tag name x host record x vlevel 0..3."""
import itertools, json, math
import gfapy
from ..ref import grammar
from ..runner import guard, HarnessTimeout, new_result, mkviolation, h

PROPERTY = "C20"

BND = sorted(set(x + d for x in (0, 2**7, 2**8, 2**15, 2**16, 2**31, 2**32,
                                 -2**7, -2**8, -2**15, -2**16, -2**31, -2**32)
                 for d in (-1, 0, 1)))
FLOATS = [0.0, -0.0, 1.5, -2.25, 1e-300, 1e308, 1e22, 123456789.125,
          float("inf"), -float("inf"), float("nan")]
STR_ALPHA = ["a", " ", "~", "\t", "\n", "\x7f", "é", ":"]
HOSTS = [("gfa1", "S\tA\t*"), ("gfa2", "E\t*\ta+\tb+\t0\t1\t0\t1\t*"),
         ("gfa1", "H\txz:Z:q")]
NAMES = ["xx", "X1"]
DTS = [None, "A", "i", "f", "Z", "J", "H", "B"]


def json_values():
  atoms = [1, -2, 1.5, "a", None, 0, "é", "a\tb"]
  vals = [[], {}]
  for a in atoms:
    vals.append([a])
    vals.append({"k": a})
  for a, b in itertools.product(atoms[:5], repeat=2):
    vals.append([a, b])
  for a in atoms[:5]:
    vals.append([[a]])
    vals.append({"k": [a]})
    vals.append([{"k": a}])
    vals.append({"k": {"j": a}})
  vals.append({"k": float("nan")})
  vals.append([float("inf")])
  return vals


def value_menu():
  """list of (kind, python-constructor-repr) -- values are rebuilt in the
  worker from a JSON-able description"""
  out = []
  for i in BND:
    out.append(("int", i))
  for f in FLOATS:
    out.append(("float", repr(f)))
  for n in range(0, 3):
    for t in itertools.product(STR_ALPHA, repeat=n):
      out.append(("str", "".join(t)))
  for s in ["12", "-5", "1.5", "1e3", "[1]", '{"a":1}', "1AF0", "c,1,2",
            "f,1.5", "x", "1_0", " 5", "inf", "1af0", "C,256", "c,128",
            "f,.", "f,-", "f,,1", "f,1.", "f,+.", "f,e5", "c,", "c,-", "c,+", "c,1,",
            ".", "-", "+", "e5", "1.", "-.", "[", "{", "]", '{"a":}', "[1,]",
            "1A,", "0x1A", "1$", "$", "++"]:
    out.append(("str", s))
  for v in json_values():
    out.append(("json", json.dumps(v)))
  for a in BND:
    out.append(("intlist", [a]))
  for a, b in itertools.product(BND, repeat=2):
    out.append(("intlist", [a, b]))
  for fl in ([1.5], [1.5, 2.0], [0.0, -0.0], [1.5, float("inf")],
             [float("nan")], [1e308, 1e-300]):
    out.append(("floatlist", [repr(x) for x in fl]))
  out.append(("mixedlist", "[1, 1.5]"))
  out.append(("mixedlist", "[1.5, 1]"))
  out.append(("mixedlist", "[1, 'a']"))
  out.append(("emptylist", "[]"))
  for a in BND[:]:
    out.append(("numarray", [a]))
  for a, b in ((0, 255), (0, 256), (-1, 127), (-128, 127), (-129, 0),
               (0, 65535), (0, 65536), (-32768, 32767), (-32769, 0),
               (0, 2**32 - 1), (0, 2**32), (-2**31, 2**31 - 1), (-2**31 - 1, 0),
               (-1, 2**31)):
    out.append(("numarray", [a, b]))
  for b in ([], [0], [255], [0, 255, 16], [256], [-1], [1, 2, 3]):
    out.append(("bytes", b))
  for s in ("", "1A", "1AF", "1af0", "GG"):
    out.append(("bytestr", s))
  return out


def mkvalue(kind, d):
  if kind == "int":
    return d
  if kind == "float":
    return float(d)
  if kind == "str":
    return d
  if kind == "json":
    return json.loads(d)
  if kind == "intlist":
    return list(d)
  if kind == "floatlist":
    return [float(x) for x in d]
  if kind in ("mixedlist", "emptylist"):
    return eval(d)
  if kind == "numarray":
    return gfapy.NumericArray(list(d))
  if kind == "bytes":
    return gfapy.ByteArray(list(d))
  if kind == "bytestr":
    return gfapy.ByteArray(d)
  raise KeyError(kind)


def isfinite(x):
  return isinstance(x, (int, float)) and not isinstance(x, bool) and \
      (isinstance(x, int) or math.isfinite(x))


def int_subtype(vals):
  lo, hi = min(vals), max(vals)
  if lo < 0:
    for st in "csi":
      a, b = grammar.B_RANGE[st]
      if a <= lo and hi <= b:
        return st
  else:
    for st in "CSI":
      a, b = grammar.B_RANGE[st]
      if hi <= b:
        return st
  return None


def default_dt(kind, v):
  """the documented default datatype(s) for a new tag (set of acceptable)"""
  if kind == "int":
    return {"i"}
  if kind == "float":
    return {"f"}
  if kind == "str":
    return {"Z"}
  if kind == "json":
    if isinstance(v, list) and v and (all(type(x) is int for x in v) or
                                      all(type(x) is float for x in v)):
      return {"B"}            # "J/B for arrays": numeric arrays are B
    if isinstance(v, list) and not v:
      return {"J", "B"}
    return {"J"}
  if kind in ("intlist", "floatlist"):
    return {"B"}
  if kind == "mixedlist":
    return {"J"}
  if kind == "emptylist":
    return {"J", "B"}
  if kind == "numarray":
    return {"B"}
  if kind in ("bytes", "bytestr"):
    return {"H"}


def json_ok(v):
  try:
    s = json.dumps(v, allow_nan=False)
  except (ValueError, TypeError):
    return False
  return isinstance(v, (list, dict)) and grammar.fm(r"[ !-~]+", s)


def representable(kind, v, dt):
  """Can datatype dt represent python value v?  None = left open."""
  if isinstance(v, str) and kind == "str":
    if dt in ("Z", "A"):
      return grammar.tag_value_ok(dt, v)
    # a str assigned to a non-string datatype is taken as the encoded text
    return grammar.tag_value_ok(dt, v)
  if dt == "i":
    return type(v) is int
  if dt == "f":
    if type(v) is int:
      return None
    return type(v) is float and math.isfinite(v)
  if dt in ("Z", "A"):
    return False if not isinstance(v, str) else grammar.tag_value_ok(dt, v)
  if dt == "J":
    if isinstance(v, (gfapy.NumericArray, gfapy.ByteArray)):
      return None
    return json_ok(v) if isinstance(v, (list, dict)) else False
  if dt == "H":
    if isinstance(v, gfapy.ByteArray):
      return len(v) > 0
    if isinstance(v, list):
      return None
    return False
  if dt == "B":
    if isinstance(v, gfapy.ByteArray):
      return None
    if isinstance(v, list):
      if not v:
        return False
      if all(type(x) is int for x in v):
        return int_subtype(v) is not None
      if all(type(x) is float for x in v):
        return all(math.isfinite(x) for x in v)
      return False
    return False
  return None


def same_value(dt, v, back):
  if isinstance(v, str) and dt not in ("Z", "A"):
    # a string under a non-string datatype is the encoded text
    return repr(grammar.decode_tag(dt, v)) == repr(
        grammar.decode_tag(dt, gfapy.Field._to_gfa_field(back, datatype=dt)))
  if dt == "i":
    return type(back) is int and back == v
  if dt == "f":
    return isinstance(back, float) and (back == float(v))
  if dt in ("Z", "A"):
    return back == v
  if dt == "J":
    return json.dumps(back, sort_keys=True) == json.dumps(v, sort_keys=True)
  if dt == "H":
    return bytes(back) == bytes(v)
  if dt == "B":
    return list(back) == list(v) and \
        all(type(a) is type(b) for a, b in zip(back, v))
  return False


def file_roundtrip(line, name, version, vlevel):
  """(value, datatype) of tag `name` after Gfa.to_file / Gfa.from_file of a
  Gfa holding a copy of the line; a string if that fails; None if the line
  cannot stand alone in a Gfa."""
  import tempfile, os
  try:
    g = gfapy.Gfa(version=version, vlevel=vlevel)
    text = str(line)
    if text.startswith("E"):
      g.add_line("S\ta\t1\t*")
      g.add_line("S\tb\t1\t*")
    c = gfapy.Line(text, version=version, vlevel=max(vlevel, 1))
    g.add_line(c)
  except gfapy.Error:
    return None
  fd, path = tempfile.mkstemp(prefix="gfamc_c20_", suffix=".gfa", dir="/tmp")
  os.close(fd)
  try:
    try:
      g.to_file(path)
      g2 = gfapy.Gfa.from_file(path, version=version, vlevel=max(vlevel, 1))
    except gfapy.Error as e:
      return "{}: {}".format(type(e).__name__, str(e).split("\n")[0][:80])
    for l in g2.lines:
      if name in l.tagnames and str(l).split("\t")[0] == text.split("\t")[0]:
        return (l.get(name), l.get_datatype(name))
    return "the tag is not in the file that was written"
  finally:
    try:
      os.unlink(path)
    except OSError:
      pass


def one_case(kind, d, dt, name, version, host, vlevel):
  """returns (outcome, [(clause, detail)])"""
  probs = []
  v = mkvalue(kind, d)
  line = gfapy.Line(host, vlevel=vlevel, version=version)
  if dt is not None:
    line.set_datatype(name, dt)
  set_err = None
  try:
    line.set(name, v)
  except gfapy.Error as e:
    set_err = e
  if dt is None:
    allowed = default_dt(kind, v)
    if set_err is None:
      got = line.get_datatype(name)
      if got not in allowed:
        probs.append(("wrong-default-datatype",
                      "{} for {!r} (documented: {})".format(
                          got, v, "/".join(sorted(allowed)))))
        return "wrong-default", probs
      edt = got
    else:
      edt = sorted(allowed)[0]
  else:
    edt = dt
  rep = representable(kind, v, edt)
  if rep is None:
    return "open", probs
  if set_err is not None:
    if rep:
      probs.append(("valid-assignment-rejected", "{}: set raised {}".format(
          edt, type(set_err).__name__)))
      return "rejected-valid", probs
    if vlevel < 3:
      # only level 3 validates at assignment; an earlier refusal of an
      # unrepresentable value is still a correct report
      pass
    return "refused-at-set", probs
  # validation
  val_err = None
  try:
    line.validate()
  except gfapy.Error as e:
    val_err = e
  if rep and val_err is not None:
    probs.append(("valid-value-fails-validation", "{}: {}".format(
        edt, type(val_err).__name__)))
    return "rejected-valid", probs
  if not rep and val_err is None:
    probs.append(("unrepresentable-passes-validation",
                  "{} cannot represent {!r}".format(edt, v)))
  # writing
  wr_err = None
  try:
    tag = line.field_to_s(name, tag=True)
  except gfapy.Error as e:
    wr_err = e
    tag = None
  text = str(line)
  flagged = "INVALID" in text
  if rep:
    if wr_err is not None or flagged:
      probs.append(("valid-value-not-written", "{}: {}".format(
          edt, type(wr_err).__name__ if wr_err else "flagged invalid")))
      return "rejected-valid", probs
    t = grammar.split_tag(tag)
    if t is None or t[0] != name or t[1] != edt or \
        not grammar.tag_value_ok(edt, t[2]):
      probs.append(("malformed-tag-written", tag))
      return "malformed", probs
    if edt == "B" and isinstance(v, list) and all(type(x) is int for x in v):
      want = int_subtype(v)
      if t[2][0] != want:
        probs.append(("not-smallest-subtype", "{} written, {} expected".format(
            t[2][0], want)))
    back_line = gfapy.Line(text, vlevel=max(vlevel, 1), version=version)
    back = back_line.get(name)
    bdt = back_line.get_datatype(name)
    if bdt != edt:
      probs.append(("datatype-changed", "{} -> {}".format(edt, bdt)))
    elif not same_value(edt, v, back):
      probs.append(("value-changed", "{!r} -> {!r} ({})".format(v, back, tag)))
    if kind == "str" and vlevel in (0, 1) and not host.startswith("H") \
        and not probs:
      # the same through a file: Gfa.to_file / Gfa.from_file (the tag is the
      # last field of its line)
      fr = file_roundtrip(line, name, version, vlevel)
      if fr is not None:
        if isinstance(fr, str):
          probs.append(("file-roundtrip-fails", fr))
        elif fr[1] != edt:
          probs.append(("datatype-changed", "through a file: {} -> {}".format(
              edt, fr[1])))
        elif not same_value(edt, v, fr[0]):
          probs.append(("value-changed", "through a file: {!r} -> {!r}".format(
              v, fr[0])))
    return "roundtrip", probs
  else:
    if vlevel >= 2 and wr_err is None and not flagged:
      t = grammar.split_tag(tag) if tag else None
      if t is None or not grammar.tag_value_ok(t[1], t[2]):
        probs.append(("malformed-text-emitted", "{!r} at vlevel {}".format(
            tag, vlevel)))
      else:
        probs.append(("unrepresentable-written-silently",
                      "{!r} written as {!r}".format(v, tag)))
    return "unrepresentable", probs


HDR_VALUES = {
    "A": ["x", "~"], "i": [5, -3, 0], "f": [1.5, -2.0, 1], "Z": ["a b", "q"],
    "J": [[1, 2, 3], {"a": 1}, [1.5]], "H": ["1AF0"], "B": [[1, 2], [-1, 128], [1.5]],
}


def header_cases():
  out = []
  for dt, vals in HDR_VALUES.items():
    for n in (2, 3):
      for combo in itertools.product(range(len(vals)), repeat=n):
        out.append((dt, list(combo)))
  return out


def header_case(dt, idxs, vlevel, via):
  """A tag defined on several H lines (via h.add or via merging lines): every
  written tag must carry the declared datatype, match its grammar and read
  back equal, in the header line itself and in the split headers."""
  probs = []
  vals = [HDR_VALUES[dt][i] if dt != "H" else gfapy.ByteArray(HDR_VALUES[dt][i])
          for i in idxs]
  if via == "add":
    hd = gfapy.Line("H", vlevel=vlevel)
    for v in vals:
      hd.add("xx", v, dt)
    texts = [str(hd)]
    tags = str(hd).split("\t")[1:]
  elif via == "add-nodt":
    # the first value defines the tag with its declared datatype (as a parsed
    # H line does); further values are added without naming the datatype
    # again: the tag keeps the declared datatype
    hd = gfapy.Line("H", vlevel=vlevel)
    hd.set_datatype("xx", dt)
    hd.set("xx", vals[0])
    for v in vals[1:]:
      hd.add("xx", v)
    texts = [str(hd)]
    tags = str(hd).split("\t")[1:]
  else:
    g = gfapy.Gfa(vlevel=vlevel)
    for v in vals:
      one = gfapy.Line("H", vlevel=vlevel)
      one.set_datatype("xx", dt)
      one.set("xx", v)
      g.add_line(str(one))
    tags = g.header.field_to_s("xx", tag=True).split("\t")
    texts = [str(x) for x in g.headers]
    tags = tags + [t for x in texts for t in x.split("\t")[1:]]
  if len(tags) < len(vals):
    probs.append(("header-values-lost", "{} values, tags {}".format(len(vals), tags)))
  for t in tags:
    sp = grammar.split_tag(t)
    if sp is None or sp[0] != "xx" or sp[1] != dt or not grammar.tag_value_ok(dt, sp[2]):
      probs.append(("header-tag-malformed-or-retyped", "{} (declared {})".format(t, dt)))
  return probs


def work_headers(chunk):
  res = new_result()
  found = {}
  for dt, idxs in chunk:
    for vlevel in (0, 1, 2, 3):
      for via in ("add", "add-nodt", "merge"):
        res["evaluations"] += 1
        res["transitions"] += 1
        res["traces"] += 1
        try:
          with guard(3.0):
            probs = header_case(dt, idxs, vlevel, via)
        except HarnessTimeout:
          probs = [("timeout", "")]
        except gfapy.Error as e:
          probs = [("valid-header-values-rejected", type(e).__name__)]
        except Exception as e:
          probs = [("foreign-exception", type(e).__name__)]
        res["outcomes"].add("hdr:{}:{}".format(dt, "ok" if not probs else probs[0][0]))
        res["states"].add(h(("hdr", dt, idxs, via)))
        res["nontrivial"].add(h(("hdr", dt, idxs)))
        for cl, det in probs:
          k = (cl, "header", dt)
          w = {"kind": "header", "value": idxs, "dt": dt, "name": "xx",
               "version": None, "host": via, "vlevel": vlevel, "clause": cl}
          size = (len(idxs), repr(idxs), vlevel, via)
          old = found.get(k)
          if old is None or size < old[0]:
            found[k] = (size, w, det)
  res["found"] = found
  return res


def work(chunk):
  res = new_result()
  found = {}
  for kind, d in chunk:
    for dt in DTS:
      for (version, host), name in itertools.product(HOSTS, NAMES):
        for vlevel in (0, 1, 2, 3):
          res["evaluations"] += 1
          res["transitions"] += 1
          res["traces"] += 1
          try:
            with guard(3.0):
              oc, probs = one_case(kind, d, dt, name, version, host, vlevel)
          except HarnessTimeout:
            oc, probs = "timeout", [("timeout", "")]
          except gfapy.Error as e:
            oc, probs = "harness", []
          except Exception as e:
            oc = "foreign"
            probs = [("foreign-exception", type(e).__name__)]
          res["outcomes"].add("{}:{}".format(dt, oc))
          res["states"].add(h((kind, d, dt, oc)))
          if oc == "roundtrip":
            res["nontrivial"].add(h((kind, d, dt)))
          for cl, det in probs:
            k = (cl, kind, str(dt))
            w = {"kind": kind, "value": d, "dt": dt, "name": name,
                 "version": version, "host": host, "vlevel": vlevel,
                 "clause": cl}
            size = (len(repr(d)), repr(d), vlevel, name, host)
            old = found.get(k)
            if old is None or size < old[0]:
              found[k] = (size, w, det)
  res["found"] = found
  return res


# ---------------------------------------------------------------------------
# histories on one tag name: a deleted tag is gone, datatype included -- a tag
# set afterwards under the same name is a NEW tag and must come out exactly as
# on a line that never had the old one (differential oracle, no expected text)

HIST_VALUES = [("int", 12), ("float", 1.5), ("str", "hello world"),
               ("json", {"a": [1, 2]}), ("intlist", [1, 2, 300]),
               ("floatlist", [1.5, 2.0]), ("bytes", "1AF0"), ("char", "x")]
HIST_FIRST_DT = [None, "A", "i", "f", "Z", "J", "H", "B"]
# (assigning None also removes the tag, but keeps a datatype declared with
# set_datatype -- a declaration may precede the value, so whether it outlives
# the value is left open: only delete() is judged)
HIST_PROGRAMS = ("set,delete,set", "parsed,delete,set",
                 "set,delete,set,delete,set",
                 # a clone and its original are two lines: the first value goes
                 # to the clone, the second to the original (and vice versa)
                 "clone:copy-first", "clone:original-first")


def _hv(kind, d):
  return gfapy.ByteArray(d) if kind == "bytes" else d


def hist_cases():
  out = []
  for prog in HIST_PROGRAMS:
    for i, (k1, d1) in enumerate(HIST_VALUES):
      for dt1 in HIST_FIRST_DT:
        for j, (k2, d2) in enumerate(HIST_VALUES):
          out.append((prog, i, dt1, j))
  return out


def _tag_state(line, name):
  try:
    t = line.field_to_s(name, tag=True)
  except gfapy.Error as e:
    t = "<{}>".format(type(e).__name__)
  try:
    dt = line.get_datatype(name)
  except gfapy.Error as e:
    dt = "<{}>".format(type(e).__name__)
  return (t, dt, str(line))


def hist_case(prog, i, dt1, j, version, host, vlevel):
  """None (out of scope: the first assignment is refused) or list of
  (clause, detail)."""
  name = "xx"
  k1, d1 = HIST_VALUES[i]
  k2, d2 = HIST_VALUES[j]
  fresh = gfapy.Line(host, vlevel=vlevel, version=version)
  try:
    fresh.set(name, _hv(k2, d2))
    want = _tag_state(fresh, name)
  except gfapy.Error as e:
    want = ("<{}>".format(type(e).__name__),) * 3
  if prog.startswith("clone:"):
    if dt1 is not None:
      return None
    orig = gfapy.Line(host, vlevel=vlevel, version=version)
    copy = orig.clone()
    first, second = (copy, orig) if prog == "clone:copy-first" else (orig, copy)
    try:
      first.set(name, _hv(k1, d1))
      first.field_to_s(name, tag=True)
    except gfapy.Error:
      return None
    try:
      second.set(name, _hv(k2, d2))
      got = _tag_state(second, name)
    except gfapy.Error as e:
      got = ("<{}>".format(type(e).__name__),) * 3
    if got != want:
      return [("clone-shares-tag-datatypes",
               "{}: the tag set on the second line reads {!r} (datatype {}), "
               "on a fresh line {!r} (datatype {})".format(
                   prog, got[0], got[1], want[0], want[1]))]
    return []
  steps = prog.split(",")
  if steps[0] == "parsed":
    # the old tag comes from the text of the line
    if dt1 is None:
      return None
    probe = gfapy.Line(host, vlevel=1, version=version)
    try:
      probe.set_datatype(name, dt1)
      probe.set(name, _hv(k1, d1))
      text = str(probe)
      if "INVALID" in text:
        return None
      line = gfapy.Line(text, vlevel=vlevel, version=version)
    except gfapy.Error:
      return None
    steps = steps[1:]
  else:
    line = gfapy.Line(host, vlevel=vlevel, version=version)
    try:
      if dt1 is not None:
        line.set_datatype(name, dt1)
      line.set(name, _hv(k1, d1))
      line.field_to_s(name, tag=True)
    except gfapy.Error:
      return None
    steps = steps[1:]
  try:
    nset = 0
    for st in steps:
      if st == "delete":
        line.delete(name)
      elif st == "none":
        line.set(name, None)
      elif st == "set":
        nset += 1
        last = (nset == steps.count("set"))
        line.set(name, _hv(k2, d2) if last else _hv(k1, d1))
    got = _tag_state(line, name)
  except gfapy.Error as e:
    got = ("<{}>".format(type(e).__name__),) * 3
  if got != want:
    return [("deleted-tag-leaves-trace",
             "after {} the tag reads {!r} (datatype {}), on a fresh line {!r} "
             "(datatype {})".format(prog, got[0], got[1], want[0], want[1]))]
  return []


def work_hist(chunk):
  res = new_result()
  found = {}
  for prog, i, dt1, j in chunk:
    for version, host in HOSTS:
      for vlevel in (0, 1, 2, 3):
        res["evaluations"] += 1
        res["transitions"] += len(prog.split(","))
        res["traces"] += 1
        try:
          with guard(3.0):
            probs = hist_case(prog, i, dt1, j, version, host, vlevel)
        except HarnessTimeout:
          probs = [("timeout", "")]
        except Exception as e:
          probs = [("foreign-exception", type(e).__name__)]
        if probs is None:
          res["outcomes"].add("hist:first-assignment-refused")
          continue
        res["outcomes"].add("hist:{}".format("ok" if not probs else probs[0][0]))
        res["states"].add(h(("hist", prog, i, dt1, j)))
        if i != j:
          res["nontrivial"].add(h(("hist", prog, i, dt1, j)))
        for cl, det in probs:
          k = (cl, "history", prog)
          w = {"kind": "history", "value": [prog, i, dt1, j], "dt": dt1,
               "name": "xx", "version": version, "host": host,
               "vlevel": vlevel, "clause": cl}
          size = (i + j, repr(dt1), vlevel, host)
          old = found.get(k)
          if old is None or size < old[0]:
            found[k] = (size, w, det)
  res["found"] = found
  return res


def chunks(lst, n):
  for i in range(0, len(lst), n):
    yield lst[i:i + n]


def vkey(w):
  return {"kind": w["kind"], "datatype": str(w["dt"]),
          "value": repr(w["value"]), "vlevel": str(w["vlevel"])}


def run(ctx):
  menu = value_menu()
  ctx.rule = ("every value of the menu x declared datatype (none, A,i,f,Z,J,H,B)"
              " x 2 tag names x 3 host records x vlevel 0..3; non-trivial = "
              "representable value that is written and read back")
  ctx.alphabet = {"boundary_integers": BND, "floats": [repr(f) for f in FLOATS],
                  "string_alphabet": STR_ALPHA, "hosts": HOSTS, "names": NAMES,
                  "datatypes": DTS, "values": len(menu)}
  ctx.assumptions = [
      "values limited to the stated menu; python bool and other classes are "
      "outside the claim ('for every supported Python value')",
      "where the documentation leaves the pairing open (int under f, list "
      "under H, numeric array under J) no outcome is demanded"]
  found_all = {}
  for r in ctx.pmap(work, list(chunks(menu, 8)), chunksize=1):
    f = r.pop("found")
    for k, (size, w, det) in f.items():
      old = found_all.get(k)
      if old is None or size < old[0]:
        found_all[k] = (size, w, det)
    ctx.merge(r)
  hc = header_cases()
  for r in ctx.pmap(work_headers, list(chunks(hc, 20)), chunksize=1):
    f = r.pop("found")
    for k, (size, w, det) in f.items():
      old = found_all.get(k)
      if old is None or size < old[0]:
        found_all[k] = (size, w, det)
    ctx.merge(r)
  hs = hist_cases()
  for r in ctx.pmap(work_hist, list(chunks(hs, 64)), chunksize=1):
    f = r.pop("found")
    for k, (size, w, det) in f.items():
      old = found_all.get(k)
      if old is None or size < old[0]:
        found_all[k] = (size, w, det)
    ctx.merge(r)
  ctx.alphabet["tag_histories"] = {
      "programs": list(HIST_PROGRAMS), "values": [repr(v) for _, v in HIST_VALUES],
      "first_datatype": [str(x) for x in HIST_FIRST_DT]}
  ctx.bound_completed = {"values": len(menu), "header_multi_value_cases": len(hc),
                         "tag_histories": len(hs)}
  for m in menu[:2] + menu[60:62] + menu[-3:]:
    ctx.sample({"kind": m[0], "value": m[1]})
  for k, (size, w, det) in sorted(found_all.items()):
    sa = ("import gfapy, json\nl = gfapy.Line({!r}, vlevel={}, version={!r})\n"
          "# value kind {} : {!r}\n").format(w["host"], w["vlevel"],
                                            w["version"], w["kind"], w["value"])
    ctx.violation(mkviolation(w["clause"], vkey(w), w, "", det, sa))


def replay(w, ctx):
  if w["kind"] == "history":
    prog, i, dt1, j = w["value"]
    try:
      probs = hist_case(prog, i, dt1, j, w["version"], w["host"], w["vlevel"])
    except Exception as e:
      probs = [("foreign-exception", type(e).__name__)]
    return [mkviolation(cl, vkey(w), w, "", det, "") for cl, det in probs or []]
  if w["kind"] == "header":
    try:
      probs = header_case(w["dt"], w["value"], w["vlevel"], w["host"])
    except gfapy.Error as e:
      probs = [("valid-header-values-rejected", type(e).__name__)]
    except Exception as e:
      probs = [("foreign-exception", type(e).__name__)]
    return [mkviolation(cl, vkey(w), w, "", det, "") for cl, det in probs]
  try:
    oc, probs = one_case(w["kind"], w["value"], w["dt"], w["name"],
                         w["version"], w["host"], w["vlevel"])
  except gfapy.Error:
    return []
  except Exception as e:
    probs = [("foreign-exception", type(e).__name__)]
  return [mkviolation(cl, vkey(w), w, "", det, "") for cl, det in probs]
