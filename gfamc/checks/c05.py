"""C05 -- mutating a Gfa is equivalent to editing its text (exact removal
cascade).  Engine H + the text-level reference model gfamc/ref/doc.py: after
every legal step the implementation's records, placeholders and (when no
placeholder is left) its whole observation must equal those of the model."""
import gfapy
from .. import explore, universe, observe, invariants
from ..ref import doc as refdoc

PROPERTY = "C05"
HASHSEED_SLICE = True


def model_apply(d, op):
  k = op[0]
  if k == "add":
    d.add(op[1])
  elif k == "rm":
    d.rm(op[1])
  elif k in ("rmi", "disc"):
    d.rm_record(d.find_text(op[1]))
  elif k == "rename":
    d.rename(op[1], op[2])
  elif k == "nameit":
    r = d.find_text(op[1])
    if op[2] in d.names() or op[2] in d.mentioned():
      raise refdoc.Illegal("target identifier in use or mentioned")
    if r[0] in ("L", "C"):
      d.set_tag(r, "ID:Z:" + op[2])
    else:
      r[1] = op[2]
  elif k == "settag":
    d.set_tag(d.find_text(op[1]), "{}:{}:{}".format(
        op[2], "i" if isinstance(op[3], int) else "Z", op[3]))
  elif k == "readd":
    d.add(op[1])
  elif k == "addclone":
    r = d.find(op[1])
    if r is None or r[0] != "S":
      raise refdoc.Illegal("no such segment")
    if op[2] in d.names() or op[2] in d.mentioned():
      raise refdoc.Illegal("target identifier in use or mentioned")
    c = list(r)
    c[1] = op[2]
    d.add("\t".join(c))
  elif k in ("deltag", "setnone"):
    d.del_tag(d.find_text(op[1]), op[2])
  else:
    raise refdoc.Illegal("unknown op")


def model_of(version, hist):
  d = refdoc.Doc(version)
  for op in hist:
    model_apply(d, op)
  return d


def ambiguous(d):
  """some path step is supported by more than one link record: which link the
  path is bound to is left open, so the removal cascade is not determined"""
  if d.version != "gfa1":
    return False
  links = [r for r in d.recs if r[0] == "L"]
  for r in d.recs:
    if r[0] == "P":
      for pair in d.path_pairs(r):
        if sum(1 for l in links if d.link_matches(l, pair)) > 1:
          return True
  return False


def impl_view(g, version):
  """(canonical real records, referenced placeholder names, virtual link
  keys, orphan placeholders)"""
  ls, extra = observe.all_lines(g)
  real, ph, vlinks, orphans = [], set(), set(), []
  for l in ls + extra:
    rt = observe.rt_of(l)
    if rt == "H":
      continue
    if observe.is_virtual(l):
      referenced = bool(observe.backref_members(l))
      if not referenced:
        orphans.append(observe.lkey(l))
        continue
      if rt == "L":
        f = observe.safe_str(l).replace("\tco:Z:GFAPY_virtual_line", "").split("\t")
        a = (f[1], f[2], f[3], f[4])
        b = (f[3], refdoc.inv(f[4]), f[1], refdoc.inv(f[2]))
        vlinks.add(min(a, b))
      else:
        ph.add(observe.line_name(l))
      continue
    if l in ls:
      real.append(refdoc.canon_record(observe.safe_str(l).split("\t"), version))
  return sorted(real, key=repr), ph, vlinks, sorted(orphans)


def canon_obs(g):
  """observation with virtual orphan lines removed and unordered collections
  sorted; link-dependent parts canonicalised modulo complement"""
  o = observe.obs(g, keep_backref_order=False)
  lines = []
  for text, key, virt, own, refs, br in o["lines"]:
    if virt and not br:
      continue
    f = text.split("\t")
    if f[0] == "L":
      canon = refdoc.canon_link(f)
      if tuple(f[1:6]) != canon:
        # stored in the other form: swap the targets with it
        refs = [(("to_segment" if fld == "from_segment" else "from_segment"), t, oo)
                for fld, t, oo in refs]
      text = "L\t" + "\t".join(canon) + "\t" + "\t".join(sorted(f[6:]))
      key = canon_key(key)
    refs = sorted((fld, canon_key(t), oo if fld != "links" else None)
                  for fld, t, oo in refs)
    br = sorted((c, canon_key(m)) for c, m in br)
    lines.append((text, key, virt, own, tuple(refs), tuple(br)))
  return (o["version"], tuple(sorted(lines, key=repr)), tuple(o["names"]))


def canon_key(k):
  if k.startswith("L=") or k.startswith("~L="):
    pre, t = k.split("=", 1)
    f = t.replace("\tco:Z:GFAPY_virtual_line", "").split("\t")
    return pre + "=" + "\t".join(refdoc.canon_link(f)) + "\t" + "\t".join(sorted(f[6:]))
  return k


class S(explore.Spec):
  soft_clauses = ("orphan-placeholder",)

  def pre(self, g, env, hist, op):
    pass

  def judge(self, g, env, hist, op, err):
    try:
      d = model_of(self.version, hist)
    except refdoc.Illegal:
      return [("skip", "history not legal in the model")]
    try:
      model_apply(d, op)
    except refdoc.Illegal as e:
      return [("skip", "step not legal in the model: " + str(e))]
    if ambiguous(d):
      return [("skip", "ambiguous path binding")]
    if d.degenerate():
      return [("skip", "group left without items")]
    if err is not None:
      if isinstance(err, gfapy.Error):
        return [("legal-step-refused", "{} raised {}: {}".format(
            explore.fmt_op(op), type(err).__name__,
            str(err).split("\n")[0][:80]))]
      return [("skip", "foreign exception (C07)")]
    if observe.ill_typed(g):
      return [("skip", "ill-typed reference")]
    probs = []
    real, ph, vlinks, orphans = impl_view(g, self.version)
    want = d.canon_records()
    if real != want:
      import collections
      cw, cr = collections.Counter(want), collections.Counter(real)
      probs.append(("records-differ", "missing {} extra {}".format(
          list((cw - cr).elements())[:3], list((cr - cw).elements())[:3])))
      return probs
    und = d.undefined()
    miss = d.required_links_missing()
    if ph != und:
      probs.append(("placeholders-differ", "impl {} model {}".format(
          sorted(ph), sorted(und))))
    if vlinks != miss:
      probs.append(("virtual-links-differ", "impl {} model {}".format(
          sorted(vlinks), sorted(miss))))
    if probs:
      return probs
    if orphans:
      # report only when this very step created one (the parent state is
      # rebuilt; orphans persist, so later states would repeat the report)
      g0, env0, errs0 = explore.replay(self, hist)
      before = impl_view(g0, self.version)[3]
      if len(orphans) > len(before):
        probs.append(("orphan-placeholder", "{} left behind by {}".format(
            [o for o in orphans if o not in before], explore.fmt_op(op))))
    if not und and not miss:
      try:
        g2 = gfapy.Gfa(d.text(), version=self.version, vlevel=self.vlevel)
      except gfapy.Error as e:
        return probs + [("model-text-rejected", "{}: {}".format(
            type(e).__name__, str(e).split("\n")[0][:80]))]
      a, b = canon_obs(g), canon_obs(g2)
      if a != b:
        da = [x for x in a[1] if x not in b[1]]
        db = [x for x in b[1] if x not in a[1]]
        probs.append(("differs-from-fresh-parse", "mutated: {} / fresh: {}; "
                      "names {} / {}".format(da[:2], db[:2], a[2], b[2])))
    return probs


G1 = [u for u in universe.G1 if "2M1I" not in u]   # no parallel link: see ambiguous()
S(name="c05.g1", universe=G1, version="gfa1", rename_targets=("Z",), tag_ops=False,
  unname_ops=True, readd_ops=True)
S(name="c05.g2", universe=universe.G2_SINGLE, version="gfa2", rename_targets=("z",),
  readd_ops=True)
S(name="c05.g1core", universe=universe.G1_CORE, version="gfa1",
  rename_targets=("Z",), tag_ops=True, name_unnamed=("n1",), unname_ops=True,
  clone_ops=("Y",), readd_ops=True)
S(name="c05.g2core", universe=universe.G2_CORE, version="gfa2",
  rename_targets=("z",), tag_ops=True, name_unnamed=("n1",), clone_ops=("y",),
  readd_ops=True)


def run(ctx):
  ctx.rule = ("BFS over add / rm(id) / disconnect(instance) / rename-to-fresh "
              "/ set-tag / delete-tag histories whose every step the text "
              "model calls legal; each transition = one conformance trace "
              "(model vs implementation); non-trivial = state with a reference")
  ctx.alphabet = {"G1": G1, "G2": universe.G2_SINGLE}
  ctx.assumptions = [
      "reference model gfamc/ref/doc.py (documented cascade of "
      "doc/tutorial/references.rst; rename = textual substitution)",
      "steps the model calls illegal (duplicate identifiers, multi-line "
      "groups, equal/complement links, ill-typed references) and states in "
      "which a path step is supported by several links are not judged here",
      "record order is not compared"]
  if ctx.quick:
    plan = [("c05.g1", 4), ("c05.g2", 4), ("c05.g1core", 5), ("c05.g2core", 5)]
  else:
    plan = [("c05.g1", 5), ("c05.g2", 5), ("c05.g1core", 7), ("c05.g2core", 7)]
  if ctx.slice:
    plan = [(n, max(2, d - 2)) for n, d in plan[:2]]
  done = {}
  for name, dpt in plan:
    done[name] = explore.bfs(ctx, explore.SPECS[name], dpt)[0]
  # the same search from NON-initial states: the whole universe loaded
  if not ctx.slice:
    d2 = 3 if ctx.quick else 4
    for name in ("c05.g1", "c05.g2"):
      sp = explore.SPECS[name]
      done[name + "@full"] = explore.bfs(
          ctx, sp, d2, label=name + "@full",
          prefix=universe.full_prefix(sp.version))[0]
    # ... and the core specs (tag edits, clones, removed objects added again)
    # from their own loaded universe
    for name in ("c05.g1core", "c05.g2core"):
      sp = explore.SPECS[name]
      done[name + "@full"] = explore.bfs(
          ctx, sp, d2, label=name + "@full",
          prefix=[("add", l) for l in sp.universe])[0]
  ctx.traces = ctx.transitions
  ctx.bound_completed = done


def replay(w, ctx):
  return explore.replay_witness(w)
