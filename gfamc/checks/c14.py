"""C14 -- linear-path detection and merging.

Engine I: complete families of small GFA1 graphs (gfamc.graphenum: all end
pairs incl. hairpins, self-links, parallel links; both record forms; overlaps
*, 1M, 2M; sequences / `*`+LN / mixed; decorated with header, comment,
containment, path) and their GFA2 twins.

Oracle (gfamc.ref.graph, text level, never imports gfapy):
  chains          linear_paths() = the reference's maximal chains, as a set
                  modulo reversal / rotation; every returned path is a legal
                  walk over chain edges
  chain-of        linear_path(s) = the chain of s (length <= 1 if s is in none)
  merge           gfapy's paths are taken ONLY as the choice of direction /
                  rotation; the reference predicts spelled sequence, length,
                  outward links with orientations, survival of untouched
                  lines, components = contraction; compared on the written
                  text after merge_linear_paths()
  closure         gfamc.invariants.check_closed_symmetric on the merged Gfa
  idempotent      a second merge_linear_paths() changes nothing
  merge-raises    merging a graph of the family must not raise; if it does,
                  the Gfa must be as it was (failed-merge-modifies)
Not demanded: name of the merged segment, tags other than LN, presence of LN,
where a cycle is opened, fate of containments / paths that touch a chain."""
import os, sys, json, subprocess
import gfapy
from .. import invariants, graphenum as ge
from ..ref import graph as R
from ..runner import (guard, timed_out, h, new_result, mkviolation,
                      HarnessTimeout, REPO, VERIF)

PROPERTY = "C14"
CHUNK = 200
MAX_PER_CLAUSE = 25
_VL = [1]        # validation level of the Gfa under test (family "levels")


def flat(text):
  return " ; ".join(l.replace("\t", " ") for l in text.strip().split("\n"))


def standalone_for(text, ver):
  return "\n".join([
      "import gfapy",
      "g = gfapy.Gfa({!r}, version={!r}, vlevel={})".format(text, ver,
                                                            _VL[0]),
      "print([[str(e) for e in p] for p in g.linear_paths()])",
      "try:",
      "  g.merge_linear_paths()",
      "except Exception as e:",
      "  print(type(e).__name__, str(e).split('\\n')[0])",
      "print(g)"])


def as_path(lp):
  return [(se.name, se.end_type) for se in lp]


def exc_text(e):
  return "{}: {}".format(type(e).__name__, str(e).split("\n")[0][:100])


def judge(text, ver, counts):
  """Execute one graph.  Returns (problems, info).  problems: list of
  (clause, detail, extra-key dict)."""
  probs = []
  info = {"outcome": None, "state": None, "paths": None}
  doc = R.parse(text, ver)
  ref = R.chains(doc)
  info["nchains"] = len(ref)
  g = gfapy.Gfa(text, version=ver, vlevel=_VL[0])
  text0 = str(g)
  if sorted(text0.strip("\n").split("\n")) != \
      sorted(text.strip("\n").split("\n")):
    # (record order is free; anything else is C01's business, not judged here)
    info["outcome"] = "input-not-written-back"
    return probs, info
  # --- detection
  lps = g.linear_paths()
  counts[0] += 1
  paths = [as_path(lp) for lp in lps]
  want = R.canon_chain_set(c.members for c in ref)
  got = R.canon_chain_set([n for n, _ in p] for p in paths)
  if want != got:
    probs.append(("chains", "linear_paths() = {} but the maximal chains are "
                  "{}".format([R.fmt_path(p) for p in paths], want), {}))
  else:
    for p in paths:
      _, pr = R.check_path(doc, ref, p)
      for x in pr:
        probs.append(("chains", "illegal walk: " + x, {}))
  member_of = {}
  for c in ref:
    for n in c.members:
      member_of[n] = c
  for n in doc.segs:
    lp = as_path(g.linear_path(n))
    counts[0] += 1
    c = member_of.get(n)
    if c is None:
      if len(lp) > 1:
        probs.append(("chain-of", "linear_path({}) = {} but {} is in no "
                      "chain".format(n, R.fmt_path(lp), n), {}))
    else:
      pr = []
      if sorted(x for x, _ in lp) != sorted(c.members):
        pr = ["members differ"]
      else:
        pr = R.check_path(doc, ref, lp)[1]
      if pr:
        probs.append(("chain-of", "linear_path({}) = {} but its chain is {} "
                      "({})".format(n, R.fmt_path(lp), sorted(c.members),
                                    pr[0]), {}))
  if str(g) != text0:
    probs.append(("detection-modifies", "linear_paths()/linear_path() "
                  "changed the Gfa", {}))
  if probs:
    info["outcome"] = "detection-disagrees"
    return probs, info
  info["paths"] = paths
  # --- merge
  removed, rid = [], set()
  for c in ref:
    for n in sorted(c.members):
      s = g.segment(n)
      for x in [s] + list(s.dovetails):
        if id(x) not in rid:
          rid.add(id(x))
          removed.append(x)
  # gfamc.invariants reports the header record (g.lines builds it on the fly,
  # it has no owner) even on a Gfa nothing was done to: problems present
  # before the merge are not the merge's
  baseline = set(invariants.check_closed_symmetric(g, [])) \
      if text.startswith("H\t") else set()
  err = None
  try:
    g.merge_linear_paths()
  except gfapy.Error as e:
    err = e
  except Exception as e:
    err = e
  counts[0] += 1
  if err is not None:
    ek = {"exc": type(err).__name__}
    probs.append(("merge-raises", exc_text(err), ek))
    try:
      t1 = str(g)
    except Exception as e2:
      t1 = "<str raises {}>".format(type(e2).__name__)
    if t1 != text0:
      probs.append(("failed-merge-modifies", "after the failed merge the Gfa "
                    "reads {}".format(flat(t1)), ek))
    info["outcome"] = "raises:" + type(err).__name__
    return probs, info
  t1 = str(g)
  after = R.parse(t1, ver)
  pred, pr = R.predict_merge(doc, paths)
  if pr:   # cannot happen after the detection clauses passed
    raise RuntimeError("reference rejects walks it accepted: {}".format(pr))
  for clause, detail in R.compare_merge(doc, pred, after):
    probs.append((clause, detail, {}))
  # components through the API = components of the written text
  cc = g.connected_components()
  gotp = frozenset(frozenset(s.name for s in c) for c in cc)
  if gotp != R.components(after) or \
      sum(len(c) for c in cc) != len(after.segs):
    probs.append(("components", "connected_components() after the merge {} "
                  "but the written graph has {}".format(
                      R.fmt_part(gotp), R.fmt_part(R.components(after))), {}))
  for clause, detail in invariants.check_closed_symmetric(g, removed):
    if (clause, detail) not in baseline:
      probs.append(("closure:" + clause, detail, {}))
  # --- second merge
  try:
    lp2 = g.linear_paths()
    g.merge_linear_paths()
    counts[0] += 1
    t2 = str(g)
    if lp2 or t2 != t1:
      probs.append(("not-idempotent", "after the merge linear_paths() = {} "
                    "and a second merge gives {}".format(
                        [R.fmt_path(as_path(p)) for p in lp2], flat(t2)), {}))
  except Exception as e:
    probs.append(("not-idempotent", "second merge raises " + exc_text(e), {}))
  info["outcome"] = "merged:{}{}".format(
      len(ref), "+cycle" if any(c.cyclic for c in ref) else "")
  info["state"] = t1
  return probs, info


def key_of(label, text, ver, doc_class, extra):
  k = {"class": doc_class, "version": ver, "graph": flat(text)}
  if _VL[0] != 1:
    k["vlevel"] = str(_VL[0])
  k.update(extra)
  return k


def eval_graph(label, sp, res):
  text, ver = ge.text(sp), ge.version(sp)
  res["evaluations"] += 1
  counts = [0]
  probs, info = None, {}
  try:
    with guard():
      probs, info = judge(text, ver, counts)
  except HarnessTimeout:
    probs = None
  except Exception as e:
    probs = [("raises", exc_text(e), {"exc": type(e).__name__})]
    info = {"outcome": "raises-outside-merge"}
  if probs is None or timed_out():
    probs = [("timeout", "exceeded the time budget", {})]
    info = {"outcome": "timeout"}
  res["transitions"] += counts[0]
  if info.get("outcome") != "input-not-written-back":
    res["traces"] += 1
  res["outcomes"].add(ver + ":" + str(info.get("outcome")))
  res["states"].add(h([ver, info.get("outcome"), info.get("state")]))
  if info.get("nchains"):
    res["nontrivial"].add(h(text))
  if probs:
    cls = R.shape_class(R.parse(text, ver), info.get("paths"))
    seen = set()
    for clause, detail, extra in probs:
      if clause in seen:
        continue
      seen.add(clause)
      res["violations"].append(mkviolation(
          clause, key_of(label, text, ver, cls, extra),
          {"text": text, "version": ver, "clause": clause,
           "vlevel": _VL[0]},
          "reference prediction (gfamc.ref.graph)", detail,
          standalone_for(text, ver)))
  return probs, info


def group_of(v):
  """Violations of one clause on graphs of one non-plain shape class are one
  finding: only the smallest witness is kept (and matched against the known
  findings by clause + class + exception + version)."""
  k = v["key"]
  if k["class"] == "plain":
    return None
  return (v["clause"], k["class"], k.get("exc", ""), k["version"])


def reduce_violations(vs):
  """Smallest witnesses first; one per non-plain group, MAX_PER_CLAUSE per
  clause for the plain class.  Returns (kept, counts)."""
  vs = sorted(vs, key=lambda v: (len(v["key"]["graph"]), v["key"]["graph"],
                                 v["clause"]))
  kept, counts, groups, per = [], {}, set(), {}
  for v in vs:
    n = v.get("n", 1)
    gk = group_of(v)
    ck = "{}|{}".format(v["clause"], v["key"]["class"])
    counts[ck] = counts.get(ck, 0) + n
    if gk is not None:
      if gk in groups:
        continue
      groups.add(gk)
      kept.append(v)
    else:
      per[v["clause"]] = per.get(v["clause"], 0) + 1
      if per[v["clause"]] <= MAX_PER_CLAUSE:
        kept.append(v)
  return kept, counts


def work(chunk):
  res = new_result()
  for i, item in enumerate(chunk):
    label, sp = item[0], item[1]
    _VL[0] = item[2] if len(item) > 2 else 1
    eval_graph(label, sp, res)
    if i == 0:
      res["samples"].append({"family": label, "graph": flat(ge.text(sp))})
  kept, counts = reduce_violations(res["violations"])
  res["violations"] = kept
  res["vcount"] = counts
  return res


def dedup(items):
  seen, out = set(), []
  for item in items:
    if item[1:] not in seen:
      seen.add(item[1:])
      out.append(item)
  return out


def family_levels(tier):
  """The same graphs under the other validation levels: the level decides
  when a field is validated, never what merging does (level 3 validates a
  field whenever it is read -- also those of the segment being assembled)."""
  out = []
  levels = (0, 3) if tier == "quick" else (0, 2, 3)
  for fam in (ge.family_gfa1("quick"), ge.family_gfa2_twins("quick")):
    for label, sp in fam:
      if tier == "quick" and label not in ("segvar", "decor", "full",
                                           "twin-star", "twin-full"):
        continue
      for v in levels:
        out.append(("levels:" + label, sp, v))
  return out


def run_family(ctx, name, items):
  items = dedup(items)
  chunks = [items[i:i + CHUNK] for i in range(0, len(items), CHUNK)]
  allv, vcount = [], {}
  for r in ctx.pmap(work, chunks, chunksize=1):
    allv += r.pop("violations")
    for c, k in r.pop("vcount").items():
      vcount[c] = vcount.get(c, 0) + k
    ctx.merge(r)
  ctx.extra.setdefault("families", {})[name] = len(items)
  ctx.extra.setdefault("phase_s", {})[name] = round(ctx.elapsed(), 1)
  return allv, vcount


# ---------------------------------------------------------------------------
# hash-seed cross-check (linear_paths iterates sets / dict order nowhere that
# we know of; this makes it an observation instead of a belief)

def slice_items():
  return dedup(ge.family_gfa1("quick"))[::53]


def digest():
  out = []
  for label, sp in slice_items():
    text, ver = ge.text(sp), ge.version(sp)
    try:
      g = gfapy.Gfa(text, version=ver)
      lp = [R.fmt_path(as_path(p)) for p in g.linear_paths()]
      try:
        g.merge_linear_paths()
        out.append(h([lp, str(g)]))
      except Exception as e:
        out.append(h([lp, "exc:" + type(e).__name__, str(g)]))
    except Exception as e:
      out.append("exc:" + type(e).__name__)
  return out


def hashseed_crosscheck(ctx):
  items = slice_items()
  procs = []
  for seed in ("1", "2"):
    env = dict(os.environ, PYTHONHASHSEED=seed, GFAMC_REPO=REPO,
               PYTHONDONTWRITEBYTECODE="1", PYTHONPATH=REPO + ":" + VERIF)
    procs.append((seed, subprocess.Popen(
        [sys.executable, "-m", "gfamc.checks.c14", "digest"], cwd=VERIF,
        env=env, stdout=subprocess.PIPE, stderr=subprocess.PIPE, text=True)))
  mine = digest()
  res = {"cases": len(mine), "seeds": [], "differences": 0}
  for seed, p in procs:
    so, se = p.communicate(timeout=900)
    if p.returncode != 0:
      raise RuntimeError("hash-seed cross-check failed to run: " + se[-500:])
    other = json.loads(so)
    res["seeds"].append(int(seed))
    for i, (x, y) in enumerate(zip(mine, other)):
      if x != y:
        res["differences"] += 1
        text, ver = ge.text(items[i][1]), ge.version(items[i][1])
        ctx.violation(mkviolation(
            "hashseed", {"graph": flat(text), "seed": seed, "class": "plain",
                         "version": ver},
            {"text": text, "version": ver, "clause": "hashseed"},
            "same paths and merge result under PYTHONHASHSEED=0 and " + seed,
            "results differ", standalone_for(text, ver)))
  ctx.extra["hashseed_crosschecks"] = res


def run(ctx):
  ctx.rule = ("every graph of the stated families is built with Gfa(text), "
              "linear_paths()/linear_path(s) are compared with the reference "
              "chains, merge_linear_paths() is executed and the written "
              "result compared with the reference prediction; non-trivial = "
              "the graph has at least one maximal chain (the merge rewrites "
              "something); distinct = distinct document text; states = "
              "distinct written results")
  ctx.alphabet = {
      "segments": "A..D (n<=3 quick, <=4 thorough), sequences ACC GAT TTG "
                  "CTA (all oriented strings and their 1-/2-trimmed suffixes "
                  "distinct); variants seq / `*`+LN:i:3 / seq+LN / mixed",
      "links": "over ALL unordered end pairs incl. hairpins (X end with "
               "itself) and self-links; both record forms (L a b / L b' a'); "
               "overlap in {*,1M,2M}; parallel links = same end pair with 1M "
               "and 2M (a second link over an end pair with an equal or "
               "unspecified overlap is not a valid document: gfapy refuses or "
               "ignores it)",
      "families": {
          "shape": "every set of <=3 end pairs on <=3 segments x 6 "
                   "form/overlap patterns; thorough: + 4 end pairs on 3 "
                   "segments and every set of <=4 end pairs on 4 segments x 4 "
                   "patterns",
          "full": "complete product form x overlap: <=3 links on <=2 "
                  "segments, <=2 links on 3 segments; thorough: 3 links on 3 "
                  "segments",
          "segvar": "every set of <=3 end pairs on 2..3 segments for the "
                    "variants star / seqln / mix",
          "decor": "every set of <=2 end pairs on 2..3 segments x {header + "
                   "comment, one C line per ordered segment pair, one P line "
                   "per link}",
          "gfa2_twins": "the shape family written as S / E lines (zero-length "
                        "intervals for `*`), all patterns in thorough",
          "levels": "the quick families (quick: full, segvar, decor and "
                    "their GFA2 twins) at validation levels 0 and 3 "
                    "(thorough: all quick families at 0, 2, 3)"}}
  ctx.assumptions = [
      "overlaps are `*` or M-only, as the property's quantifier says",
      "gfapy's returned paths are used only as the choice of direction and "
      "rotation, after being checked as legal walks of reference chains",
      "the name of a merged segment, its tags other than LN, the presence "
      "of LN, and the fate of containments/paths touching a chain are not "
      "demanded",
      "graphs whose merge fails are judged by merge-raises / "
      "failed-merge-modifies only; violations of one clause on graphs of "
      "one non-plain shape class are reported once, with the smallest "
      "witness"]
  allv, vcount = [], {}
  for name, items in (("gfa1", ge.family_gfa1(ctx.tier)),
                      ("gfa2_twins", ge.family_gfa2_twins(ctx.tier)),
                      ("levels", family_levels(ctx.tier))):
    v, c = run_family(ctx, name, items)
    allv += v
    for k, n in c.items():
      vcount[k] = vcount.get(k, 0) + n
  kept, _ = reduce_violations(allv)
  for v in kept:
    ctx.violation(v)
  ctx.extra["violating_cases_by_clause_and_class"] = dict(sorted(
      vcount.items()))
  ctx.bound_completed = {"graph_families": "complete"}
  hashseed_crosscheck(ctx)


def replay(w, ctx):
  text, ver = w["text"], w["version"]
  _VL[0] = w.get("vlevel", 1)
  if w.get("clause") == "hashseed":
    return []
  res = new_result()
  counts = [0]
  info = {}
  try:
    with guard(30):
      probs, info = judge(text, ver, counts)
  except Exception as e:
    probs = [("raises", exc_text(e), {"exc": type(e).__name__})]
  cls = R.shape_class(R.parse(text, ver), info.get("paths"))
  out, seen = [], set()
  for clause, detail, extra in probs:
    if clause in seen:
      continue
    seen.add(clause)
    out.append(mkviolation(clause, key_of("", text, ver, cls, extra), w,
                           "reference prediction (gfamc.ref.graph)", detail,
                           standalone_for(text, ver)))
  return out


if __name__ == "__main__":
  if len(sys.argv) >= 2 and sys.argv[1] == "digest":
    print(json.dumps(digest()))
