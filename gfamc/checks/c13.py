"""C13 -- the GFA version is inferred from content and enforced consistently.

Engine S over version-relevant line kinds: every multiset of <= 4 (quick) /
<= 5 (thorough) kinds, instantiated consistently by gfamc.ref.versions, in
ALL arrival orders x version parameter x dialect x validation level x entry
point.  The reference (never imports gfapy) says which versions each kind
allows and which outcome every order must have."""
import collections
import gfapy
from .. import observe, schedules
from ..ref import versions as rv
from ..runner import new_result, mkviolation, h

PROPERTY = "C13"

VERSIONS = (None, "gfa1", "gfa2")
DIALECTS = ("standard", "rgfa")


def product(versions, dialects, vlevels, entries):
  return [(v, d, l, e) for d in dialects for v in versions for l in vlevels
          for e in entries]


def plan(tier):
  """[(min size, max size, [configurations])]: which (version, dialect,
  vlevel, entry point) tuples are run for the multisets of which sizes.  The
  budget does not allow the full cross product at the largest size; what is
  left out there is the part in which the order cannot matter (version given
  explicitly: nothing is queued) or which is covered at all smaller sizes."""
  ALL = schedules.ENTRIES + ("clones",)
  if tier == "quick":
    return [
        (0, 3, product(VERSIONS, DIALECTS, (1,), ALL) +
               product((None,), ("standard",), (0, 1), ("carry",)) +
               # level 0 skips the VN / content cross-check only: documents
               # without a VN header are judged at level 0 like everywhere
               product(VERSIONS, ("standard",), (0,), ("list",))),
        (4, 4, product(VERSIONS, ("standard",), (1,), ("list",)) +
               product((None,), ("standard",), (1,), ("inc", "objs")) +
               product((None,), ("rgfa",), (1,), ("list",))),
    ]
  return [
      (0, 4, product(VERSIONS, DIALECTS, (1,), ALL) +
             product(VERSIONS, DIALECTS, (2, 3), ("list",)) +
             # (level >= 1: level 0 is documented to skip the cross-check
             # between a VN header and the content)
             product((None,), ("standard",), (0, 1, 2, 3), ("carry",))),
      # level 0 without a VN header: the row the quick tier runs (sizes <= 3,
      # entry list); not yet widened in the thorough tier
      (0, 3, product(VERSIONS, ("standard",), (0,), ("list",))),
      (5, 5, product((None,), ("standard",), (1,), ("list",))),
  ]


# ---------------------------------------------------------------------------
def written(g):
  """(Counter of non-header record texts, Counter of header tags) of the
  non-virtual lines the Gfa lists."""
  recs = collections.Counter()
  htags = collections.Counter()
  for l in g.lines:
    if observe.is_virtual(l):
      continue
    t = observe.safe_str(l)
    if observe.rt_of(l) == "H":
      for tag in t.split("\t")[1:]:
        htags[tag] += 1
    else:
      recs[t] += 1
  return recs, htags


def wanted(lines):
  recs = collections.Counter()
  htags = set()
  for l in lines:
    if l.startswith("H\t") or l == "H":
      htags.update(l.split("\t")[1:])
    else:
      recs[l] += 1
  return recs, collections.Counter(htags)


def once_problem(g, lines):
  """None, or a description of an input line that does not occur exactly once
  among the lines of the Gfa."""
  try:
    got_r, got_h = written(g)
  except Exception as e:
    return "lines-unreadable", "g.lines raised " + type(e).__name__
  want_r, want_h = wanted(lines)
  if got_r != want_r:
    for t in sorted(set(got_r) | set(want_r)):
      if got_r.get(t, 0) != want_r.get(t, 0):
        kind = t.split("\t", 1)[0][:1]
        return ("{}x{}".format(kind, got_r.get(t, 0)),
                "{!r} occurs {} time(s), expected {}".format(
                    t, got_r.get(t, 0), want_r.get(t, 0)))
  if got_h != want_h:
    for t in sorted(set(got_h) | set(want_h)):
      if got_h.get(t, 0) != want_h.get(t, 0):
        return ("Hx{}".format(got_h.get(t, 0)),
                "header tag {!r} occurs {} time(s), expected {}".format(
                    t, got_h.get(t, 0), want_h.get(t, 0)))
  return None


def version_trace_problem(versions, param):
  """The decided version never changes (and never differs from the one given
  explicitly)."""
  decided = param
  for i, v in enumerate(versions):
    if decided is not None and v != decided:
      return "after step {}: version {} although it was decided as {}".format(
          i, v, decided)
    if v is not None:
      decided = v
  return None


def judge_carry(b, lines, exp, cfg):
  """Entry `carry`: refused lines are dropped by the caller.  Whatever was
  refused, what the Gfa holds in the end is a document of the version the
  Gfa reports: a decided version never changes, and the written non-virtual
  lines parse again to that version (not refused because of the version)."""
  version, dialect, vlevel, entry = cfg
  out = []
  if b.err is not None or b.g is None:
    return out           # foreign exception / timeout: C07, other entries
  p = version_trace_problem(b.versions, version)
  if p is not None:
    out.append(("version-changed", "decided-version-changed",
                "a decided version is kept", p))
  g = b.g
  try:
    v = g.version
    texts = [observe.safe_str(l) for l in g.lines if not observe.is_virtual(l)]
  except Exception as e:
    return out
  if v not in ("gfa1", "gfa2"):
    # undecided -- or, at level 0 only, whatever an unchecked VN tag says
    return out
  # the version is decided: nothing waits in the queue any more, every line
  # that was not refused is in the Gfa exactly once
  kept = [l for i, l in enumerate(lines) if i not in (b.refused or [])]
  p = once_problem(g, kept)
  if p is not None:
    out.append(("line-not-once", p[0], "every accepted line exactly once in "
                "g.lines once the version is known", p[1]))
  if vlevel == 0 or not texts:
    # (level 0 is documented to skip the cross-check between VN and content)
    return out
  try:
    g2 = gfapy.Gfa(list(texts), vlevel=vlevel, dialect=dialect)
    v2 = g2.version
    if v2 != v and any(t.split("\t")[0] not in ("H", "#") for t in texts):
      out.append(("holds-other-version", "reparse:" + str(v2),
                  "what the Gfa holds is a {} document".format(v),
                  "parsed afresh: {}".format(v2)))
  except gfapy.VersionError as e:
    out.append(("holds-other-version", "reparse:VersionError",
                "what the Gfa holds is a {} document".format(v),
                "parsed afresh: VersionError: " + str(e).split("\n")[0][:80]))
  except gfapy.Error:
    pass
  except Exception:
    pass
  return out


def judge_build(b, lines, exp, cfg):
  """Violations of one build against the reference expectation.
  Returns list of (clause, what, expected, observed)."""
  version, dialect, vlevel, entry = cfg
  if entry == "carry":
    return judge_carry(b, lines, exp, cfg)
  out = []
  oc = b.outcome
  must = exp["must"]
  if oc.startswith("foreign:") or oc == "timeout":
    # C07 owns foreign exceptions; here they are an outcome like any other
    # and only matter through the clauses below
    pass
  if must == "version-error":
    if oc != "err:VersionError" and oc not in exp["tolerate"]:
      out.append(("no-version-error", oc,
                  "VersionError (allowed versions: {})".format(exp["allowed"]),
                  oc))
  elif must == "accept":
    if oc != "ok:" + exp["version"]:
      out.append(("not-accepted-as-version", oc, "ok:" + exp["version"], oc))
  elif must == "no-version-error":
    if oc == "err:VersionError" or (oc.startswith("ok:") and
                                    oc != "ok:" + exp["version"]):
      out.append(("wrong-version-verdict", oc,
                  "accepted as {} or refused for a reason other than the "
                  "version".format(exp["version"]), oc))
  # every input line exactly once
  g = b.g
  added_all = b.err is None or (entry == "inc" and b.stage == "validate")
  if g is not None and added_all:
    p = once_problem(g, lines)
    if p is not None:
      out.append(("line-not-once", p[0], "every input line exactly once in "
                  "g.lines", p[1]))
  if b.versions is not None:
    p = version_trace_problem(b.versions, version)
    if p is not None:
      out.append(("version-changed", "decided-version-changed",
                  "a decided version is kept", p))
  return out


def cfg_str(cfg):
  return "version={} dialect={} vlevel={} entry={}".format(*cfg)


def mk(kinds, lines, order_lines, cfg, clause, what, exp, obs, other=None):
  version, dialect, vlevel, entry = cfg
  key = {"kinds": " ".join(kinds), "config": cfg_str(cfg), "what": what}
  wit = {"kinds": list(kinds), "order": list(order_lines),
         "version": version, "dialect": dialect, "vlevel": vlevel,
         "entry": entry, "clause": clause, "what": what,
         "other_order": other}
  sa = schedules.standalone(entry, order_lines, version=version,
                            vlevel=vlevel, dialect=dialect,
                            tail="print(g.version)\n"
                                 "for l in g.lines: print(repr(str(l)))")
  if other:
    sa += "\n# compare with the order\n# " + repr(other)
  return mkviolation(clause, key, wit, exp, obs, sa)


def run_config(kinds, cfg, scratch, res, found):
  version, dialect, vlevel, entry = cfg
  lines = rv.instantiate(kinds, dialect)
  exp = rv.expected(kinds, version, dialect, lines)
  n = len(lines)
  first = None            # (outcome, order lines) of the first order
  seen = set()
  for order in schedules.orders(n):
    ol = [lines[i] for i in order]
    b = schedules.build(entry, ol, version=version, vlevel=vlevel,
                        dialect=dialect, scratch=scratch,
                        track_versions=(entry == "inc"))
    oc = b.outcome
    res["evaluations"] += 1
    res["transitions"] += n
    if exp["must"] != "neutral":
      res["traces"] += 1
    res["outcomes"].add("{}|{}".format(exp["must"], oc))
    res["hist"]["{}|{}".format(exp["must"], oc)] += 1
    wr = None
    if b.g is not None and b.err is None:
      try:
        wr = sorted(observe.safe_str(l) for l in b.g.lines)
      except Exception:
        wr = "<unreadable>"
    res["states"].add(h([oc, wr]))
    if rv.queue_exercised([kinds[i] for i in order], version):
      res["nontrivial"].add(h([kinds, order]))
    probs = judge_build(b, ol, exp, cfg)
    if entry == "carry":
      pass      # which lines are refused depends on the order: no comparison
    elif first is None:
      first = (oc, ol)
    elif oc != first[0]:
      probs.append(("outcome-depends-on-order",
                    " vs ".join(sorted([oc, first[0]])),
                    {"order": first[1], "outcome": first[0]},
                    {"order": ol, "outcome": oc}))
    for clause, what, e, o in probs:
      if (clause, what) in seen:
        continue
      seen.add((clause, what))
      found.append((kinds, cfg, clause, what, ol, e, o,
                    first[1] if clause == "outcome-depends-on-order" else None))
  return exp


def work(item):
  """One multiset of kinds through all configurations of its plan row."""
  kinds, cfgs, scratch = item
  res = new_result()
  res["hist"] = collections.Counter()
  found = []
  for cfg in cfgs:
    if cfg[2] == 0 and cfg[3] != "carry" and \
       any(k in ("H1", "H2", "H3") for k in kinds):
      continue      # level 0 is documented to skip the VN / content check
    exp = run_config(kinds, cfg, scratch, res, found)
    if len(kinds) in (2, 3) and len(res["samples"]) < 1 and \
       cfg[3] == "list" and rv.content_versions(kinds) != rv.BOTH:
      res["samples"].append({
          "kinds": list(kinds), "config": cfg_str(cfg),
          "lines": [l.replace("\t", " ") for l in
                    rv.instantiate(kinds, cfg[1])],
          "expected": {k: exp[k] for k in ("must", "version", "tolerate")}})
  res["found"] = found
  return res


def run(ctx):
  rows = plan(ctx.tier)
  ctx.rule = ("one case = one arrival order of one instantiated multiset of "
              "line kinds under one (version, dialect, vlevel, entry point); "
              "non-trivial = version not given and a line that has to wait "
              "for the version (L, C, P, custom record) arrives before the "
              "first deciding line, or no deciding line arrives at all (the "
              "line queue is used); states = distinct (outcome, written "
              "records)")
  ctx.alphabet = {
      "kinds": rv.DESCRIPTION,
      "allowed_versions_per_kind": {k: sorted(v) for k, v in
                                    rv.ALLOWS.items()},
      "cross_products": [
          {"multiset_sizes": [r[0], r[1]],
           "configurations": [cfg_str(c) for c in r[2]]} for r in rows],
      "orders": "all n! orders of every instantiated multiset",
      "instantiation": "gfamc.ref.versions.instantiate: distinct "
                       "identifiers, references resolved to the segments of "
                       "the multiset where it has any (rGFA: S lines carry "
                       "SN/SO/SR, link overlaps are 0M)"}
  ctx.assumptions = [
      "kinds, multiset sizes and configurations as stated in "
      "coverage.alphabet; validation level >= 1 only (the property exempts "
      "level 0)",
      "version-neutral documents (H without VN, comments, empty; also under "
      "dialect rgfa): only independence of the outcome from the order within "
      "one entry point is demanded, not which version is reported",
      "a document whose references cannot be closed inside the multiset must "
      "not be refused with VersionError unless its kinds conflict; which "
      "other gfapy.Error it gets is not C13's business",
      "dialect rgfa with GFA2-only content and unresolved references: "
      "NotFoundError (reference validation runs before the dialect check) is "
      "accepted besides VersionError",
      "paths are instantiated over two segments (a single-segment path needs "
      "no link)"]
  items = []
  with schedules.Scratch("c13_") as scratch:
    for kmin, kmax, cfgs in rows:
      for kinds in rv.multisets(kmax, kmin):
        items.append((kinds, tuple(cfgs), scratch))
    items.sort(key=lambda it: (-len(it[0]) , -len(it[1])))
    found = []
    n_sets = 0
    hist = collections.Counter()
    procs = schedules.spawn_slices("c13")
    for r in ctx.pmap(work, items, chunksize=4):
      found.extend(r.pop("found"))
      hist.update(r.pop("hist"))
      n_sets += 1
      ctx.merge(r)
    summary, diffs = schedules.collect_slices(procs, slice_cases())
  ctx.extra["hashseed_crosschecks"] = summary
  for sd, case, mine, other in diffs[:20]:
    ctx.violation(mkviolation(
        "hashseed-dependent", {"case": case, "seed": str(sd)},
        {"hashseed": sd, "case": case, "clause": "hashseed-dependent"},
        "same outcome under PYTHONHASHSEED=0 and {}".format(sd),
        {"seed0": mine, "seed{}".format(sd): other},
        "# run twice: PYTHONHASHSEED=0 and PYTHONHASHSEED={}\n".format(sd) +
        "# case " + case))
  ctx.extra["expectation_vs_outcome_histogram"] = dict(sorted(hist.items()))
  ctx.extra["multisets"] = n_sets
  ctx.extra["failing_cases_before_minimisation"] = len(found)
  ctx.bound_completed = {"max_kinds": max(r[1] for r in rows)}
  # ---- minimise: a failing multiset is reported only if no failing proper
  # sub-multiset exists for the same (clause, what, configuration); and one
  # configuration per (multiset, clause, what) -------------------------------
  groups = {}
  for kinds, cfg, clause, what, ol, e, o, other in found:
    g = groups.setdefault((clause, what), {})
    cur = g.get(kinds)
    cand = (cfg_rank(cfg), ol, cfg, e, o, other)
    if cur is None or cand[:2] < cur[:2]:
      g[kinds] = cand
  reported = 0
  for (clause, what), g in sorted(groups.items()):
    cs = {k: collections.Counter(k) for k in g}
    for kinds in sorted(g):
      if any(o != kinds and not (cs[o] - cs[kinds]) and
             sum(cs[o].values()) < len(kinds) for o in g):
        continue
      _, ol, cfg, e, o, other = g[kinds]
      lines = rv.instantiate(kinds, cfg[1])
      ctx.violation(mk(kinds, lines, ol, cfg, clause, what, e, o, other))
      reported += 1
  ctx.extra["minimal_failing_multisets"] = reported


def slice_cases():
  """Fixed slice for the hash-seed cross-check: every multiset of <= 3 kinds,
  version inferred, standard dialect, entry points list and objs; digest of
  (outcome, written records) per arrival order."""
  out = {}
  for kinds in rv.multisets(3):
    lines = rv.instantiate(kinds, "standard")
    for entry in ("list", "objs"):
      for order in schedules.orders(len(lines)):
        ol = [lines[i] for i in order]
        b = schedules.build(entry, ol)
        wr = None
        if b.g is not None and b.err is None:
          wr = sorted(observe.safe_str(l) for l in b.g.lines)
        out["{} / {} / {}".format(" ".join(kinds), entry, order)] = \
            h([b.outcome, wr])
  return out


def cfg_rank(cfg):
  version, dialect, vlevel, entry = cfg
  return (DIALECTS.index(dialect), VERSIONS.index(version), vlevel,
          (schedules.ENTRIES + ("clones", "carry")).index(entry))


def replay(w, ctx):
  if w.get("clause") == "hashseed-dependent":
    own = slice_cases()
    summary, diffs = schedules.collect_slices(
        schedules.spawn_slices("c13", seeds=(w["hashseed"],)), own)
    return [mkviolation("hashseed-dependent",
                        {"case": c, "seed": str(sd)}, w, "same outcome",
                        {"seed0": a, "other": b}) for sd, c, a, b in diffs
            if c == w["case"]]
  kinds = tuple(w["kinds"])
  cfg = (w["version"], w["dialect"], w["vlevel"], w["entry"])
  out = []
  with schedules.Scratch("c13_") as scratch:
    res = new_result()
    res["hist"] = collections.Counter()
    found = []
    run_config(kinds, cfg, scratch, res, found)
    lines = rv.instantiate(kinds, cfg[1])
    done = set()
    for k, c, clause, what, ol, e, o, other in found:
      if (clause, what) in done:
        continue
      done.add((clause, what))
      out.append(mk(kinds, lines, ol, c, clause, what, e, o, other))
  return out
