"""C17 -- GFA2 groups resolve to the paths and sets the specification defines.

Engine I (complete families of item lists) + Engine S (all placements and both
arrival orders of the lines of a multi-line group among the other lines).
Every case is ONE document, fed line by line to a fresh `gfapy.Gfa` and, as
text, to the reference model `gfamc.ref.groups` (which never imports gfapy).

Oracle clauses (names as reported):
  (i)   invalid-walk            what captured_path returns is not an alternating
                                walk / an edge step does not join its two
                                neighbours / the items do not occur in order
        accepts-invalid-items   a walk is returned where the model demands an
                                error (non-contiguous, ambiguous, undefined id)
        segments-edges-differ   captured_segments / captured_edges are not the
                                segments / edges of captured_path
        validate-*              Gfa.validate() raises on a document all of whose
                                references are defined, or is silent on one with
                                an undefined item
  (ii)  rejects-valid-path      gfapy.Error where exactly one walk exists
        wrong-walk              a valid walk that is not the one the items imply
  (iii) induced-set             induced_segments_set / induced_edges_set /
                                induced_set differ from the model (as sets)
  (iv)  merge-items, merge-tags, merge-records, merge-accepts-contradiction,
        merge-rejects-compatible
        merge-refused-state-changed   the refused line changed the Gfa (C08-type;
                                GFAMC_C17_UNCHANGED=0 only counts it)
  any   foreign-exception       an exception that is not a gfapy.Error

Not demanded (DESIGN.md C17 + triage): which of the two joined segments comes
first in an edge step (a walk that exists only under the adjacency reading of
the E lines, not under the direction-by-field-order reading, or that crosses
an edge in both directions, may be returned OR reported as an error); the
start side of a leading edge; lists in which a
segment / edge is not incident to its neighbouring edge / segment; seams at
which inlining the items and inlining the captured walk of a nested path
differ; gaps listed in sets; item order of a multi-line U group; what
Gfa.validate() says about non-contiguous paths (it only checks that references
are resolved -- tests/testdata/valid_path.gfa2 is a path without any edge).
"""
import os
import sys
import itertools
import subprocess
import gfapy
from ..ref import groups as R
from ..runner import (guard, timed_out, h, new_result, mkviolation,
                      HarnessTimeout, REPO, VERIF)

PROPERTY = "C17"
STRICT_VALIDATE = False     # True: demand an error from validate() for
                            # non-contiguous paths (over-demand, see docstring)
JUDGE_UNCHANGED = os.environ.get("GFAMC_C17_UNCHANGED", "1") != "0"
KEEP_PER_SIG = 4            # smallest witnesses kept per (clause, signature)

T = "\t".join
SEGS = [T(["S", n, "10", "*"]) for n in "abc"]
EDGE = {
    "e1": T(["E", "e1", "a+", "b+", "8", "10$", "0", "2", "*"]),
    "e2": T(["E", "e2", "b+", "c-", "8", "10$", "8", "10$", "*"]),
    "e2p": T(["E", "e2p", "b+", "c-", "8", "10$", "8", "10$", "*"]),
    "e3": T(["E", "e3", "c-", "a+", "0", "2", "0", "2", "*"]),
    # the same adjacencies written in complement form
    "e3c": T(["E", "e3c", "a-", "c+", "0", "2", "0", "2", "*"]),
    "e2pc": T(["E", "e2pc", "c+", "b-", "8", "10$", "8", "10$", "*"]),
    # the adjacency b+ c- as a containment / as an internal alignment (an edge
    # of any kind joins two items), and an edge of a segment with itself
    "e2k": T(["E", "e2", "b+", "c-", "0", "10$", "2", "8", "*"]),
    "e2i": T(["E", "e2", "b+", "c-", "3", "5", "4", "6", "*"]),
    "es": T(["E", "es", "a+", "a+", "8", "10$", "0", "2", "*"]),
    "e2ki": T(["E", "e2ki", "b+", "c-", "3", "5", "4", "6", "*"]),
}
GRAPHS = {
    "base": ["e1", "e2"],
    "par": ["e1", "e2", "e2p"],
    "cyc": ["e1", "e2", "e3"],
    "parcyc": ["e1", "e2", "e2p", "e3"],
    "cycC": ["e1", "e2", "e3c"],
    "parC": ["e1", "e2", "e2pc"],
    "cont": ["e1", "e2k"],
    "int": ["e1", "e2i"],
    "self": ["e1", "e2", "es"],
    "dovint": ["e1", "e2", "e2ki"],     # a dovetail and an internal: ambiguous
}
GAP = T(["G", "g1", "a+", "c+", "5", "*"])
BASE_ATOMS = [s + o for s in ("a", "b", "c", "e1", "e2") for o in "+-"]
U_ATOMS = ["a", "b", "e1", "g1", "o1", "u0"]


def lists_upto(atoms, n, lo=1):
  for k in range(lo, n + 1):
    for t in itertools.product(atoms, repeat=k):
      yield t


def graph_lines(gname):
  return SEGS + [EDGE[e] for e in GRAPHS[gname]]


# ---------------------------------------------------------------------------
# one case = one document in arrival order

def rt_of(line):
  try:
    return line.record_type
  except BaseException:
    return "?"


def obs_path(p, deep=True):
  try:
    cp = p.captured_path
    walk = [(x.name, x.orient) for x in cp]
  except gfapy.Error as e:
    return ("gerr", type(e).__name__)
  except Exception as e:
    return ("foreign", "{}: {}".format(type(e).__name__, str(e)[:80]))
  extra = None
  if not deep:
    return ("walk", walk, extra)
  try:
    cs = [(x.name, x.orient) for x in p.captured_segments]
    ce = [(x.name, x.orient) for x in p.captured_edges]
    if cs != walk[0::2] or ce != walk[1::2]:
      extra = {"captured_segments": [R.ostr(x) for x in cs],
               "captured_edges": [R.ostr(x) for x in ce]}
  except gfapy.Error as e:
    extra = {"captured_segments/edges": type(e).__name__}
  except Exception as e:
    return ("foreign", "{}: {}".format(type(e).__name__, str(e)[:80]))
  return ("walk", walk, extra)


def obs_gfa1(p):
  """The O line converted to a GFA1 path: (segments, n overlaps) or error."""
  try:
    s = str(p.to_gfa1())
  except gfapy.Error as e:
    return ("gerr", type(e).__name__)
  except Exception as e:
    return ("foreign", "{}: {}".format(type(e).__name__, str(e)[:80]))
  f = s.split("\t")
  return ("P", f[2].split(","), len(f[3].split(",")) if f[3] else 0, f[3])


def obs_set(u):
  out = {}
  for m in ("induced_segments_set", "induced_edges_set", "induced_set"):
    try:
      out[m] = ("set", sorted(x.name for x in getattr(u, m)))
    except gfapy.Error as e:
      out[m] = ("gerr", type(e).__name__)
    except Exception as e:
      out[m] = ("foreign", "{}: {}".format(type(e).__name__, str(e)[:80]))
  return out


def obs_group_record(g, name, rt):
  """items / tags / number of records of group `name` as the Gfa reports."""
  coll = g.paths if rt == "O" else g.sets
  recs = [x for x in coll if x.name == name]
  grp = g.line(name)
  if grp is None or rt_of(grp) != rt:
    return {"found": False, "records": len(recs)}
  items = []
  for it in grp.items:
    if rt == "O":
      items.append((it.name, it.orient) if isinstance(it, gfapy.OrientedLine)
                   else ("<{}>".format(type(it).__name__), "?"))
    else:
      items.append(it if isinstance(it, str) else it.name)
  tags = {}
  for tn in grp.tagnames:
    tags[tn] = grp.field_to_s(tn, tag=True)
  unresolved = [i for i, it in enumerate(grp.items) if isinstance(
      it.line if isinstance(it, gfapy.OrientedLine) else it, str)]
  text = [t for t in (str(x) for x in g.lines if rt_of(x) == rt)
          if t.startswith(rt + "\t" + name + "\t")]
  return {"found": True, "records": len(recs), "items": items, "tags": tags,
          "text": text, "strings_left": unresolved,
          "same_object": len(recs) == 1 and recs[0] is grp}


def snapshot(g):
  """Cheap state fingerprint for the unchanged-after-refusal measurement:
  the written form, the registered names and, per line, the names of the
  lines that refer to it."""
  try:
    refs = []
    for l in g.lines:
      refs.append((str(l), sorted(str(getattr(r, "name", r))
                                  for r in l.all_references)))
    return h([str(g), sorted(g.names), sorted(refs)])
  except BaseException as e:
    return "<snapshot-error:{}>".format(type(e).__name__)


def fmt_walk(w):
  return " ".join(R.ostr(x) for x in w)


def fmt_verdict(v):
  if v[0] == "walks":
    return {"walks": sorted(fmt_walk(w) for w in v[1])}
  if v[0] == "either":
    return {"error, or one of the walks": sorted(fmt_walk(w) for w in v[1])}
  if v[0] == "sets":
    return {"sets": [{"segments": sorted(s), "edges": sorted(e)}
                     for s, e in v[1]]}
  return {v[0]: v[1]}


def run_case(lines, targets, deep=True):
  """Feed `lines` (arrival order) to gfapy and to the model; judge.
  targets: identifiers of the groups to resolve.
  Returns (problems, info): problems = [(clause, sig, expected, observed)]"""
  probs = []
  info = {"ops": 0, "outcome": [], "nontrivial": False, "notes": []}
  doc = R.Doc()
  g = gfapy.Gfa(version="gfa2")
  nlines = {}
  for idx, l in enumerate(lines):
    conflict = None
    try:
      doc.add(l)
    except R.MergeConflict as e:
      conflict = str(e)
    f = l.split("\t")
    before = snapshot(g) if conflict else None
    err = None
    try:
      g.add_line(l)
    except gfapy.Error as e:
      err = ("gerr", type(e).__name__)
    except Exception as e:
      err = ("foreign", "{}: {}".format(type(e).__name__, str(e)[:80]))
    info["ops"] += 1
    if err is not None and err[0] == "foreign":
      probs.append(("foreign-exception", "add_line/" + err[1].split(":")[0],
                    "no exception other than gfapy.Error",
                    {"line": l, "raised": err[1]}))
      return probs, info
    if conflict:
      info["nontrivial"] = True
      if err is None:
        probs.append(("merge-accepts-contradiction", "",
                      "gfapy.Error for line {!r}: {}".format(l, conflict),
                      {"accepted": l, "group now": str(g.line(f[1]))}))
        info["outcome"].append("contradiction-accepted")
      else:
        info["outcome"].append("refused/" + err[1])
        after = snapshot(g)
        if after != before:
          info["notes"].append(("refused-state-changed", str(g)))
          info["outcome"].append("state-changed")
          if JUDGE_UNCHANGED:
            probs.append(("merge-refused-state-changed", "",
                          "Gfa unchanged after the refused line {!r}".format(l),
                          {"text after": str(g).split("\n")}))
      return probs, info          # a refused line ends the case
    if err is not None:
      clause = ("merge-rejects-compatible" if nlines.get(f[1]) else
                "rejects-valid-line")
      probs.append((clause, err[1], "line {!r} accepted".format(l),
                    {"raised": err[1]}))
      return probs, info
    if f[0] in "OU":
      nlines[f[1]] = nlines.get(f[1], 0) + 1
  # ---- multi-line groups: one record, concatenated items, united tags
  for name in sorted(n for n, c in nlines.items() if c > 1):
    grp = doc.group[name]
    info["nontrivial"] = True
    ob = obs_group_record(g, name, grp.rt)
    info["ops"] += 1
    if not ob["found"] or ob["records"] != 1 or len(ob["text"]) != 1 \
        or not ob["same_object"]:
      probs.append(("merge-records", "",
                    "one {} record named {}".format(grp.rt, name), ob))
      continue
    want = list(grp.items)
    got = [tuple(x) if grp.rt == "O" else x for x in ob["items"]]
    txt = ob["text"][0].split("\t")
    if grp.rt == "O":
      ok = got == want and txt[2].split(" ") == [R.ostr(x) for x in want]
    else:   # order of a multi-line set is not demanded
      ok = sorted(got) == sorted(want) and \
          sorted(txt[2].split(" ")) == sorted(want)
    if not ok or ob["strings_left"]:
      probs.append(("merge-items", "",
                    {"items": [R.ostr(x) if grp.rt == "O" else x
                               for x in want]},
                    {"items": [R.ostr(x) if grp.rt == "O" else x for x in got],
                     "written": txt[2],
                     "unresolved positions": ob["strings_left"]}))
    wtags = sorted("{}:{}:{}".format(k, v[0], v[1])
                   for k, v in grp.tags.items())
    if sorted(ob["tags"].values()) != wtags or sorted(txt[3:]) != wtags:
      probs.append(("merge-tags", "", {"tags": wtags},
                    {"tags": sorted(ob["tags"].values()),
                     "written": sorted(txt[3:])}))
    info["outcome"].append("merged/{}".format(grp.nlines))
  # ---- validate()
  verr = None
  try:
    g.validate()
  except gfapy.Error as e:
    verr = ("gerr", type(e).__name__)
  except Exception as e:
    verr = ("foreign", "{}: {}".format(type(e).__name__, str(e)[:80]))
  info["ops"] += 1
  if verr is not None and verr[0] == "foreign":
    probs.append(("foreign-exception", "validate/" + verr[1].split(":")[0],
                  "no exception other than gfapy.Error", {"raised": verr[1]}))
  all_undefined = set()
  for name in sorted(doc.group):
    all_undefined.update(R.undefined_ids(doc, name))
  if all_undefined and verr is None:
    probs.append(("validate-accepts-unresolved", "",
                  "gfapy.Error from validate(): {} undefined".format(
                      sorted(all_undefined)), "validate() returned"))
  if not all_undefined and verr is not None and verr[0] == "gerr":
    probs.append(("validate-rejects-resolved", verr[1],
                  "validate() silent: every reference is defined",
                  {"raised": verr[1]}))
  # ---- resolution of the target groups
  for name in targets:
    if name not in doc.group:
      continue
    rt = doc.group[name].rt
    grp = g.line(name)
    if grp is None or rt_of(grp) != rt:
      probs.append(("merge-records", "lookup",
                    "line({!r}) is the {} group".format(name, rt),
                    repr(grp)))
      continue
    if rt == "O":
      _judge_path(doc, name, grp, verr, probs, info, deep)
    else:
      _judge_set(doc, name, grp, probs, info)
  return probs, info


def _judge_path(doc, name, grp, verr, probs, info, deep):
  v = R.captured(doc, name)
  ob = obs_path(grp, deep)
  info["ops"] += 1
  info["notes"].append(("verdict:path:" + v[0], None))
  its = doc.group[name].items
  feat = "/".join(
      (["leading-edge"] if doc.kind.get(its[0][0]) == "E" else []) +
      (["nested+"] if any(doc.kind.get(n) == "O" and o == "+"
                          for n, o in its) else []) +
      (["nested-"] if any(doc.kind.get(n) == "O" and o == "-"
                          for n, o in its) else [])) or "plain"
  if v[0] != "lenient":
    info["nontrivial"] = True
  if ob[0] == "foreign":
    probs.append(("foreign-exception", "captured_path/" +
                  ob[1].split(":")[0], fmt_verdict(v), {"raised": ob[1]}))
    info["outcome"].append("foreign")
    return
  if ob[0] == "walk":
    walk = ob[1]
    bad = R.check_walk(doc, name, walk)
    if ob[2] is not None:
      probs.append(("segments-edges-differ", "", {"captured_path":
                    fmt_walk(walk)}, ob[2]))
    if v[0] in ("error", "unresolved"):
      probs.append(("accepts-invalid-items", feat, fmt_verdict(v),
                    {"captured_path": fmt_walk(walk)}))
    elif bad:
      probs.append(("invalid-walk", feat, {"valid walk": True,
                    "model": fmt_verdict(v)},
                    {"captured_path": fmt_walk(walk), "problems": bad}))
    elif v[0] in ("walks", "either") and tuple(walk) not in v[1]:
      probs.append(("wrong-walk", feat, fmt_verdict(v),
                    {"captured_path": fmt_walk(walk)}))
    info["outcome"].append("{}:walk/{}".format(v[0], len(walk)))
    # conversion to a GFA1 path uses the captured segments and edges
    if not bad and deep:
      g1 = obs_gfa1(grp)
      info["ops"] += 1
      if g1[0] == "foreign":
        probs.append(("foreign-exception", "to_gfa1/" + g1[1].split(":")[0],
                      "P line", {"raised": g1[1]}))
      elif g1[0] == "P" and (g1[1] != [R.ostr(x) for x in walk[0::2]] or
                             g1[2] != len(walk[1::2])) and len(walk) > 1:
        probs.append(("segments-edges-differ", "to_gfa1",
                      {"segments": [R.ostr(x) for x in walk[0::2]],
                       "overlaps": len(walk[1::2])},
                      {"segments": g1[1], "overlaps": g1[3]}))
  else:
    if v[0] == "walks":
      probs.append(("rejects-valid-path", feat + ":" + ob[1], fmt_verdict(v),
                    {"raised": ob[1]}))
    info["outcome"].append("{}:{}".format(v[0], ob[1]))
    if deep:
      # the conversion to a GFA1 path must report the same items as an error
      g1 = obs_gfa1(grp)
      info["ops"] += 1
      if g1[0] == "foreign":
        probs.append(("foreign-exception", "to_gfa1/" + g1[1].split(":")[0],
                      "gfapy.Error", {"raised": g1[1]}))
      elif g1[0] == "P":
        probs.append(("accepts-invalid-items", "to_gfa1", "gfapy.Error from "
                      "to_gfa1(), as from captured_path (" + ob[1] + ")",
                      {"to_gfa1": "P {} {}".format(",".join(g1[1]), g1[3])}))
    if v[0] in ("error", "lenient", "either"):
      key = "validate_on_unwalkable_path:" + ("silent" if verr is None
                                              else verr[1])
      info["notes"].append((key, None))
      if STRICT_VALIDATE and v[0] == "error" and verr is None:
        probs.append(("validate-accepts-noncontiguous", "",
                      "gfapy.Error from validate()", "validate() returned"))


def _judge_set(doc, name, grp, probs, info):
  v = R.induced(doc, name)
  ob = obs_set(grp)
  info["ops"] += 3
  info["notes"].append(("verdict:set:" + v[0], None))
  for m, r in sorted(ob.items()):
    if r[0] == "foreign":
      probs.append(("foreign-exception", m + "/" + r[1].split(":")[0],
                    fmt_verdict(v), {"raised": r[1]}))
      info["outcome"].append("foreign")
      return
  kinds = sorted(set(r[0] for r in ob.values()))
  gap = R.mentions_gap(doc, name)
  if v[0] == "lenient":
    info["outcome"].append("lenient:" + "/".join(kinds))
    return
  info["nontrivial"] = not gap
  if v[0] == "unresolved":
    if kinds != ["gerr"]:
      probs.append(("accepts-invalid-items", "set", fmt_verdict(v), ob))
    info["outcome"].append("unresolved:" + "/".join(kinds))
    return
  if kinds == ["gerr"]:
    if not gap:
      probs.append(("induced-set", "error/" +
                    ob["induced_set"][1], fmt_verdict(v), ob))
    info["outcome"].append(("gap:" if gap else "set:") +
                           ob["induced_set"][1])
    return
  if kinds != ["set"]:
    probs.append(("induced-set", "partly-error", fmt_verdict(v), ob))
    return
  segs = ob["induced_segments_set"][1]
  edges = ob["induced_edges_set"][1]
  both = ob["induced_set"][1]
  ok = False
  for ws, we in v[1]:
    if set(segs) == ws and set(edges) == we and set(both) == ws | we:
      ok = True
  if not ok:
    missing_e = sorted(set(v[1][0][1]) - set(edges))
    extra_e = sorted(set(edges) - set(v[1][0][1]))
    missing_s = sorted(set(v[1][0][0]) - set(segs))
    extra_s = sorted(set(segs) - set(v[1][0][0]))
    sig = "{}{}{}{}".format("segment-missing " if missing_s else "",
                            "segment-extra " if extra_s else "",
                            "edge-missing " if missing_e else "",
                            "edge-extra" if extra_e else "").strip()
    probs.append(("induced-set", sig or "union", fmt_verdict(v), ob))
  info["outcome"].append("set:{}+{}".format(len(segs), len(edges)))


# ---------------------------------------------------------------------------
# witnesses, keys, stand-alone scripts

def case_key(gname, lines):
  groups = [l.replace("\t", " ") for l in lines if l[0] in "OU"]
  ids = []
  seen = {}
  for l in lines:
    f = l.split("\t")
    if f[0] in "OU":
      seen[f[1]] = seen.get(f[1], 0) + 1
      ids.append("{}#{}".format(f[1], seen[f[1]]))
    else:
      ids.append(f[1])
  return {"graph": gname, "groups": " ; ".join(groups),
          "arrival": " ".join(ids)}


def standalone(lines, targets):
  s = ["import gfapy", "g = gfapy.Gfa(version='gfa2')",
       "for l in {!r}:".format(list(lines)),
       "  try: g.add_line(l)",
       "  except gfapy.Error as e: print('refused', repr(l), "
       "type(e).__name__)",
       "print(str(g))",
       "for n in {!r}:".format(list(targets)),
       "  x = g.line(n)",
       "  for m in (['captured_path'] if x.record_type == 'O' else "
       "['induced_segments_set', 'induced_edges_set']):",
       "    try: print(n, m, [str(i) if x.record_type == 'O' else i.name "
       "for i in getattr(x, m)])",
       "    except gfapy.Error as e: print(n, m, type(e).__name__)"]
  return "\n".join(s)


def judge_case(gname, family, lines, targets):
  """-> (list of (sig, size, violation), info)"""
  deep = not family.startswith(("Onest", "M2"))
  try:
    with guard(20):
      probs, info = run_case(lines, targets, deep)
    if timed_out():
      raise HarnessTimeout()
  except HarnessTimeout:
    probs = [("timeout", "", "termination within 20 s", "timed out")]
    info = {"ops": 0, "outcome": ["timeout"], "nontrivial": False,
            "notes": []}
  out = []
  for clause, sig, expected, observed in probs:
    key = case_key(gname, lines)
    key["sig"] = sig
    v = mkviolation(clause, key,
                    {"graph": gname, "family": family, "lines": list(lines),
                     "targets": list(targets)},
                    expected, observed, standalone(lines, targets))
    size = (len(lines), sum(len(l) for l in lines if l[0] in "OU"),
            key["groups"], key["arrival"])
    out.append(((clause, sig), size, v))
  return out, info


def replay(w, ctx):
  if w.get("family") == "Uanon":
    return judge_anon(w["lines"])
  if w.get("family") == "Urename":
    return judge_rename(w)
  res, info = judge_case(w["graph"], w["family"], w["lines"], w["targets"])
  return [v for _, _, v in res]


# ---------------------------------------------------------------------------
# unnamed edges: an edge without identifier is still an edge of the induced
# set (family Uanon; its own small oracle: the induced edges of a set are the
# E lines both of whose segments are induced segments, as a MULTISET of texts)

def anon_documents():
  import itertools
  T_ = "\t".join
  segs = [T_(["S", n, "10", "*"]) for n in "abc"]
  cand = [T_(["E", "*", "a+", "b+", "8", "10$", "0", "2", "*"]),
          T_(["E", "*", "a+", "b+", "7", "10$", "0", "3", "*"]),     # parallel
          T_(["E", "*", "b+", "c-", "8", "10$", "8", "10$", "*"]),
          T_(["E", "*", "c-", "a+", "0", "2", "0", "2", "*"]),
          T_(["E", "*", "a+", "a-", "8", "10$", "8", "10$", "*"]),   # hairpin
          T_(["E", "e9", "a-", "b-", "0", "2", "8", "10$", "*"]),    # named
          # field-for-field identical twins are still two edges
          T_(["E", "*", "a+", "b+", "8", "10$", "0", "2", "*"]),
          T_(["E", "*", "b+", "c-", "8", "10$", "8", "10$", "*"])]
  groups = [[T_(["U", "u", "a b c"])], [T_(["U", "u", "a b"])],
            [T_(["U", "v", "a"]), T_(["U", "u", "v b c"])],
            [T_(["O", "o", "a+ b+"]), T_(["U", "u", "o c"])]]
  docs = []
  for k in (2, 3, 4):
    for es in itertools.combinations(cand, k):
      for gr in groups:
        docs.append(segs + list(es) + gr)
        docs.append(gr + list(es) + segs)
  return docs


def judge_anon(lines):
  out = []
  try:
    g = gfapy.Gfa(version="gfa2")
    for l in lines:
      g.add_line(l)
    u = g.line("u")
    segs = sorted(x.name for x in u.induced_segments_set)
    got = sorted(str(e) for e in u.induced_edges_set)
    both = sorted(str(x) for x in u.induced_set)
  except gfapy.Error as e:
    # a path over parallel edges is ambiguous: an error is acceptable there
    return out
  except Exception as e:
    return [mkviolation("foreign-exception", {"graph": "anon", "groups":
            " ; ".join(l.replace("\t", " ") for l in lines if l[0] in "UO"),
            "sig": type(e).__name__}, {"family": "Uanon", "lines": lines},
            "induced set", type(e).__name__)]
  want = sorted(l for l in lines if l.startswith("E\t") and
                l.split("\t")[2][:-1] in segs and l.split("\t")[3][:-1] in segs)
  if got != want or len(both) != len(segs) + len(want):
    edges = " ; ".join(l.replace("\t", " ") for l in lines if l[0] == "E")
    out.append(mkviolation(
        "induced-set", {"graph": "anon", "groups": " ; ".join(
            l.replace("\t", " ") for l in lines if l[0] in "UO"),
            "edges": edges, "sig": "unnamed-edges"},
        {"family": "Uanon", "lines": lines}, want, got,
        "import gfapy\ng = gfapy.Gfa({!r}, version='gfa2')\n"
        "print([str(e) for e in g.line('u').induced_edges_set])".format(lines)))
  return out


# ---------------------------------------------------------------------------
# groups after a rename (family Urename): whatever was computed or written
# before, after renaming a segment / an edge / a group the groups give the
# answers of a Gfa parsed afresh from the renamed text (differential oracle)

def group_answers(g):
  out = {}
  for l in sorted(g.lines, key=str):
    rt = l.record_type
    if rt == "O":
      for what in ("captured_path", "captured_segments", "captured_edges"):
        try:
          out[(str(l.name), what)] = [
              (str(x.name), x.orient) for x in getattr(l, what)]
        except gfapy.Error as e:
          out[(str(l.name), what)] = type(e).__name__
    elif rt == "U":
      for what in ("induced_segments_set", "induced_edges_set"):
        try:
          out[(str(l.name), what)] = sorted(str(x) for x in getattr(l, what))
        except gfapy.Error as e:
          out[(str(l.name), what)] = type(e).__name__
  out["text"] = sorted(str(g).split("\n"))
  return out


def rename_documents():
  T_ = "\t".join
  base = [T_(["S", n, "10", "*"]) for n in "abcd"] + [
      T_(["E", "e1", "a+", "b+", "8", "10$", "0", "2", "*"]),
      T_(["E", "e2", "b+", "c+", "8", "10$", "0", "2", "*"]),
      T_(["E", "e3", "c+", "d-", "8", "10$", "8", "10$", "*"])]
  groupsets = [
      [T_(["O", "p", "a+ b+ c+ d-"])],
      [T_(["O", "p", "a+ e1+ b+ e2+ c+"])],
      [T_(["O", "p", "d+ c- b- a-"])],
      [T_(["O", "s", "b+ c+"]), T_(["O", "p", "a+ s+ d-"])],
      [T_(["O", "s", "b+ c+"]), T_(["O", "p", "d+ s- a-"])],
      [T_(["U", "u", "a b c"])],
      [T_(["O", "p", "a+ b+"]), T_(["U", "u", "p c"])],
      [T_(["U", "v", "a e1"]), T_(["U", "u", "v c"])],
  ]
  later = [T_(["O", "q", "c- b- a-"]), T_(["U", "w", "b c"]),
           T_(["O", "q", "a+ b+ c+"])]
  renames = [("b", "x"), ("a", "x"), ("e1", "x"), ("e2", "x"), ("p", "x"),
             ("s", "x"), ("u", "x"), ("v", "x")]
  docs = []
  for gs in groupsets:
    names = set(l.split("\t")[1] for l in base + gs)
    for old, new in renames:
      if old not in names:
        continue
      for warm in ("none", "str", "queries"):
        for lt in [None] + later:
          docs.append({"lines": base + gs, "old": old, "new": new,
                       "warm": warm, "later": lt})
  return docs


def _subst(line, old, new):
  import re as _re
  f = line.split("\t")
  def sub(tok):
    m = _re.match(r"^(.*?)([+-]?)$", tok)
    return (new + m.group(2)) if m.group(1) == old else tok
  if f[0] == "S":
    f[1] = new if f[1] == old else f[1]
  elif f[0] == "E":
    f[1] = new if f[1] == old else f[1]
    f[2], f[3] = sub(f[2]), sub(f[3])
  elif f[0] in "OU":
    f[1] = new if f[1] == old else f[1]
    f[2] = " ".join(sub(t) for t in f[2].split(" "))
  return "\t".join(f)


def judge_rename(case):
  lines, old, new = case["lines"], case["old"], case["new"]
  later = case["later"]
  key = {"graph": "rename", "groups": " ; ".join(
      l.replace("\t", " ") for l in lines if l[0] in "UO"),
      "sig": "rename {}->{} warm={} then {}".format(
          old, new, case["warm"],
          later.replace("\t", " ") if later else "-")}
  w = dict(case)
  w["family"] = "Urename"
  try:
    g = gfapy.Gfa(version="gfa2")
    for l in lines:
      g.add_line(l)
    if case["warm"] == "str":
      str(g)
    elif case["warm"] == "queries":
      group_answers(g)
    g.line(old).name = new
    renamed = [_subst(l, old, new) for l in lines]
    if later is not None:
      lt = _subst(later, old, new)
      renamed.append(lt)
      g.add_line(lt)
    got = group_answers(g)
    f = gfapy.Gfa(version="gfa2")
    for l in renamed:
      f.add_line(l)
    want = group_answers(f)
  except gfapy.Error as e:
    return [mkviolation("rename-breaks-groups", key, w,
                        "the renamed document is as valid as the original",
                        "{}: {}".format(type(e).__name__,
                                        str(e).split("\n")[0][:120]))]
  except Exception as e:
    return [mkviolation("foreign-exception", dict(key, exc=type(e).__name__),
                        w, "", type(e).__name__)]
  if got != want:
    diff = [k for k in sorted(set(got) | set(want), key=str)
            if got.get(k) != want.get(k)]
    return [mkviolation("rename-breaks-groups", key, w,
                        {str(k): want.get(k) for k in diff[:3]},
                        {str(k): got.get(k) for k in diff[:3]})]
  return []


def work_rename(chunk):
  res = new_result()
  for case in chunk:
    res["evaluations"] += 1
    res["transitions"] += len(case["lines"]) + 3
    res["traces"] += 1
    vs = judge_rename(case)
    res["states"].add(h([case["lines"], case["old"], case["later"]]))
    res["nontrivial"].add(h(case))
    res["outcomes"].add("Urename:" + ("ok" if not vs else vs[0]["clause"]))
    res["violations"].extend(vs[:1])
  return res


def work_anon(chunk):
  res = new_result()
  for lines in chunk:
    res["evaluations"] += 1
    res["transitions"] += len(lines) + 3
    res["traces"] += 1
    vs = judge_anon(lines)
    res["states"].add(h(lines))
    res["nontrivial"].add(h(lines))
    res["outcomes"].add("Uanon:" + ("ok" if not vs else vs[0]["clause"]))
    res["violations"].extend(vs[:1])
  return res


# ---------------------------------------------------------------------------
# families

def o1_defs(tier):
  """Nested path definitions: every list of length <= 2 over the base atoms;
  quick: every list of length <= 2 over a sub-alphabet that still has a
  segment in both orientations, both directions of an edge, and each kind at
  the head and at the tail of the nested list."""
  atoms = BASE_ATOMS if tier == "thorough" else \
      ["a+", "b+", "b-", "e1+", "e1-", "e2+"]
  return [" ".join(t) for t in lists_upto(atoms, 2)]


U_O1_DEFS = ["b+ c-", "e2-", "a+ c+", "c+ b-", "e2+", "a+ b+ c-", "e1+ e2+"]
U0_ATOMS = ["a", "b", "c", "e1", "e2", "g1", "o1"]


def plan(tier):
  """List of tasks (picklable tuples) -- the complete enumeration."""
  q = tier == "quick"
  tasks = []
  # O, no nesting: every list <= 3 over the ten base atoms, every graph,
  # definitions first and group first
  for gname in GRAPHS:
    for order in ("fwd", "rev"):
      tasks.append(("Oflat", gname, order, "base"))
  # the same with the extra edges of the graph in the alphabet
  for gname in GRAPHS:
    if len(GRAPHS[gname]) > 2:
      tasks.append(("Oflat", gname, "fwd", "ext"))
      if not q:
        tasks.append(("Oflat", gname, "rev", "ext"))
  # undefined items
  tasks.append(("Ounres", "base", "fwd", None))
  tasks.append(("Ounres", "base", "rev", None))
  # O with a nested path
  if q:
    for d in o1_defs(tier):
      tasks.append(("Onest", "cyc", "fwd", d))
      if " " not in d:
        tasks.append(("Onest", "parC", "fwd", d))
  else:
    for gname in ("cyc", "par", "parcyc", "cycC"):
      for d in o1_defs(tier):
        tasks.append(("Onest", gname, "fwd", d))
    for d in o1_defs(tier):
      tasks.append(("Onest", "cyc", "rev", d))
  # U
  ugraphs = ["base", "parcyc"] if q else ["base", "par", "cyc", "parcyc"]
  udefs = U_O1_DEFS[:3] if q else U_O1_DEFS
  u0defs = [" ".join(t) for t in lists_upto(
      ["c", "e2", "o1"] if q else U0_ATOMS, 2)]
  for gname in ugraphs:
    for order in ("fwd", "rev"):
      for i, od in enumerate(udefs):
        for j, ud in enumerate(u0defs):
          tasks.append(("U", gname, order, (od, i == 0, ud, j == 0)))
  # multi-line definitions: (item alphabet, tag modes, referrer line present)
  if q:
    mplan = {"O": [(["a+", "o1-"], "all", False),
                   (["a+", "o1-"], "core", True)],
             "U": [(["a", "u0"], "all", False),
                   (["a", "u0"], "core", True)]}
  else:
    mplan = {"O": [(BASE_ATOMS, "core", False),
                   (["a+", "b+", "e2-", "o1-"], "all", True)],
             "U": [(U_ATOMS, "core", False),
                   (["a", "e1", "u0"], "all", True)]}
  for rt in ("O", "U"):
    for atoms, modes, referrer in mplan[rt]:
      for items in lists_upto(atoms, 3, 2):
        tasks.append(("M2", "cyc", rt, (items, modes, referrer)))
    for items in lists_upto(mplan[rt][-1][0], 3, 3):
      tasks.append(("M3", "cyc", rt, items))
  return tasks


TAGMODES = {
    "none": ([], []),
    "disjoint": (["xx:i:1"], ["yy:Z:k"]),
    "equal": (["xx:i:1"], ["xx:i:1"]),
    "mixed": (["xx:i:1", "zz:Z:q"], ["yy:i:2", "xx:i:1"]),
    "contradictory": (["xx:i:1"], ["xx:i:2"]),
    "contradictory-zero": (["xx:i:1"], ["xx:i:0"]),
    "contradictory-among": (["yy:i:7", "xx:i:1"], ["xx:i:2", "zz:i:3"]),
    "contradictory-type": (["xx:i:1"], ["xx:Z:1"]),
    # tags whose datatype is not the default for their value (canonical
    # spellings), on the earlier and on the later line
    "datatypes": (["ca:A:c", "jj:J:[1, 2]", "bb:B:C,1,2", "hh:H:1AF0",
                   "ff:f:1.5"], ["zz:Z:q"]),
    "datatypes-late": (["zz:Z:q"], ["ca:A:c", "jj:J:[1, 2]", "ff:f:1.5"]),
}
CORE_MODES = ["disjoint", "equal", "contradictory", "datatypes",
              "datatypes-late"]

O1_FOR_MERGE = "b+ c-"
U0_FOR_MERGE = "c o1"


def others_for(gname, rt, items, referrer):
  """The other lines of a multi-line document, in their fixed order."""
  names = set(x[:-1] if rt == "O" else x for x in items)
  out = graph_lines(gname)
  if "g1" in names:
    out = out + [GAP]
  if "o1" in names or "u0" in names:
    out = out + [T(["O", "o1", O1_FOR_MERGE])]
  if "u0" in names:
    out = out + [T(["U", "u0", U0_FOR_MERGE])]
  if referrer:
    out = out + [T(["O", "w", "p+"]) if rt == "O" else T(["U", "w", "p"])]
  return out


def cases_of(task):
  """Generator of (family, graph, lines, targets) for one task."""
  fam = task[0]
  gname = task[1]
  if fam == "Oflat":
    order, alpha = task[2], task[3]
    atoms = list(BASE_ATOMS)
    if alpha == "ext":
      atoms += [e + o for e in GRAPHS[gname][2:] for o in "+-"]
    for items in lists_upto(atoms, 3):
      if alpha == "ext" and not any(x[:-1] in GRAPHS[gname][2:]
                                    for x in items):
        continue
      lines = graph_lines(gname) + [T(["O", "p", " ".join(items)])]
      if order == "rev":
        lines = lines[::-1]
      yield (fam + "/" + alpha, gname, lines, ["p"])
  elif fam == "Ounres":
    order = task[2]
    for items in lists_upto(["a+", "b+", "x+", "e1+", "y-", "o1+"], 2):
      if not any(x[:-1] in ("x", "y", "o1") for x in items):
        continue
      lines = graph_lines(gname) + [T(["O", "p", " ".join(items)])]
      if order == "rev":
        lines = lines[::-1]
      yield (fam, gname, lines, ["p"])
    for items in lists_upto(["a", "x", "e1", "u0"], 2):
      if not any(x in ("x", "u0") for x in items):
        continue
      lines = graph_lines(gname) + [T(["U", "u", " ".join(items)])]
      if order == "rev":
        lines = lines[::-1]
      yield (fam, gname, lines, ["u"])
  elif fam == "Onest":
    order, d = task[2], task[3]
    atoms = BASE_ATOMS + ["o1+", "o1-"]
    for items in lists_upto(atoms, 3):
      if "o1+" not in items and "o1-" not in items:
        continue
      lines = graph_lines(gname) + [T(["O", "o1", d]),
                                    T(["O", "p", " ".join(items)])]
      if order == "rev":
        lines = lines[::-1]
      yield (fam, gname, lines, ["p"])   # o1 alone is a case of Oflat
  elif fam == "U":
    order = task[2]
    od, od_first, ud, ud_first = task[3]
    for items in lists_upto(U_ATOMS, 3):
      uses_u0 = "u0" in items
      needs_o1 = "o1" in items or (uses_u0 and "o1" in ud.split(" "))
      if not uses_u0 and not ud_first:
        continue
      if not needs_o1 and not od_first:
        continue
      lines = graph_lines(gname)
      if "g1" in items or (uses_u0 and "g1" in ud.split(" ")):
        lines = lines + [GAP]
      if needs_o1:
        lines = lines + [T(["O", "o1", od])]
      if uses_u0:
        lines = lines + [T(["U", "u0", ud])]
      lines = lines + [T(["U", "u", " ".join(items)])]
      if order == "rev":
        lines = lines[::-1]
      yield (fam, gname, lines, ["u"] + (["u0"] if uses_u0 else []))
  elif fam == "M2":
    rt = task[2]
    items, modes, referrer = task[3]
    modes = CORE_MODES if modes == "core" else sorted(TAGMODES)
    others = others_for(gname, rt, items, referrer)
    n = len(others)
    for k in range(1, len(items)):
      for mode in modes:
        ta, tb = TAGMODES[mode]
        la = T([rt, "p", " ".join(items[:k])] + ta)
        lb = T([rt, "p", " ".join(items[k:])] + tb)
        for first, second in ((la, lb), (lb, la)):
          for i in range(n + 1):
            for j in range(i, n + 1):
              # `first` goes before others[i], `second` before others[j]
              lines = others[:i] + [first] + others[i:j] + [second] + \
                  others[j:]
              yield ("M2/" + rt + "/" + mode, gname, lines,
                     ["p"] + (["w"] if referrer else []))
  elif fam == "M3":
    rt = task[2]
    items = task[3]
    others = others_for(gname, rt, items, False)
    tagsets = {
        "union": (["xx:i:1", "aa:Z:k"], ["xx:i:1", "bb:i:0"], ["cc:f:0.5"]),
        "late-contradiction": (["xx:i:1"], [], ["xx:i:3"]),
    }
    for tname, ts in sorted(tagsets.items()):
      ls = [T([rt, "p", items[i]] + ts[i]) for i in range(3)]
      for perm in itertools.permutations(range(3)):
        three = [ls[i] for i in perm]
        for place in ("first", "last", "spread"):
          if place == "first":
            lines = three + others
          elif place == "last":
            lines = others + three
          else:
            lines = [three[0]] + others[:3] + [three[1]] + others[3:] + \
                [three[2]]
          yield ("M3/" + rt + "/" + tname, gname, lines, ["p"])
  else:
    raise ValueError(fam)


def work(task):
  res = new_result()
  best = {}      # sig -> sorted list of (size, violation)
  counts = {}    # clause -> number of violating cases
  notes = {}
  c08 = None
  n = 0
  for fam, gname, lines, targets in cases_of(task):
    n += 1
    vs, info = judge_case(gname, fam, lines, targets)
    res["evaluations"] += 1
    res["traces"] += 1
    res["transitions"] += info["ops"]
    cid = h([gname, lines])
    oc = "|".join(info["outcome"])
    res["states"].add(h([gname, [l for l in lines if l[0] in "OU"], oc]))
    res["outcomes"].add(fam.split("/")[0] + ":" + oc)
    if info["nontrivial"]:
      res["nontrivial"].add(cid)
    for k, payload in info["notes"]:
      notes[k] = notes.get(k, 0) + 1
      if k == "refused-state-changed":
        size = (len(lines), sum(len(l) for l in lines))
        if c08 is None or size < c08[0]:
          c08 = (size, {"lines": lines, "text_after_refusal":
                        payload.split("\n")})
    for sig, size, v in vs:
      counts[sig[0]] = counts.get(sig[0], 0) + 1
      lst = best.setdefault(sig, [])
      lst.append((size, v))
      lst.sort(key=lambda x: x[0])
      del lst[KEEP_PER_SIG:]
    if n % 1500 == 1:
      res["samples"].append({"family": fam, "graph": gname,
                             "groups": [l.replace("\t", " ") for l in lines
                                        if l[0] in "OU"],
                             "arrival": case_key(gname, lines)["arrival"],
                             "gfapy": info["outcome"]})
  res["raw"] = best
  res["counts"] = counts
  res["notes"] = notes
  res["c08"] = c08
  res["family"] = task[0]
  return res


# ---------------------------------------------------------------------------
# hash-seed cross-check (DESIGN 2.5): a fixed slice under PYTHONHASHSEED 1, 2

def slice_hash():
  acc = []
  for task in (("Oflat", "cyc", "fwd", "base"), ("Oflat", "parC", "rev", "base"),
               ("U", "parcyc", "fwd", ("b+ c-", True, "c o1", True)),
               ("M2", "cyc", "U", (("a", "u0", "e1"), "core", False))):
    for fam, gname, lines, targets in cases_of(task):
      vs, info = judge_case(gname, fam, lines, targets)
      acc.append([info["outcome"], sorted(s[0] for s, _, _ in vs)])
  return h(acc)


def start_crosschecks():
  procs = []
  code = ("import sys; sys.path[:0]=[{!r},{!r}]; "
          "from gfamc.checks import c17; print(c17.slice_hash())"
          .format(REPO, VERIF))
  for seed in ("1", "2"):
    env = dict(os.environ, PYTHONHASHSEED=seed, PYTHONDONTWRITEBYTECODE="1")
    procs.append((seed, subprocess.Popen(
        [sys.executable, "-c", code], cwd=VERIF, env=env,
        stdout=subprocess.PIPE, stderr=subprocess.PIPE, text=True)))
  return procs


# ---------------------------------------------------------------------------

def run(ctx):
  assert R.selftest()
  tier = ctx.tier
  ctx.rule = (
      "every case is one GFA2 document fed line by line to a fresh Gfa and, as "
      "text, to the reference model; families are enumerated completely "
      "(coverage.families).  Non-trivial = the model demands an exact answer "
      "(a unique walk / one of the two start sides of a leading edge, an error, "
      "an induced set, a merged record or a refusal); cases where the "
      "specification is silent (model verdict 'lenient', sets with a gap) are "
      "executed and checked for validity of the result only.  states = "
      "distinct (group lines, gfapy outcome) pairs")
  ctx.alphabet = {
      "segments": ["a", "b", "c"],
      "edges": {k: v.replace("\t", " ") for k, v in EDGE.items()},
      "graphs": GRAPHS,
      "O items": BASE_ATOMS + ["o1+", "o1-"] +
      ["(+ e2p/e3/e3c/e2pc +- in the 'ext' families)"],
      "O list length": "<= 3",
      "nested o1": "all lists of length <= 2 over " +
      ("the 10 base atoms, on graphs cyc/par/parcyc/cycC (+ cyc group-first)"
       if tier == "thorough" else
       "{a+ b+ b- e1+ e1- e2+} (complete sub-family) on graph cyc, the 6 "
       "single-item lists also on parC"),
      "U items": U_ATOMS, "U list length": "<= 3",
      "U nested o1": U_O1_DEFS[:3] if ctx.quick else U_O1_DEFS,
      "U nested u0": "all lists of length <= 2 over " +
      ("{c e2 o1}" if ctx.quick else "{a b c e1 e2 g1 o1}"),
      "multi-line": "every split of every list of length 2..3 into two lines "
      "x tag modes x both arrival orders x every placement of the two lines "
      "among the other lines (graph cyc, optionally a line `O w p+`/`U w p` "
      "that mentions the group); three-line groups in all 6 arrival orders x 3 "
      "placements",
      "multi-line item alphabets": (
          {"O": "{a+ o1-}: all 8 tag modes; with referrer: 3 core modes",
           "U": "{a u0}: all 8 tag modes; with referrer: 3 core modes"}
          if ctx.quick else
          {"O": "all 10 base atoms: 3 core modes; {a+ b+ e2- o1-} with "
                "referrer: all 8 modes",
           "U": "{a b e1 g1 o1 u0}: 3 core modes; {a e1 u0} with referrer: "
                "all 8 modes"}),
      "tag modes": {k: list(v) for k, v in TAGMODES.items()},
      "arrival orders of single-line documents": ["definitions first",
                                                  "reversed (group first)"],
  }
  ctx.assumptions = [
      "E lines are adjacencies of two oriented segments (e+ joins sid1,sid2; "
      "e- joins their inverses; either order) -- DESIGN.md C17",
      "Gfa.validate() is only required to report undefined items, not "
      "non-contiguity (the suite's valid_path.gfa2 has no edges); what it does "
      "on unwalkable paths is counted in coverage.notes, not judged",
      "a refused line (contradictory tag) ends the case; the Gfa must then be "
      "unchanged (written form, registered names, back-references of every "
      "line) -- clause merge-refused-state-changed, a C08-type finding",
      "documents are built with Gfa(version='gfa2', vlevel=1) and add_line in "
      "the stated arrival order; no hairpin edges (both directions of a "
      "hairpin fit the same pair)",
      "reference model self-tested on the worked examples of "
      "tests/test_api_references_groups.py and doc/tutorial/references.rst"]
  procs = start_crosschecks()
  tasks = plan(tier)
  best = {}
  counts = {}
  notes = {}
  fam_cases = {}
  c08 = None
  # cheap tasks are tiny: batch through the pool in plan order
  for r in ctx.pmap(work, tasks, chunksize=max(1, len(tasks) // (16 * 24))):
    raw = r.pop("raw")
    fam_cases[r["family"]] = fam_cases.get(r["family"], 0) + r["evaluations"]
    for k, v in r.pop("counts").items():
      counts[k] = counts.get(k, 0) + v
    for k, v in r.pop("notes").items():
      notes[k] = notes.get(k, 0) + v
    c = r.pop("c08")
    if c is not None and (c08 is None or tuple(c[0]) < tuple(c08[0])):
      c08 = c
    r.pop("family")
    ctx.merge(r)
    for sig, lst in raw.items():
      cur = best.setdefault(sig, [])
      cur.extend(lst)
      cur.sort(key=lambda x: x[0])
      del cur[KEEP_PER_SIG:]
  for sig in sorted(best):
    for size, v in best[sig]:
      ctx.violation(v)
  ad = anon_documents()
  kept = 0
  for r in ctx.pmap(work_anon, [ad[i:i + 20] for i in range(0, len(ad), 20)],
                    chunksize=1):
    vs = r.pop("violations")
    fam_cases["Uanon"] = fam_cases.get("Uanon", 0) + r["evaluations"]
    ctx.merge(r)
    for v in vs:
      if kept < KEEP_PER_SIG:
        ctx.violation(v)
        kept += 1
      else:
        ctx.n_violations += 1
  rd = rename_documents()
  kept = 0
  for r in ctx.pmap(work_rename, [rd[i:i + 20] for i in range(0, len(rd), 20)],
                    chunksize=1):
    vs = r.pop("violations")
    fam_cases["Urename"] = fam_cases.get("Urename", 0) + r["evaluations"]
    ctx.merge(r)
    for v in vs:
      if kept < KEEP_PER_SIG:
        ctx.violation(v)
        kept += 1
      else:
        ctx.n_violations += 1
  ctx.extra["families"] = fam_cases
  ctx.extra["tasks"] = len(tasks)
  ctx.extra["violating_cases_by_clause"] = counts
  ctx.extra["notes"] = notes
  if c08 is not None:
    ctx.extra["c08_type_finding"] = {
        "what": "a line refused for a contradictory tag has already replaced "
                "the earlier record (items merged, tags partly imported)",
        "cases": notes.get("refused-state-changed", 0),
        "minimal_witness": c08[1]}
  here = slice_hash()
  cross = []
  for seed, p in procs:
    out, err = p.communicate(timeout=300)
    got = out.strip().split("\n")[-1] if out.strip() else "<no output>"
    cross.append({"PYTHONHASHSEED": seed, "equal": got == here})
    if got != here:
      ctx.violation(mkviolation(
          "hashseed-dependence", {"seed": seed}, {"graph": "cyc", "family":
          "slice", "lines": [], "targets": []},
          "slice outcome hash " + here, got + " " + err[-300:]))
  ctx.extra["hashseed_crosschecks"] = cross
  ctx.bound_completed = {"O list length": 3, "nested list length": 2,
                         "U list length": 3, "lines per group": 3}
