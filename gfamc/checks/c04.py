"""C04 -- validation accepts exactly the documents the GFA grammar allows.

Engine I.  For every enumerated input x (a field value hosted in an otherwise
valid line, a structurally varied line, a single-point mutation of a valid
line, a small document exercising a document rule) and every validation level
1..3:   impl_accepts(x)  <=>  ref.grammar accepts(x),   and never the third
outcome (accepted at construction and by validate(), but flagged invalid or
unwritable afterwards)."""
import itertools
import gfapy
from .. import enumstr, corpus
from ..ref import grammar
from ..runner import (guard, timed_out, HarnessTimeout, new_result,
                      mkviolation, h)

PROPERTY = "C04"
T = "\t".join

# ------------------------------------------------------------- datatype hosts
# (datatype label, version, host template with {} slot, alphabet, extras)
INT_A = ["0", "1", "9", "-", "+", "_", " ", ".", "e", "x"]
ID2_A = ["a", "1", "*", "+", "-", " ", "!", "~", "\x7f", "é"]
DT_HOSTS = [
    ("A", "gfa1", "S\tA\t*\txx:A:{}", ["a", "Z", "!", "~", " ", "1", ":", "\x7f", "é"],
     []),
    ("i", "gfa1", "S\tA\t*\txx:i:{}", INT_A, ["-0", "+00", "2147483648", "1e3"]),
    ("f", "gfa1", "S\tA\t*\txx:f:{}",
     ["0", "1", ".", "-", "+", "e", "E", "_", " ", "i", "n", "f", "a"],
     ["1.5e-3", "-.5E+2", "1e999", "Infinity", "-inf", "NaN", "1.e3", "0x1p3", "1_0.0"]),
    ("Z", "gfa1", "S\tA\t*\txx:Z:{}", [" ", "a", "~", "!", "\x7f", "é", "\x1f", ":"], []),
    ("J", "gfa1", "S\tA\t*\txx:J:{}",
     ["{", "}", "[", "]", '"', "a", ":", ",", "1", " ", "N"],
     ["1", '"a"', "null", "true", "[NaN]", "[Infinity]", "[-Infinity]",
      '{"a":NaN}', "[1,]", "[01]", '{"a":1,}', "[1 ]", " [1]", "{'a':1}",
      '[[[1]]]', '{"a":{"b":[1,{"c":null}]}}', '["\\u00e9"]', '["\\x"]',
      "[1.5e3]", "[1.]", "[.5]", "[+1]", "[true,false,null]", '{"a":1 "b":2}',
      '{"a":1,"a":2}', '[1][2]', "[]", "{}", "[\x7f]", '["é"]']),
    ("H", "gfa1", "S\tA\t*\txx:H:{}", ["0", "1", "9", "A", "F", "a", "f", "G", " ", "x"],
     ["1AF0", "1af0", "1AF", "0x1A"]),
    ("B", "gfa1", "S\tA\t*\txx:B:{}",
     ["c", "C", "f", "i", ",", "0", "1", "-", "+", ".", "e", " "],
     ["c,127", "c,128", "c,-128", "c,-129", "C,255", "C,256", "C,-1", "C,+1",
      "s,32767", "s,32768", "s,-32768", "s,-32769", "S,65535", "S,65536",
      "i,2147483647", "i,2147483648", "i,-2147483648", "i,-2147483649",
      "I,4294967295", "I,4294967296", "I,-1", "f,1.5,2e3,-.5", "f,1.", "f,inf",
      "f,nan", "f,1_0", "c,1_0", "c, 1", "c,1,", "c,,1", "x,1", "c", "f",
      "c,1.0", "i,1e3", "C,0x1"]),
    ("segment_name_gfa1", "gfa1", "S\t{}\t*", ["A", "a", "1", "*", "=", ",", "+", "-", " ", "!"], []),
    ("sequence_gfa1", "gfa1", "S\tA\t{}", ["A", "c", "N", "*", "=", ".", "1", "-", " "], []),
    ("orientation", "gfa1", "L\tA\t{}\tB\t+\t*", ["+", "-", "*", "0", " ", "A"], []),
    ("alignment_gfa1", "gfa1", "L\tA\t+\tB\t+\t{}",
     ["1", "0", "M", "I", "D", "S", "=", "X", "*", ",", " ", "m"], ["10M2I3D4N5S6H7P8X9="]),
    ("position_gfa1", "gfa1", "C\tA\t+\tB\t+\t{}\t*", ["0", "1", "9", "-", "+", "$", " ", "_"], []),
    ("path_name_gfa1", "gfa1", "P\t{}\tA+,B+\t*", ["p", "1", "*", "=", ",", "+", "-", " ", "!"], []),
    ("oriented_identifier_list_gfa1", "gfa1", "P\tp\t{}\t*",
     ["A", "B", "+", "-", ",", " ", "*", "1"], []),
    ("alignment_list_gfa1", "gfa1", "P\tp\tA+,B+,C+\t{}",
     ["1", "M", "I", "*", ",", " ", "m", "0"], []),
    ("identifier_gfa2", "gfa2", "S\t{}\t1\t*", ID2_A, []),
    ("optional_identifier_gfa2", "gfa2", "E\t{}\ta+\tb+\t0\t1\t0\t1\t*", ID2_A, []),
    ("oriented_identifier_gfa2", "gfa2", "E\t*\t{}\tb+\t0\t1\t0\t1\t*", ID2_A, []),
    ("identifier_list_gfa2", "gfa2", "U\tu\t{}", ["a", "b", "1", "*", "+", " ", "\x7f", "é"], []),
    ("oriented_identifier_list_gfa2", "gfa2", "O\to\t{}", ["a", "b", "1", "*", "+", "-", " ", "\x7f"], []),
    ("position_gfa2", "gfa2", "E\t*\ta+\tb+\t0\t{}\t0\t1\t*", ["0", "1", "9", "$", "-", "+", " ", "_"], []),
    ("alignment_gfa2", "gfa2", "E\t*\ta+\tb+\t0\t1\t0\t1\t{}",
     ["1", "0", "M", "I", "D", "P", "=", "S", ",", "*", " ", "\u0661"], ["12", "1,2,3", "10M2I3D4P", "1,-2", "1,+2", "1,2_0"]),
    ("sequence_gfa2", "gfa2", "S\ta\t1\t{}", ["A", "*", "1", " ", "!", "~", "\x7f", "é"], []),
    ("i(slen)", "gfa2", "S\ta\t{}\t*", INT_A, []),
    ("i(disp)", "gfa2", "G\t*\ta+\tb+\t{}\t*", INT_A, []),
    ("optional_integer", "gfa2", "G\t*\ta+\tb+\t1\t{}", INT_A + ["*"], []),
    ("custom_record_type", "gfa2", "{}\tx\ty", ["X", "S", "E", "1", "!", " ", "#", "P", "L", "C"], []),
    ("generic", "gfa2", "X\t{}\ty", ["a", " ", "~", "\x7f", "é", ":", "*"], []),
]
DT_INDEX = {d[0]: d for d in DT_HOSTS}
LEVELS = (1, 2, 3)


def impl_line(text, vlevel, version):
  """'accept' | 'reject:<Err>' | 'third:<why>' | 'foreign:<Exc>'"""
  try:
    with guard(3.0):
      try:
        l = gfapy.Line(text, vlevel=vlevel, version=version)
        l.validate()
      except gfapy.Error as e:
        return "reject:" + type(e).__name__
      try:
        s = str(l)
      except gfapy.Error as e:
        return "third:write-raises-" + type(e).__name__
      if "INVALID" in s and "INVALID" not in text:
        return "third:written-flagged-invalid"
      return "accept"
  except HarnessTimeout:
    return "foreign:Timeout"
  except Exception as e:
    return "foreign:" + type(e).__name__


def ref_line(text, version):
  return grammar.line_ok(text.split("\t"), version)[0]


def judge_line(res, found, clause_ctx, text, version, levels=LEVELS):
  want = ref_line(text, version)
  if want is None:
    res["outcomes"].add("abstain")
    return
  for vlevel in levels:
    res["evaluations"] += 1
    res["traces"] += 1
    got = impl_line(text, vlevel, version)
    res["outcomes"].add(got.split(":")[0] + ("+" if want else "-"))
    cl = None
    if got == "accept" and not want:
      cl = "accepts-ungrammatical"
    elif got.startswith("reject") and want:
      cl = "rejects-grammatical"
    elif got.startswith("third"):
      cl = "accepted-then-" + got[6:]
    elif got.startswith("foreign") and want:
      cl = "rejects-grammatical"
    if cl:
      k = (cl, clause_ctx, vlevel)
      old = found.get(k)
      if old is None or (len(text), text) < (len(old[0]), old[0]):
        found[k] = (text, version, got, want)


def work_datatype(item):
  name, task, maxlen = item
  dt, version, host, alpha, extras = DT_INDEX[name]
  res = new_result()
  found = {}
  if task == "extras":
    vals = extras
  else:
    vals = enumstr.task_strings(task, alpha, maxlen, plen=1)
  for s in vals:
    text = host.format(s)
    if "\t" in s or "\n" in s:
      continue
    judge_line(res, found, dt, text, version)
    res["states"].add(h((dt, s, ref_line(text, version))))
  res["transitions"] = res["evaluations"]
  res["found"] = found
  return res


# ------------------------------------------------------------ line structure
def structure_cases():
  """(context, text, version) for the line-level tables."""
  out = []
  for version, lines in (("gfa1", corpus.GFA1_LINES), ("gfa2", corpus.GFA2_LINES)):
    for l in lines:
      f = l.split("\t")
      if f[0].startswith("#"):
        continue
      for n in range(1, len(f) + 1):
        out.append(("field-count", T(f[:n]), version))
      out.append(("field-count", T(f + ["x"]), version))
      out.append(("field-count", T(f + ["xx:i:1", "x"]), version))
      out.append(("dup-tag", T(f + ["zz:i:1", "zz:i:2"]), version))
      out.append(("dup-tag", T(f + ["zz:i:1", "zz:Z:a"]), version))
      out.append(("dup-tag", T(f + ["zz:i:1", "zz:i:1"]), version))
      # every tag the line already has, and every predefined tag of its
      # record type, repeated (same value and different value)
      rt = f[0]
      pre = grammar.RECORDS[version].get(rt, ([], {}))[1]
      npos = len(grammar.RECORDS[version].get(rt, ([], {}))[0]) if rt in grammar.RECORDS[version] else len(f)
      for t in f[1 + npos:]:
        if grammar.split_tag(t):
          out.append(("dup-tag-existing", T(f + [t]), version))
      vals = {"i": "4", "Z": "ab", "H": "1A"}
      base = f[:1 + npos]
      for tag, dt in sorted(pre.items()):
        if rt == "S" and version == "gfa1" and tag == "LN":
          base2 = ["S", "A", "ACGT"]
        else:
          base2 = base
        t = "{}:{}:{}".format(tag, dt, vals[dt])
        out.append(("dup-tag-predefined", T(base2 + [t, t]), version))
        out.append(("dup-tag-predefined", T(base2 + [t, "zz:i:1", t]), version))
  for name in enumstr.all_strings(["a", "Z", "1", "_"], 3, 1):
    out.append(("tag-name", "S\tA\t*\t{}:i:1".format(name), "gfa1"))
    out.append(("tag-name", "S\ta\t1\t*\t{}:i:1".format(name), "gfa2"))
  for dt in "AifZJHBx":
    out.append(("tag-type", "S\tA\t*\txx:{}:1".format(dt), "gfa1"))
  vals = {"A": "x", "i": "1", "f": "1.5", "Z": "ab", "J": "[1]", "H": "1A",
          "B": "c,1"}
  for version, recs in grammar.RECORDS.items():
    for rt, (pos, predefined) in recs.items():
      base = next(l for l in (corpus.GFA1_LINES if version == "gfa1"
                              else corpus.GFA2_LINES)
                  if l.split("\t")[0] == rt)
      bf = base.split("\t")[:1 + len(pos)]
      for tag in sorted(predefined):
        for dt, v in vals.items():
          if rt == "S" and version == "gfa1" and tag == "LN":
            bf2 = bf[:2] + ["*"]
            out.append(("predefined-tag", T(bf2[:3] + ["{}:{}:{}".format(tag, dt, v)]), version))
            continue
          out.append(("predefined-tag", T(bf + ["{}:{}:{}".format(tag, dt, v)]), version))
  for ln in ("0", "1", "2", "3", "-1", "+2"):
    for seq in ("*", "A", "AC", "ACG"):
      out.append(("LN-vs-sequence", "S\tA\t{}\tLN:i:{}".format(seq, ln), "gfa1"))
  segs = ["A+", "A+,B-", "A+,B-,C+"]
  ovs = ["*", "1M", "1M,2M", "1M,2M,3M", "*,*", "*,1M", "1M,*,*", "*,*,*,*", "1M,2M,3M,4M"]
  for sn in segs:
    for ov in ovs:
      out.append(("path-overlaps", "P\tp\t{}\t{}".format(sn, ov), "gfa1"))
  poss = ["0", "1", "2", "3", "3$", "2$", "0$"]
  for b, e in itertools.product(poss, repeat=2):
    out.append(("E-positions", "E\t*\ta+\tb+\t{}\t{}\t0\t1\t*".format(b, e), "gfa2"))
    out.append(("E-positions", "E\t*\ta+\tb+\t0\t1\t{}\t{}\t*".format(b, e), "gfa2"))
    out.append(("F-positions", "F\ta\tx+\t{}\t{}\t0\t1\t*".format(b, e), "gfa2"))
    out.append(("F-positions", "F\ta\tx+\t0\t1\t{}\t{}\t*".format(b, e), "gfa2"))
  return out


def work_structure(chunk):
  res = new_result()
  found = {}
  for ctxname, text, version in chunk:
    judge_line(res, found, ctxname, text, version)
    res["states"].add(h((ctxname, text)))
  res["transitions"] = res["evaluations"]
  res["found"] = found
  return res


MUT_ALPHA = ["\t", " ", "*", "+", "-", "0", "9", "$", ":", ",", "A", "a", "{",
             "_", ".", "\x7f", "é"]


def work_mutations(item):
  version, idx = item
  lines = corpus.GFA1_LINES if version == "gfa1" else corpus.GFA2_LINES
  base = lines[idx]
  res = new_result()
  found = {}
  for _, _, m in enumstr.mutations(base, MUT_ALPHA):
    if m == "" or "\n" in m:
      continue
    judge_line(res, found, "mutation:" + base.split("\t")[0], m, version)
    res["states"].add(h(m))
  res["transitions"] = res["evaluations"]
  res["found"] = found
  return res


# ------------------------------------------------------------ document rules
def doc_cases():
  """(context, lines, version, dialect, expected_accept)"""
  out = []
  S1 = ["S\tA\t*", "S\tB\t*", "S\tC\t*"]
  S2 = ["S\ta\t3\tACG", "S\tb\t3\t*", "S\tc\t3\tACG"]
  A, B = S1[0], S1[1]
  L, C = "L\tA\t+\tB\t+\t*", "C\tA\t+\tB\t+\t0\t*"
  P, Q = "P\tp\tA+,B+\t*", "P\tq\tA+\t*"
  for ref in (L, C):
    out.append(("references-defined", [A, B, ref], "gfa1", "standard", True))
    out.append(("references-defined", [ref, B, A], "gfa1", "standard", True))
    out.append(("references-defined", [A, ref], "gfa1", "standard", False))
    out.append(("references-defined", [B, ref], "gfa1", "standard", False))
    out.append(("references-defined", [ref], "gfa1", "standard", False))
  out.append(("references-defined", [A, B, L, P], "gfa1", "standard", True))
  out.append(("references-defined", [P, L, B, A], "gfa1", "standard", True))
  out.append(("references-defined", [A, B, P], "gfa1", "standard", False))
  out.append(("references-defined", [A, L, P], "gfa1", "standard", False))
  out.append(("references-defined", [P], "gfa1", "standard", False))
  out.append(("references-defined", [A, Q], "gfa1", "standard", True))
  out.append(("references-defined", [Q], "gfa1", "standard", False))
  a, b = S2[0], S2[1]
  E = "E\te\ta+\tb+\t0\t1\t0\t1\t*"
  G = "G\tg\ta+\tb+\t1\t*"
  F = "F\ta\tx+\t0\t1\t0\t1\t*"
  O, U, UE, UG = "O\to\ta+ e+ b+", "U\tu\ta b", "U\tu\te", "U\tu\tg"
  for ref in (E, G):
    out.append(("references-defined", [a, b, ref], "gfa2", "standard", True))
    out.append(("references-defined", [ref, a, b], "gfa2", "standard", True))
    out.append(("references-defined", [a, ref], "gfa2", "standard", False))
    out.append(("references-defined", [b, ref], "gfa2", "standard", False))
  out.append(("references-defined", [a, F], "gfa2", "standard", True))
  out.append(("references-defined", [F], "gfa2", "standard", False))
  out.append(("references-defined", [b, F], "gfa2", "standard", False))
  out.append(("references-defined", [a, b, E, O], "gfa2", "standard", True))
  out.append(("references-defined", [O, E, b, a], "gfa2", "standard", True))
  out.append(("references-defined", [a, b, O], "gfa2", "standard", False))
  out.append(("references-defined", [a, E, O], "gfa2", "standard", False))
  out.append(("references-defined", [a, b, U], "gfa2", "standard", True))
  out.append(("references-defined", [a, U], "gfa2", "standard", False))
  out.append(("references-defined", [a, b, E, UE], "gfa2", "standard", True))
  out.append(("references-defined", [a, b, UE], "gfa2", "standard", False))
  out.append(("references-defined", [a, b, G, UG], "gfa2", "standard", True))
  out.append(("references-defined", [a, b, UG], "gfa2", "standard", False))
  # `$` only on a segment's last position (segment length 3, with sequence
  # and with placeholder sequence)
  poss = ["0", "1", "2", "3", "3$", "2$", "1$", "4$"]
  for seg in ("a", "b"):
    for b, e in itertools.product(poss, repeat=2):
      bv, bl = grammar.posval(b)
      ev, el = grammar.posval(e)
      line_ok = grammar.line_ok(
          "E\t*\ta+\tb+\t{}\t{}\t0\t1\t*".format(b, e).split("\t"), "gfa2")[0]
      dollar_ok = all((not last) or v == 3 for v, last in ((bv, bl), (ev, el)))
      inrange = bv <= 3 and ev <= 3
      if seg == "a":
        el_ = "E\t*\ta+\tc+\t{}\t{}\t0\t1\t*".format(b, e)
        fl_ = "F\ta\tx+\t{}\t{}\t0\t1\t*".format(b, e)
      else:
        el_ = "E\t*\tc+\tb+\t0\t1\t{}\t{}\t*".format(b, e)
        fl_ = "F\tb\tx+\t{}\t{}\t0\t1\t*".format(b, e)
      # the judged segment on either side of the edge, the other side with
      # and without a sequence (d: `*`)
      more = []
      for other in ("c", "d"):
        more.append("E\t*\t{}+\t{}+\t{}\t{}\t0\t1\t*".format(seg, other, b, e))
        more.append("E\t*\t{}+\t{}+\t0\t1\t{}\t{}\t*".format(other, seg, b, e))
      if line_ok is None:
        continue
      exp = line_ok and dollar_ok
      # positions beyond the segment end without `$` are not in the
      # property's list of rules: only judged when inside the segment
      if not inrange and exp:
        continue
      cx = "dollar-last-position:" + ("sequence" if seg == "a" else "placeholder-sequence")
      out.append((cx, S2 + [el_], "gfa2", "standard", exp))
      out.append((cx, S2 + [fl_], "gfa2", "standard", exp))
      for ml in more:
        if ml != el_:
          out.append((cx, S2 + ["S\td\t3\t*", ml], "gfa2", "standard", exp))
          out.append((cx, [ml, "S\td\t3\t*"] + S2, "gfa2", "standard", exp))
  # white space at the end of a line is part of the last field (every entry
  # point, see work_docs): a number, an overlap, a placeholder followed by a
  # blank, an empty field after a final tab
  for l, ver in (("S\tA\t*\tLN:i:4", "gfa1"), ("S\tA\t*", "gfa1"),
                 ("L\tA\t+\tB\t+\t3M", "gfa1"), ("S\ta\t4\t*\txx:f:1.5", "gfa2"),
                 ("E\t*\ta+\tb+\t0\t1\t0\t1\t*", "gfa2")):
    others = S1 if ver == "gfa1" else S2
    base = [x for x in others if x.split("\t")[1] != l.split("\t")[1] or l[0] != "S"]
    for sfx in (" ", "\t", "  ", " \t"):
      out.append(("trailing-whitespace", base + [l + sfx], ver, "standard", False))
  # rGFA
  sn_ok = "SN:Z:chr1\tSO:i:0\tSR:i:0"
  seg_variants = [
      (sn_ok, True), ("SN:Z:chr1\tSO:i:0", False), ("SN:Z:chr1\tSR:i:0", False),
      ("SO:i:0\tSR:i:0", False), ("SN:i:1\tSO:i:0\tSR:i:0", False),
      ("SN:Z:chr1\tSO:Z:0\tSR:i:0", False), ("SN:Z:chr1\tSO:i:0\tSR:f:0.5", False),
      ("", False)]
  for tags, ok in seg_variants:
    l = "S\ts1\tACG" + ("\t" + tags if tags else "")
    out.append(("rgfa-segment-tags", [l], "gfa1", "rgfa", ok))
    out.append(("rgfa-segment-tags", [l], None, "rgfa", ok))
  two = ["S\ts1\tACG\t" + sn_ok, "S\ts2\tAC\t" + sn_ok]
  for ltags, ok in (("", True), ("SR:i:0", True), ("L1:i:1\tL2:i:2", True),
                    ("SR:Z:0", False), ("L1:f:1.0", False), ("L2:Z:a", False)):
    l = "L\ts1\t+\ts2\t+\t0M" + ("\t" + ltags if ltags else "")
    out.append(("rgfa-link-tags", two + [l], "gfa1", "rgfa", ok))
  for ov, ok in (("0M", True), ("*", False), ("1M", False), ("0M1I", False)):
    out.append(("rgfa-overlap", two + ["L\ts1\t+\ts2\t+\t" + ov], "gfa1", "rgfa", ok))
  for extra, ok in (("H\tVN:Z:1.0", False), ("H\txx:i:1", False),
                    ("C\ts1\t+\ts2\t+\t0\t0M", False), ("P\tp\ts1+\t*", False),
                    ("# comment", True)):
    out.append(("rgfa-line-types", two + [extra], "gfa1", "rgfa", ok))
  out.append(("rgfa-version", ["S\ta\t3\tACG\t" + sn_ok], "gfa2", "rgfa", False))
  out.append(("rgfa-version", ["S\ta\t3\tACG\t" + sn_ok], None, "rgfa", False))
  return out


def impl_doc(lines, vlevel, version, dialect, entry="list"):
  try:
    with guard(5.0):
      try:
        if entry == "file":
          import tempfile, os
          fd, path = tempfile.mkstemp(prefix="gfamc_c04_", suffix=".gfa",
                                      dir="/tmp")
          try:
            with os.fdopen(fd, "w") as f:
              f.write("".join(l + "\n" for l in lines))
            g = gfapy.Gfa.from_file(path, vlevel=vlevel, version=version,
                                    dialect=dialect)
          finally:
            os.unlink(path)
        elif entry == "string":
          g = gfapy.Gfa("\n".join(lines), vlevel=vlevel, version=version,
                        dialect=dialect)
        else:
          g = gfapy.Gfa(list(lines), vlevel=vlevel, version=version,
                        dialect=dialect)
        g.validate()
        for l in g.lines:
          l.validate()
      except gfapy.Error as e:
        return "reject:" + type(e).__name__
      try:
        s = str(g)
      except gfapy.Error as e:
        return "third:write-raises-" + type(e).__name__
      if "INVALID" in s:
        return "third:written-flagged-invalid"
      if "GFAPY_virtual_line" in s:
        return "third:placeholder-written"
      return "accept"
  except HarnessTimeout:
    return "foreign:Timeout"
  except Exception as e:
    return "foreign:" + type(e).__name__


def work_docs(chunk):
  res = new_result()
  found = {}
  for ctxname, lines, version, dialect, want in chunk:
    for vlevel in LEVELS:
      res["evaluations"] += 1
      res["traces"] += 1
      got = impl_doc(lines, vlevel, version, dialect)
      res["outcomes"].add("doc:" + got.split(":")[0] + ("+" if want else "-"))
      cl = None
      cx = ctxname
      if got == "accept" and not want:
        cl = "accepts-ungrammatical"
      elif (got.startswith("reject") or got.startswith("foreign")) and want:
        cl = "rejects-grammatical"
      elif got.startswith("third"):
        cl = "accepted-then-" + got[6:]
      if cl is None:
        # the verdict does not depend on the entry point (file, one string)
        for entry in ("file", "string"):
          res["evaluations"] += 1
          other = impl_doc(lines, vlevel, version, dialect, entry)
          if other.split(":")[0] != got.split(":")[0]:
            cl = "verdict-depends-on-entry-point"
            cx = ctxname + "@" + entry
            got = "{} as a list of lines, {} through {}".format(got, other,
                                                                entry)
            break
      if cl:
        text = "\n".join(lines)
        k = (cl, cx, vlevel)
        old = found.get(k)
        if old is None or (len(text), text) < (len(old[0]), old[0]):
          found[k] = (text, version, got, want, dialect)
    res["states"].add(h((ctxname, lines, version, dialect)))
  res["transitions"] = res["evaluations"]
  res["found"] = found
  return res


def chunks(lst, n):
  for i in range(0, len(lst), n):
    yield lst[i:i + n]


def report(ctx, found_all):
  # one violation per (clause, context): levels folded into the key so that a
  # rule skipped at ONE level is distinguishable
  grouped = {}
  for (cl, cx, vlevel), w in found_all.items():
    grouped.setdefault((cl, cx), {})[vlevel] = w
  for (cl, cx), per in sorted(grouped.items()):
    lv = ",".join(str(v) for v in sorted(per))
    w = min(per.values(), key=lambda x: (len(x[0]), x[0]))
    text, version, got, want = w[0], w[1], w[2], w[3]
    dialect = w[4] if len(w) > 4 else "standard"
    isdoc = len(w) > 4
    wit = {"text": text, "version": version, "dialect": dialect,
           "levels": sorted(per), "doc": isdoc, "context": cx, "clause": cl}
    if isdoc:
      sa = ("import gfapy\ng = gfapy.Gfa({!r}.split('\\n'), vlevel={}, version={!r}, "
            "dialect={!r})\ng.validate()\nprint(str(g))").format(
                text, sorted(per)[0], version, dialect)
    else:
      sa = ("import gfapy\nl = gfapy.Line({!r}, vlevel={}, version={!r})\n"
            "l.validate()\nprint(str(l))").format(text, sorted(per)[0], version)
    ctx.violation(mkviolation(
        cl, {"context": cx, "levels": lv, "input": text}, wit,
        "grammatical" if want else "ungrammatical", got, sa))


def run(ctx):
  ctx.rule = ("per datatype: every string of length <= k over its critical "
              "alphabet plus boundary values, hosted in a valid line; "
              "line-structure tables; single-point mutations of the corpus; "
              "document-rule tables; each at vlevel 1,2,3; a case is "
              "non-trivial if the reference accepts it (both sides of the "
              "language are counted in distinct_outcomes)")
  ctx.alphabet = {d[0]: {"host": d[2], "alphabet": d[3], "extras": d[4]}
                  for d in DT_HOSTS}
  ctx.assumptions = [
      "strings over the listed critical alphabets up to the stated length, "
      "no tab or newline inside a field value (a line offered to gfapy.Line "
      "contains no line terminator)",
      "segment names containing a comma are outside the enumerated alphabet "
      "of path segment lists",
      "positions beyond the segment end without `$` are not judged",
      "reference grammar: gfamc/ref/grammar.py, written from the GFA1/GFA2 "
      "specifications as profiled by gfapy's documentation"]
  k = 4 if ctx.quick else 5
  found_all = {}
  def absorb(rs):
    for r in rs:
      f = r.pop("found")
      for kk, w in f.items():
        old = found_all.get(kk)
        if old is None or (len(w[0]), w[0]) < (len(old[0]), old[0]):
          found_all[kk] = w
      ctx.merge(r)
  tasks = []
  for d in DT_HOSTS:
    kk = k if len(d[3]) <= 12 else k - 1 if ctx.quick else k
    if len(d[3]) ** kk > 400000:
      kk -= 1
    for t in enumstr.prefix_tasks(d[3], kk, plen=1):
      tasks.append((d[0], t, kk))
    tasks.append((d[0], "extras", 0))
    ctx.extra.setdefault("string_length_per_datatype", {})[d[0]] = kk
  absorb(ctx.pmap(work_datatype, tasks, chunksize=1))
  sc = structure_cases()
  absorb(ctx.pmap(work_structure, list(chunks(sc, 100)), chunksize=1))
  mt = [("gfa1", i) for i in range(len(corpus.GFA1_LINES))] + \
       [("gfa2", i) for i in range(len(corpus.GFA2_LINES))]
  absorb(ctx.pmap(work_mutations, mt, chunksize=1))
  dc = doc_cases()
  absorb(ctx.pmap(work_docs, list(chunks(dc, 40)), chunksize=1))
  ctx.nontrivial = set(s for s in ctx.states)
  ctx.bound_completed = {"string_length": k, "structure_cases": len(sc),
                         "doc_cases": len(dc)}
  ctx.sample({"datatype": "i", "line": "S\tA\t*\txx:i:1_0", "ref": False})
  ctx.sample({"datatype": "J", "line": "S\tA\t*\txx:J:[1 ]", "ref": True})
  ctx.sample({"doc": dc[0][1], "expected_accept": dc[0][4]})
  report(ctx, found_all)


def replay(w, ctx):
  out = []
  for vlevel in w["levels"]:
    if w["doc"]:
      lines = w["text"].split("\n")
      got = impl_doc(lines, vlevel, w["version"], w["dialect"])
    else:
      got = impl_line(w["text"], vlevel, w["version"])
    cl = w["clause"]
    if cl == "verdict-depends-on-entry-point":
      entry = w["context"].rsplit("@", 1)[1]
      other = impl_doc(lines, vlevel, w["version"], w["dialect"], entry)
      if other.split(":")[0] == got.split(":")[0]:
        return []
      got = "{} as a list of lines, {} through {}".format(got, other, entry)
      continue
    bad = ((cl == "accepts-ungrammatical" and got == "accept") or
           (cl == "rejects-grammatical" and (got.startswith("reject") or
                                             got.startswith("foreign"))) or
           (cl.startswith("accepted-then-") and got.startswith("third")))
    if not bad:
      return []
  lv = ",".join(str(v) for v in w["levels"])
  out.append(mkviolation(w["clause"], {"context": w["context"], "levels": lv,
                                       "input": w["text"]}, w, "", got, ""))
  return out
