"""C09 -- identifiers are unique; lookup and renaming stay coherent.

Engine H over an identifier alphabet {x, y, 1, 2, *}: every identified record
type of each version under each identifier, add and rename to every
identifier (fresh / in use by the same type / by another type / mentioned
only).  Namespace invariants in every state, NotUniqueError + unchanged state
on every clash, exact textual substitution on every successful rename."""
import gfapy
from .. import explore, observe, universe, invariants
from ..ref import doc as refdoc
from . import c05, c08

PROPERTY = "C09"
HASHSEED_SLICE = True
T = "\t".join
IDS = ["x", "y", "1", "2"]

U1 = []
for i in IDS:
  U1 += [T(["S", i, "*"]), T(["P", i, "s+", "*"]),
         T(["L", "s", "+", "t", "-", "*", "ID:Z:" + i]),
         T(["C", "s", "+", "t", "-", "0", "*", "ID:Z:" + i])]
U1 += [T(["L", "s", "-", "t", "+", "*"]), T(["S", "s", "*"]),
       T(["P", "y", "x+", "*"]), T(["L", "x", "+", "1", "-", "*"]),
       T(["L", "s", "+", "y", "-", "*", "ID:Z:2"]),            # `y` as a segment
       # a path over s+ -> t-: it makes a placeholder for that link, which the
       # ID-tagged links above then replace (their ID may be the path's name)
       T(["P", "1", "s+,t-", "*"]),
       # the placeholder `*` as value of the ID tag: the line has no identifier
       T(["L", "s", "+", "t", "+", "1M", "ID:Z:*"]),
       T(["L", "t", "+", "s", "+", "2M", "ID:Z:*"]),
       T(["C", "s", "+", "t", "+", "0", "*", "ID:Z:*"])]
U2 = []
for i in IDS:
  U2 += [T(["S", i, "4", "*"]), T(["E", i, "s+", "t-", "0", "1", "0", "1", "*"]),
         T(["G", i, "s+", "t-", "1", "*"]), T(["O", i, "s+"]), T(["U", i, "s"])]
U2 += [T(["E", "*", "s+", "t-", "0", "2", "0", "2", "*"]), T(["U", "*", "s"]),
       T(["O", "*", "t+"]), T(["G", "*", "s-", "t+", "1", "*"]), T(["S", "s", "4", "*"]),
       T(["U", "y", "x"]), T(["O", "2", "x+"]), T(["U", "1", "x 2"]),
       T(["E", "y", "s+", "2-", "0", "1", "0", "1", "*"]),   # `2` as a segment
       T(["G", "x", "2+", "s-", "1", "*"]),
       # a further line of group x (which group 1 lists): the merged group
       # must be the line every referrer sees
       T(["U", "x", "y"]), T(["O", "2", "s+"])]


def classify(d, op):
  """('legal', None) | ('clash', why) | ('open', why)"""
  d2 = d.copy()
  try:
    c05.model_apply(d2, op)
    return "legal", d2
  except refdoc.Illegal as e:
    m = str(e)
    if m == "identifier in use":
      return "clash", m
    if m.startswith("target identifier"):
      if op[2] in d.names():
        # renaming a group onto another group of the same type may merge
        src, tgt = d.find(op[1]), d.find(op[2])
        if src is not None and tgt is not None and src[0] == tgt[0] and \
            src[0] in ("O", "U"):
          return "open", "group rename onto a group"
        return "clash", m
      return "open", "target is mentioned but undefined"
    return "open", m


class S(explore.Spec):
  lookups = IDS + ["s", "t", "*", "nope", ""]

  def namespace_problems(self, g, d):
    out = []
    try:
      names = list(g.names)
    except Exception as e:
      return ["names raises " + type(e).__name__]
    defined = set(d.names())
    if len(names) != len(set(names)):
      out.append("duplicate identifiers {}".format(sorted(names)))
    if not (defined <= set(names) <= defined | d.undefined()):
      out.append("names {} but defined {} (+ mentioned {})".format(
          sorted(names), sorted(defined), sorted(d.undefined())))
    for n in self.lookups:
      if n in ("*", ""):
        continue
      rec = d.find(n)
      try:
        l = g.line(n)
      except Exception as e:
        out.append("line({!r}) raises {}".format(n, type(e).__name__))
        continue
      if rec is None and isinstance(l, gfapy.Line) and not l.virtual:
        out.append("line({!r}) returns {} although the identifier is not in "
                   "use".format(n, observe.lkey(l)))
      if rec is not None and not (isinstance(l, gfapy.Line) and not l.virtual):
        out.append("line({!r}) does not find the line carrying it".format(n))
    return out

  def coherence_problems(self, g):
    """Model-free: pairwise distinct identifiers, every identified line found
    under its identifier, and no identifier carried by a line of the Gfa
    while other lines still refer to a placeholder for it."""
    out = []
    try:
      names = list(g.names)
      ls, extra = observe.all_lines(g)
    except Exception as e:
      return ["names / lines raise " + type(e).__name__]
    if len(names) != len(set(names)):
      out.append("duplicate identifiers {}".format(sorted(names)))
    real, virt = {}, set()
    for l in ls + extra:
      n = observe.line_name(l)
      if n is None:
        continue
      if observe.is_virtual(l):
        virt.add(n)
      elif any(l is x for x in ls):
        if n in real:
          out.append("two lines carry {!r}".format(n))
        real[n] = l
    for n, l in real.items():
      try:
        if g.line(n) is not l:
          out.append("line({!r}) does not return the line carrying it".format(n))
      except Exception as e:
        out.append("line({!r}) raises {}".format(n, type(e).__name__))
    both = sorted(set(real) & virt)
    if both:
      out.append("{} carried by a line while other lines still refer to a "
                 "placeholder of that name".format(both))
    return out

  def judge(self, g, env, hist, op, err):
    try:
      d = c05.model_of(self.version, hist)
    except refdoc.Illegal:
      return [("skip", "history not legal in the model")]
    if d.degenerate():
      return [("skip", "group left without items")]
    kind, info = classify(d, op)
    if kind == "legal" and info.degenerate():
      return [("skip", "group left without items")]
    if kind == "open":
      if err is not None and isinstance(err, gfapy.Error):
        # whatever the reason of the refusal: the namespace and the lookups
        # must be those of the state before the call
        probs = self.namespace_problems(g, d)
        return [("refused-op-changed-namespace", p) for p in probs] or \
            [("skip", "left open, refused, namespace unchanged")]
      if err is None:
        # accepted: whichever outcome gfapy chose, the namespace is coherent
        probs = invariants.namespace_coherence(g)
        if probs:
          return [("open-op-incoherent-namespace", p) for p in probs]
      return [("skip", "left open: " + str(info))]
    if err is not None and not isinstance(err, gfapy.Error):
      return [("skip", "foreign exception (C07)")]
    if kind == "clash":
      if err is None:
        return [("clash-not-refused", "{} succeeded although the identifier "
                 "is in use".format(explore.fmt_op(op)))]
      probs = []
      if not isinstance(err, gfapy.NotUniqueError):
        probs.append(("clash-wrong-error", "{} raised {}".format(
            explore.fmt_op(op), type(err).__name__)))
      g0, e0, x0 = explore.replay(self, hist)
      if c08.full_obs(g0) != c08.full_obs(g):
        probs.append(("clash-changed-state", c08.diff_obs(c08.full_obs(g0),
                                                          c08.full_obs(g))))
      return probs or [("skip", "clash refused, state unchanged")]
    d2 = info
    if err is not None:
      return [("legal-step-refused", "{} raised {}".format(
          explore.fmt_op(op), type(err).__name__))]
    if observe.ill_typed(g):
      return [("skip", "ill-typed")]
    probs = []
    real, ph, vlinks, orphans = c05.impl_view(g, self.version)
    if real != d2.canon_records():
      probs.append(("text-not-substituted" if op[0] == "rename"
                    else "records-differ",
                    "impl {} model {}".format(real[:6], d2.canon_records()[:6])))
      return probs
    # namespace
    try:
      names = list(g.names)
    except Exception as e:
      return [("names-raises", type(e).__name__)]
    if len(names) != len(set(names)):
      probs.append(("duplicate-identifier", sorted(names)))
    # placeholders are not identified lines: whether names lists them is open
    defined = set(d2.names())
    if not (defined <= set(names) <= defined | d2.undefined()):
      probs.append(("names-differ", "impl {} model {} (+ undefined {})".format(
          sorted(names), sorted(defined), sorted(d2.undefined()))))
    # lookups
    for n in self.lookups:
      rec = d2.find(n) if n not in ("*", "") else None
      try:
        l = g.line(n)
      except gfapy.Error as e:
        l = "<{}>".format(type(e).__name__)
      except Exception as e:
        probs.append(("lookup-foreign-exception", "{}: {}".format(n, type(e).__name__)))
        continue
      if rec is not None:
        ok = isinstance(l, gfapy.Line) and not l.virtual and \
            refdoc.canon_record(observe.safe_str(l).split("\t"), self.version) == \
            refdoc.canon_record(rec, self.version)
        if not ok:
          probs.append(("lookup-wrong-line", "line({!r}) -> {}".format(
              n, observe.lkey(l) if isinstance(l, gfapy.Line) else l)))
      else:
        if isinstance(l, gfapy.Line) and not l.virtual:
          probs.append(("lookup-finds-unused-id", "line({!r}) -> {}".format(
              n, observe.lkey(l))))
        if l is None or (isinstance(l, gfapy.Line) and l.virtual):
          try:
            r = g.try_get_line(n) if l is None else None
            if l is None:
              probs.append(("try_get_line-returns-for-unused-id", repr(n)))
          except gfapy.Error:
            pass
          except Exception as e:
            probs.append(("lookup-foreign-exception", "try_get_line {}: {}".format(
                n, type(e).__name__)))
      seg = g.segment(n) if n != "" else None
      if rec is not None and rec[0] == "S":
        if not (isinstance(seg, gfapy.Line) and observe.line_name(seg) == n):
          probs.append(("segment-lookup-wrong", repr(n)))
      elif seg is not None and not (isinstance(seg, gfapy.Line) and seg.virtual):
        probs.append(("segment-lookup-finds-non-segment", "segment({!r}) -> {}".format(
            n, observe.lkey(seg))))
    try:
      un = g.unused_name()
      if un in set(g.names):
        probs.append(("unused_name-in-use", un))
    except Exception as e:
      probs.append(("unused_name-raises", type(e).__name__))
    return probs


UI1 = [T(["S", i, "*"]) for i in ("9", "10", "08", "x")] + \
      [T(["P", i, "s+", "*"]) for i in ("9", "10")] + [T(["L", "9", "+", "10", "-", "*"])]
UI2 = [T(["S", i, "4", "*"]) for i in ("9", "10", "08", "x")] + \
      [T(["E", i, "s+", "t-", "0", "1", "0", "1", "*"]) for i in ("9", "10")] + \
      [T(["U", "11", "9 10"])]
S(name="c09.int1", universe=UI1, version="gfa1", rename_targets=("9", "10", "100"),
  lookups=["9", "10", "08", "8", "100", "x", "*"])
S(name="c09.int2", universe=UI2, version="gfa2", rename_targets=("9", "10", "100"),
  lookups=["9", "10", "08", "8", "100", "11", "x", "*"])
S(name="c09.g1", universe=U1, version="gfa1", rename_targets=tuple(IDS),
  unname_ops=True)
S(name="c09.g2", universe=U2, version="gfa2", rename_targets=tuple(IDS))


def run(ctx):
  ctx.rule = ("BFS over add / rm / rename histories over the identifier "
              "alphabet; every transition classified by the text model as "
              "legal, clash or left open; namespace and lookup invariants in "
              "every state")
  ctx.alphabet = {"identifiers": IDS + ["*"], "G1": U1, "G2": U2,
                  "lookups": S.lookups}
  ctx.assumptions = [
      "left open: re-adding an equal/complement link, multi-line groups and "
      "renaming a group onto another group's id (both merges are documented), "
      "renaming onto an identifier that is only mentioned (placeholder)"]
  plan = [("c09.g1", 3), ("c09.g2", 3), ("c09.int1", 3), ("c09.int2", 3)] \
      if ctx.quick else \
         [("c09.g1", 4), ("c09.g2", 4), ("c09.int1", 5), ("c09.int2", 5)]
  if ctx.slice:
    plan = [(n, max(2, d - 2)) for n, d in plan[:2]]
  done = {}
  for name, dpt in plan:
    done[name] = explore.bfs(ctx, explore.SPECS[name], dpt)[0]
  # the same search from NON-initial states: the whole universe loaded
  if not ctx.slice:
    d2 = 2 if ctx.quick else 3
    for name in ("c09.g1", "c09.g2"):
      sp = explore.SPECS[name]
      done[name + "@full"] = explore.bfs(
          ctx, sp, d2, label=name + "@full",
          prefix=universe.full_prefix(sp.version))[0]
  if not ctx.slice:
    # ... and from a state in which a placeholder SEGMENT survives only
    # because a group lists the identifier (the edge that made it a segment
    # placeholder is gone again)
    T_ = "\t".join
    pre = [("add", T_(["U", "1", "x 2"])),
           ("add", T_(["E", "y", "s+", "2-", "0", "1", "0", "1", "*"])),
           ("rm", "y")]
    sp = explore.SPECS["c09.g2"]
    done["c09.g2@group-placeholder"] = explore.bfs(
        ctx, sp, 2 if ctx.quick else 3, label="c09.g2@group-placeholder",
        prefix=pre)[0]
  ctx.traces = ctx.transitions
  ctx.bound_completed = done


def replay(w, ctx):
  return explore.replay_witness(w)
