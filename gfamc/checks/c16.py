"""C16 -- connected components and topology counters agree with the graph.

Engine I: complete families of small GFA1 graphs (all end pairs incl.
hairpins, self-links, parallel links; both record forms; overlaps *, 1M, 2M;
with containments / paths as decoration), their GFA2 twins, and GFA2 graphs
mixing dovetail, containment and internal E lines over every orientation and
interval-kind combination.
Engine H: every state of a bounded history search (add / rm / disconnect /
rename over the G1 / G2 universes); the document a state is compared with is
the one gfapy itself writes for that state.

Oracle: gfamc.ref.graph (text level, never imports gfapy): union-find over
dovetails; record counts by reference classification; dead ends = segment
ends without dovetail."""
import os, sys, json, subprocess
import gfapy
from .. import explore, universe, invariants, observe, graphenum as ge
from ..ref import graph as R
from ..runner import (guard, timed_out, h, new_result, mkviolation,
                      HarnessTimeout, REPO, VERIF)

PROPERTY = "C16"
CHUNK = 250
MAX_PER_CLAUSE = 25
_JUDGED = [0]


# ---------------------------------------------------------------------------
# the oracle

def names_of(lst):
  out = []
  for x in lst:
    out.append(x.name if isinstance(x, gfapy.Line) else str(x))
  return out


def judge_graph(g, doc, counts=None):
  """Compare gfapy's answers on g with the reference computed from the
  written document doc.  Returns list of (clause, detail)."""
  probs = []
  want = R.components(doc)
  ncalls = 0
  # connected_components: a partition, and the right one
  cc = g.connected_components()
  ncalls += 1
  flat = [n for c in cc for n in names_of(c)]
  if sorted(flat) != sorted(doc.segs):
    probs.append(("not-a-partition", "connected_components lists {} for "
                  "segments {}".format(sorted(flat), sorted(doc.segs))))
  got = frozenset(frozenset(names_of(c)) for c in cc)
  if got != want or len(cc) != len(want):
    probs.append(("components", "connected_components {} expected {}".format(
        sorted(sorted(names_of(c)) for c in cc), R.fmt_part(want))))
  # segment_connected_component, by name and by instance
  last = list(doc.segs)[-1] if doc.segs else None
  for n in doc.segs:
    cls = [c for c in want if n in c][0]
    # by name for every segment; by Line instance for the last one (the two
    # entry forms differ only in how the name is obtained)
    for arg, how in (((n, "name"), (g.segment(n), "line")) if n == last
                     else ((n, "name"),)):
      r = names_of(g.segment_connected_component(arg))
      ncalls += 1
      if sorted(r) != sorted(cls):
        probs.append(("segment-component", "segment_connected_component({} "
                      "by {}) = {} expected {}".format(n, how, sorted(r),
                                                       sorted(cls))))
  cnt = R.counters(doc)
  for k in ("n_dovetails", "n_containments", "n_internals", "n_dead_ends"):
    v = getattr(g, k)
    ncalls += 1
    if v != cnt[k]:
      probs.append((k, "{} = {} but the document has {}".format(k, v, cnt[k])))
  if counts is not None:
    counts[0] += ncalls
  # de-duplicate per clause (one detail per clause is enough)
  seen, out = set(), []
  for c, d in probs:
    if c not in seen:
      seen.add(c)
      out.append((c, d))
  return out


def outcome_of(doc):
  c = R.counters(doc)
  part = sorted(len(x) for x in R.components(doc))
  return "cc={} D={} C={} I={} dead={}".format(
      part, c["n_dovetails"], c["n_containments"], c["n_internals"],
      c["n_dead_ends"])


# ---------------------------------------------------------------------------
# Engine I

def flat(text):
  return " ; ".join(l.replace("\t", " ") for l in text.strip().split("\n"))


def standalone_for(text, ver):
  return "\n".join([
      "import gfapy",
      "g = gfapy.Gfa({!r}, version={!r})".format(text, ver),
      "print([[s.name for s in c] for c in g.connected_components()])",
      "print({s: sorted(x.name for x in g.segment_connected_component(s)) "
      "for s in g.segment_names})",
      "print(g.n_dovetails, g.n_containments, g.n_internals, g.n_dead_ends)"])


def eval_graph(label, sp, res):
  text = ge.text(sp)
  ver = ge.version(sp)
  doc = R.parse(text, ver)
  res["evaluations"] += 1
  probs = None
  calls = [0]
  try:
    with guard():
      g = gfapy.Gfa(text, version=ver)
      probs = judge_graph(g, doc, calls)
  except HarnessTimeout:
    probs = None
  except gfapy.Error as e:
    probs = [("raises", "{}: {}".format(type(e).__name__,
                                        str(e).split("\n")[0][:100]))]
  except Exception as e:
    probs = [("raises", "{}: {}".format(type(e).__name__,
                                        str(e).split("\n")[0][:100]))]
  if probs is None or timed_out():
    probs = [("timeout", "construction or queries exceeded the time budget")]
  res["transitions"] += calls[0]
  res["traces"] += 1
  oc = outcome_of(doc)
  res["outcomes"].add(oc)
  res["states"].add(h([ver, oc, R.fmt_part(R.components(doc))]))
  if doc.edges:
    res["nontrivial"].add(h(text))
  for clause, detail in probs:
    res["violations"].append(mkviolation(
        clause, {"family": label, "graph": flat(text)},
        {"kind": "graph", "text": text, "version": ver, "clause": clause,
         "family": label},
        "reference computed from the text", detail,
        standalone_for(text, ver)))
  return probs


def work(chunk):
  res = new_result()
  for i, (label, sp) in enumerate(chunk):
    eval_graph(label, sp, res)
    if i == 0:
      res["samples"].append({"family": label, "graph": flat(ge.text(sp))})
  # keep the result small: a few smallest witnesses per clause, plus counts
  vs = sorted(res["violations"], key=lambda v: (len(v["key"]["graph"]),
                                                v["key"]["graph"]))
  res["vcount"] = {}
  kept = []
  for v in vs:
    c = v["clause"]
    res["vcount"][c] = res["vcount"].get(c, 0) + 1
    if res["vcount"][c] <= MAX_PER_CLAUSE:
      kept.append(v)
  res["violations"] = kept
  return res


def dedup(items):
  seen, out = set(), []
  for label, sp in items:
    if sp not in seen:
      seen.add(sp)
      out.append((label, sp))
  return out


def run_family(ctx, name, items):
  items = dedup(items)
  chunks = [items[i:i + CHUNK] for i in range(0, len(items), CHUNK)]
  allv, vcount = [], {}
  for r in ctx.pmap(work, chunks, chunksize=1):
    allv += r.pop("violations")
    for c, k in r.pop("vcount").items():
      vcount[c] = vcount.get(c, 0) + k
    ctx.merge(r)
  allv.sort(key=lambda v: (v["clause"], len(v["key"]["graph"]),
                           v["key"]["graph"]))
  per = {}
  for v in allv:
    per[v["clause"]] = per.get(v["clause"], 0) + 1
    if per[v["clause"]] <= MAX_PER_CLAUSE:
      ctx.violation(v)
  for c, k in vcount.items():
    if k > MAX_PER_CLAUSE:
      ctx.extra.setdefault("violating_cases_not_written_out", {})[
          name + ":" + c] = k - MAX_PER_CLAUSE
  ctx.extra.setdefault("families", {})[name] = len(items)
  ctx.extra.setdefault("phase_s", {})[name] = round(ctx.elapsed(), 1)
  return len(items)


# ---------------------------------------------------------------------------
# Engine H

class S16(explore.Spec):
  """Judge every reached state against the reference computed from the text
  gfapy writes for it.  States holding placeholders (a line mentions a
  segment that is not defined yet) are not documents: not judged, but still
  expanded."""

  def judge(self, g, env, hist, op, err):
    if err is not None and not isinstance(err, gfapy.Error):
      return []
    # a refused operation (gfapy.Error) is judged too: the caller may carry
    # on, and the topology answers must still agree with the document
    if observe.ill_typed(g):
      return [("skip", "ill-typed reference")]
    if err is None:
      # the topology queries go by identifier: an operation that was accepted
      # must leave every identifier with exactly one meaning
      inc = invariants.namespace_coherence(g)
      if inc:
        return [("incoherent-namespace", inc[0])]
    if invariants.placeholders(g):
      return []
    txt = str(g)
    doc = R.parse(txt, self.version)
    und = R.undefined_segments(doc)
    if und:
      # no placeholder is left in the Gfa, yet a written record mentions a
      # segment that is not defined: a removed segment is still mentioned
      return [("dangling-mention", "records mention {} which the Gfa does not "
               "hold (not even as placeholder)".format(sorted(und)))]
    _JUDGED[0] += 1
    try:
      return judge_graph(g, doc)
    except HarnessTimeout:
      raise
    except Exception as e:
      # the document is well formed (no placeholder, every mention defined):
      # a topology query that raises gives no answer at all
      return [("raises", "{}: {}".format(type(e).__name__,
                                         str(e).split("\n")[0][:100]))]

  def nontrivial(self, g, env):
    if invariants.placeholders(g):
      return False
    try:
      return bool(R.parse(str(g), self.version).edges)
    except Exception:
      return False


T = "\t".join
# graph-shaped universes: enough links to build trees, cycles, hairpins,
# self-links, parallel edges, containment-only relations in three steps
H1 = [T(["S", "A", "*"]), T(["S", "B", "*"]), T(["S", "C", "*"]),
      T(["L", "A", "+", "B", "+", "1M"]), T(["L", "A", "+", "B", "+", "2M"]),
      T(["L", "B", "+", "C", "-", "*"]), T(["L", "C", "+", "A", "+", "*"]),
      T(["L", "C", "-", "C", "+", "*"]), T(["L", "B", "+", "B", "+", "*"]),
      T(["C", "A", "+", "C", "+", "0", "*"]),
      T(["C", "B", "-", "A", "+", "0", "*"]),
      T(["P", "p", "A+,B+", "1M"]), T(["L", "A", "-", "p", "+", "*"])]
H2 = [T(["S", "a", "4", "*"]), T(["S", "b", "4", "*"]), T(["S", "c", "4", "*"]),
      T(["E", "e1", "a+", "b+", "2", "4$", "0", "2", "*"]),
      T(["E", "*", "a+", "b+", "3", "4$", "0", "1", "*"]),
      T(["E", "e2", "b-", "c+", "0", "1", "0", "1", "*"]),
      T(["E", "e3", "c+", "c-", "4$", "4$", "4$", "4$", "*"]),
      T(["E", "e4", "a+", "c+", "0", "4$", "1", "3", "*"]),
      T(["E", "e5", "a+", "b-", "1", "2", "1", "2", "*"]),
      T(["E", "e6", "c-", "a-", "0", "2", "2", "4$", "*"]),
      T(["E", "e7", "b+", "c-", "0", "4$", "0", "3", "*"]),   # 2nd containment
      T(["O", "o", "a+ b+"]), T(["E", "*", "a-", "o+", "0", "1", "0", "1", "*"])]

S16(name="c16.g1", universe=universe.G1, version="gfa1",
    rename_targets=("Z", "B"))
S16(name="c16.g2", universe=universe.G2, version="gfa2",
    rename_targets=("z", "b"))
S16(name="c16.h1", universe=H1, version="gfa1", rename_targets=("Z", "B"))
S16(name="c16.h2", universe=H2, version="gfa2", rename_targets=("z", "b"))


def expand16(item):
  """explore.expand plus the number of states on which the reference was
  compared with the implementation (explore.expand has no counter for it)."""
  _JUDGED[0] = 0
  r = explore.expand(item)
  r["traces"] = r.get("traces", 0) + _JUDGED[0]
  return r


class CtxProxy:
  """Hands explore.bfs a ctx whose pmap runs expand16 instead of
  explore.expand (work-around: explore.py may not be changed)."""
  def __init__(self, ctx):
    object.__setattr__(self, "_ctx", ctx)

  def __getattr__(self, k):
    return getattr(self._ctx, k)

  def __setattr__(self, k, v):
    setattr(self._ctx, k, v)

  def pmap(self, fn, items, chunksize=None):
    if fn is explore.expand:
      fn = expand16
    return self._ctx.pmap(fn, items, chunksize)


# ---------------------------------------------------------------------------
# anchoring the reference classification

def anchor_reference():
  """The reference's E-line classification must reproduce the 800 hand-made
  labels of tests/testdata/gfa2_edges_classification.gfa (perspective of
  segment a).  A disagreement is a defect of the reference -> harness error."""
  p = os.path.join(REPO, "tests", "testdata", "gfa2_edges_classification.gfa")
  if not os.path.exists(p):
    return {"labels": 0, "agree": 0, "note": "table not found"}
  with open(p) as f:
    lines = [l.rstrip("\n") for l in f if l[0] in "SE"]
  doc = R.parse("\n".join(l.split("\tat:Z:")[0] for l in lines), "gfa2")
  labels = [l.split("\tat:Z:")[1] for l in lines if l[0] == "E"]
  agree = 0
  for e, lab in zip(doc.edges, labels):
    mine = {"C": "C", "I": "internal"}.get(e.kind)
    if e.kind == "D":
      x = e.a if e.a[0] == "a" else e.b
      mine = "dovetail_" + x[1]
    if lab.startswith("to_"):
      lab = "C"
    if mine == lab:
      agree += 1
  if agree != len(labels) or not labels:
    raise RuntimeError("reference classification disagrees with the label "
                       "table: {}/{}".format(agree, len(labels)))
  return {"labels": len(labels), "agree": agree}


# ---------------------------------------------------------------------------
# hash-seed cross-check

def slice_items(tier):
  a = dedup(ge.family_gfa1("quick"))
  b = dedup(ge.family_gfa2_mixed("quick"))
  return a[::67] + b[::41]


def digest(tier):
  out = []
  for label, sp in slice_items(tier):
    text, ver = ge.text(sp), ge.version(sp)
    try:
      g = gfapy.Gfa(text, version=ver)
      cc = sorted(sorted(names_of(c)) for c in g.connected_components())
      sc = [sorted(names_of(g.segment_connected_component(n)))
            for n in g.segment_names]
      out.append(h([cc, sc, g.n_dovetails, g.n_containments, g.n_internals,
                    g.n_dead_ends]))
    except Exception as e:
      out.append("exc:" + type(e).__name__)
  return out


def hashseed_crosscheck(ctx):
  items = slice_items(ctx.tier)
  procs = []
  for seed in ("1", "2"):
    env = dict(os.environ, PYTHONHASHSEED=seed, GFAMC_REPO=REPO,
               PYTHONDONTWRITEBYTECODE="1", PYTHONPATH=REPO + ":" + VERIF)
    procs.append((seed, subprocess.Popen(
        [sys.executable, "-m", "gfamc.checks.c16", "digest", ctx.tier],
        cwd=VERIF, env=env, stdout=subprocess.PIPE, stderr=subprocess.PIPE,
        text=True)))
  mine = digest(ctx.tier)
  res = {"cases": len(mine), "seeds": [], "differences": 0}
  for seed, p in procs:
    so, se = p.communicate(timeout=900)
    if p.returncode != 0:
      raise RuntimeError("hash-seed cross-check failed to run: " + se[-500:])
    other = json.loads(so)
    res["seeds"].append(int(seed))
    for i, (x, y) in enumerate(zip(mine, other)):
      if x != y:
        res["differences"] += 1
        text = ge.text(items[i][1])
        ctx.violation(mkviolation(
            "hashseed", {"graph": flat(text), "seed": seed},
            {"kind": "graph", "text": text, "version": ge.version(items[i][1]),
             "clause": "hashseed"},
            "same answers under PYTHONHASHSEED=0 and " + seed,
            "answers differ", standalone_for(text, ge.version(items[i][1]))))
  ctx.extra["hashseed_crosschecks"] = res


# ---------------------------------------------------------------------------

def run(ctx):
  ctx.rule = ("Engine I: every graph of the stated families built with "
              "Gfa(text); Engine H: BFS over histories, one state per "
              "canonical observation, judged against the reference computed "
              "from the text gfapy writes for the state.  non-trivial = the "
              "document holds at least one edge (dovetail, containment or "
              "internal); distinct = distinct document text / distinct state")
  ctx.alphabet = {
      "gfa1": "segments A..D (n<=3 quick, <=4 thorough); links over ALL "
              "unordered end pairs incl. hairpins and self-links, both record "
              "forms, overlaps *,1M,2M (parallel links = same end pair with "
              "1M and 2M); complete product for <=3 links on <=2 segments and "
              "<=2 links on 3 segments; "
              "all sets of <=3 (thorough <=4) end pairs x form/overlap "
              "patterns; sequence variants seq / *+LN / seq+LN / mixed; "
              "decorations: header, comment, one C line per ordered segment "
              "pair, one P line per link",
      "gfa2_twins": "the same graphs written as S/E lines",
      "gfa2_mixed": "segments a,b,c of length 4 with `*` sequence; unnamed E "
                    "lines over ordered segment pairs (incl. a segment with "
                    "itself), the 4 orientation pairs and interval kinds "
                    "{pfx 0..2, sfx 2..4$, whole 0..4$, internal 1..3} on both "
                    "sides (+ empty pfx 0..0, empty sfx 4$..4$, point 2..2 = "
                    "'all kinds'); quick: every set of <=2 E lines on one "
                    "segment, every single E line on 2 segments with all "
                    "kinds, every pair of E lines over the segment pairs "
                    "aa/ab/ba; thorough: <=3 on one segment, pairs with all "
                    "kinds over aa/ab/ba, every set of <=2 E lines on 3 "
                    "segments",
      "histories": {"G1": universe.G1, "G2": universe.G2, "H1": H1, "H2": H2,
                    "ops": ["add(any universe line)", "rm(id)",
                            "disconnect(unnamed line)", "rename(id -> fresh)",
                            "rename(id -> id in use)"]}}
  ctx.assumptions = [
      "the document of a history state is the text gfapy writes for it "
      "(C01/C05 own the faithfulness of that text); states with placeholder "
      "segments are expanded but not judged",
      "containment direction is not part of the property: containments are "
      "only counted",
      "reference E-line classification anchored on the 800 hand-made labels "
      "of tests/testdata/gfa2_edges_classification.gfa",
      "histories bounded by the depths in coverage.bfs"]
  ctx.extra["reference_anchor"] = anchor_reference()
  run_family(ctx, "gfa1", ge.family_gfa1(ctx.tier, full3=False))
  run_family(ctx, "gfa2_twins", ge.family_gfa2_twins(ctx.tier))
  run_family(ctx, "gfa2_mixed", ge.family_gfa2_mixed(ctx.tier))
  px = CtxProxy(ctx)
  plan = ([("c16.g1", 3), ("c16.g2", 3), ("c16.h1", 4), ("c16.h2", 4)]
          if ctx.quick else
          [("c16.g1", 4), ("c16.g2", 4), ("c16.h1", 5), ("c16.h2", 5)])
  done = {}
  for name, d in plan:
    done[name] = explore.bfs(px, explore.SPECS[name], d)[0]
    ctx.extra.setdefault("phase_s", {})[name] = round(ctx.elapsed(), 1)
  # the same searches from a NON-initial state: the whole graph-shaped
  # universe loaded (branching ends, parallel edges, cycles, a path / group),
  # then every history of removals, renames and re-additions
  d2 = 2 if ctx.quick else 3
  for name, U in (("c16.h1", H1[:12]), ("c16.h2", H2[:12])):
    label = name + "@full"
    done[label] = explore.bfs(px, explore.SPECS[name], d2, label=label,
                              prefix=[("add", l) for l in U])[0]
    ctx.extra.setdefault("phase_s", {})[label] = round(ctx.elapsed(), 1)
  ctx.bound_completed = {"graph_families": "complete", "history_depth": done}
  hashseed_crosscheck(ctx)


def replay(w, ctx):
  if w.get("kind") == "graph":
    doc = R.parse(w["text"], w["version"])
    try:
      with guard():
        g = gfapy.Gfa(w["text"], version=w["version"])
        probs = judge_graph(g, doc)
    except Exception as e:
      probs = [("raises", "{}: {}".format(type(e).__name__,
                                          str(e).split("\n")[0][:100]))]
    if w.get("clause") == "hashseed":
      return []
    fam = w.get("family", "")
    return [mkviolation(c, {"family": fam, "graph": flat(w["text"])}, w,
                        "reference computed from the text", d,
                        standalone_for(w["text"], w["version"]))
            for c, d in probs]
  return explore.replay_witness(w)


if __name__ == "__main__":
  if len(sys.argv) >= 3 and sys.argv[1] == "digest":
    print(json.dumps(digest(sys.argv[2])))
