"""C12 -- a GFA1 link and its complement are one edge.

Engine I (+ arrival orders): every link over {A->B, A->A} x 4 orientation
pairs x overlap in {*} + all 2954 CIGARs of <= 3 operations over
{M,I,D,P,=,X,H} x {1,2}.

  algebra : complement on the text, involution, reference / query lengths
            exchanged, is_same / is_complement / is_eql symmetric, repeatable
            and without side effect, against independently built links
  graph   : adding the complement raises nothing, adds nothing, leaves the
            stored text unchanged; a link differing in orientation, segment or
            (both specified) CIGAR is a second edge
  orders  : {S, S, L, complement, P} in ALL arrival orders: one stored link (the
            first of the two forms that arrived), path.links / captured_path
            find it with orient + iff the path runs in the stored direction
  paths3  : every path of 2..3 oriented segments over {A,B,C}, each edge
            stored in direct or complement form, links first / path first

The expectation comes from gfamc.ref.edges (text level)."""
import itertools
import gfapy
from ..ref import edges as R
from ..runner import (guard, timed_out, h, new_result, mkviolation,
                      fingerprint)
from . import c11

PROPERTY = "C12"
_VL = [1]       # validation level of the lines / Gfa under test
T = "\t".join
ORIENTS = [("+", "+"), ("+", "-"), ("-", "+"), ("-", "-")]
SHAPES = [(f, fo, t, to) for f, t in (("A", "B"), ("A", "A"))
          for fo, to in ORIENTS]
OPS = "MIDP=XH"
SEG = {"A": "S\tA\t*", "B": "S\tB\t*", "C": "S\tC\t*"}


def links(cigars):
  for c in cigars:
    for s in SHAPES:
      yield s + (c,)


def variants(link):
  """Links that differ from `link` in orientation, segment or CIGAR."""
  f, fo, t, to, ov = link
  vs = [("from-orient", (f, R.INV[fo], t, to, ov)),
        ("to-orient", (f, fo, t, R.INV[to], ov)),
        ("segment", (f, fo, "C" if t == "B" else "B", to, ov))]
  if ov != "*":
    v = (f, fo, t, to, ov + "1M")
    vs.append(("cigar", v))
    vs.append(("cigar-complement-form", R.link_complement(v)))
    if R.cigar_complement(ov) != ov:
      # same ends, but the CIGAR of the complement although not complemented
      vs.append(("cigar-not-complemented",
                 R.link_complement(link)[:4] + (ov,)))
  return [(n, v) for n, v in vs if not R.link_same_edge(link, v)]


def _try(fn):
  try:
    return fn()
  except gfapy.Error as e:
    return "<raises {}>".format(type(e).__name__)
  except Exception as e:
    return "<raises! {}: {}>".format(type(e).__name__, str(e)[:60])


# ---------------------------------------------------------------------------
# algebra
# ---------------------------------------------------------------------------


def judge_algebra(link, with_variants=True):
  out = []

  def chk(clause, field, exp, obs):
    if exp != obs:
      out.append((clause, field, exp, obs))
  txt = R.link_text(link)
  ctxt = R.link_text(R.link_complement(link))
  ov = link[4]
  l = gfapy.Line(txt, version="gfa1", vlevel=_VL[0])
  c = _try(lambda: l.complement())
  if isinstance(c, str):
    return [("complement-raises", "complement()", ctxt, c)], None
  chk("complement-text", "str(l.complement())", ctxt, str(c))
  chk("receiver-changed", "str(l) after l.complement()", txt, str(l))
  cc = _try(lambda: c.complement())
  chk("involution", "str(l.complement().complement())", txt,
      cc if isinstance(cc, str) else str(cc))
  chk("receiver-changed", "str(c) after c.complement()", ctxt, str(c))
  l2 = gfapy.Line(txt, version="gfa1", vlevel=_VL[0])
  chk("complement-text", "str(l.make_complement())", ctxt,
      _try(lambda: str(l2.make_complement())))
  chk("involution", "make_complement twice", txt,
      _try(lambda: str(l2.make_complement())))
  if ov != "*":
    r, q = R.cigar_reflen(ov), R.cigar_querylen(ov)
    a = gfapy.Alignment(ov, version="gfa1")
    chk("lengths", "CIGAR reference/query length", [r, q],
        _try(lambda: [a.length_on_reference(), a.length_on_query()]))
    ac = _try(lambda: a.complement())
    if isinstance(ac, str):
      out.append(("complement-raises", "CIGAR.complement()",
                  R.cigar_complement(ov), ac))
    else:
      chk("complement-text", "str(CIGAR.complement())",
          R.cigar_complement(ov), str(ac))
      chk("lengths", "reference/query length of the complement", [q, r],
          _try(lambda: [ac.length_on_reference(), ac.length_on_query()]))
      chk("receiver-changed", "str(CIGAR) after complement()", ov, str(a))
      chk("involution", "CIGAR complement twice", ov,
          _try(lambda: str(ac.complement())))
      chk("lengths", "link complement: lengths exchanged", [q, r], _try(
          lambda: [c.overlap.length_on_reference(),
                   c.overlap.length_on_query()]))
  # equivalence tests against independently built lines
  others = [("itself", link), ("complement", R.link_complement(link))]
  if with_variants:
    others += variants(link)
  for name, v in others:
    vt = R.link_text(v)
    x = gfapy.Line(txt, version="gfa1", vlevel=_VL[0])
    y = gfapy.Line(vt, version="gfa1", vlevel=_VL[0])
    exp = {"is_same": R.link_same(link, v),
           "is_complement": R.link_is_complement(link, v),
           "is_eql": R.link_same_edge(link, v)}
    # symmetric; against the link itself and its complement also repeatable
    rep = 2 if name in ("itself", "complement") else 1
    for m in ("is_same", "is_complement", "is_eql"):
      obs = []
      for _ in range(rep):
        obs.append(_try(lambda: bool(getattr(x, m)(y))))
        obs.append(_try(lambda: bool(getattr(y, m)(x))))
      chk("equivalence", "{}(l, {}) both ways{}".format(
          m, name, ", twice" if rep == 2 else ""), [exp[m]] * (2 * rep), obs)
    chk("argument-changed", "texts after equivalence tests with " + name,
        [txt, vt], [str(x), str(y)])
  # `*` against a specified overlap: WHAT the answer is is left open by the
  # property, but the tests must still be symmetric and repeatable, and a
  # link and its complement must be treated alike
  if ov != "*":
    star = link[:4] + ("*",)
    cstar = R.link_complement(link)[:4] + ("*",)
    for name, v in (("same ends, overlap *", star),
                    ("complement ends, overlap *", cstar)):
      vt = R.link_text(v)
      x = gfapy.Line(txt, version="gfa1", vlevel=_VL[0])
      y = gfapy.Line(vt, version="gfa1", vlevel=_VL[0])
      m = "is_eql"
      a1 = _try(lambda: bool(x.is_eql(y)))
      b1 = _try(lambda: bool(y.is_eql(x)))
      a2 = _try(lambda: bool(x.is_eql(y)))
      chk("equivalence-symmetry", "is_eql(l, {}) vs is_eql({}, l)".format(
          name, name), a1, b1)
      chk("equivalence-symmetry", "is_eql(l, {}) asked twice".format(name),
          a1, a2)
      chk("argument-changed", "texts after equivalence tests with " + name,
          [txt, vt], [str(x), str(y)])
    # the graph treats both forms of the `*` link alike
    res = []
    for v in (star, cstar):
      g = gfapy.Gfa(version="gfa1", vlevel=_VL[0])
      for sl in seg_lines(link):
        g.add_line(sl)
      g.add_line(txt)
      r = _try(lambda: g.add_line(R.link_text(v)))
      res.append(("raises" if isinstance(r, str) else "accepted",
                  len(g.dovetails), str(g.dovetails[0]) if g.dovetails else ""))
    chk("star-forms-treated-differently",
        "add `*` link in direct form vs in complement form to a graph holding l",
        res[0], res[1])
  return out, None


# ---------------------------------------------------------------------------
# graph behaviour
# ---------------------------------------------------------------------------


def seg_lines(*links_):
  names = sorted(set(n for l in links_ for n in (l[0], l[2])))
  return [SEG[n] for n in names]


def check_stored(g, ref_lines, chk, what):
  """The graph holds exactly the links of ref_lines (text), filed on the
  segment ends the reference predicts."""
  exp_links = sorted(x for x in ref_lines if x.startswith("L"))
  chk("stored-links", what + ": gfa.dovetails", exp_links,
      _try(lambda: sorted(str(x) for x in g.dovetails)))
  chk("stored-links", what + ": virtual links", [],
      _try(lambda: [str(x) for x in g.dovetails if x.virtual]))
  segs, _ = R.neighbourhoods(ref_lines)
  for name in sorted(segs):
    for c in ("dovetails_L", "dovetails_R"):
      exp = segs[name][c]
      obs = _try(lambda: sorted(str(x) for x in getattr(g.segment(name), c)))
      if isinstance(obs, list) and sorted(set(obs)) == sorted(set(exp)) and \
          all(1 <= obs.count(k) <= exp.count(k) for k in set(exp)):
        continue
      chk("stored-links", "{}: {}.{}".format(what, name, c), exp, obs)


def judge_graph(link, both_orders=True, with_variants=True):
  out = []
  cur = [None]       # the lines added in the graph being judged

  def chk(clause, field, exp, obs):
    if exp != obs:
      out.append((clause, field, exp, obs, list(cur[0])))
  comp = R.link_complement(link)
  txt, ctxt = R.link_text(link), R.link_text(comp)
  nstates = []
  if txt != ctxt:     # re-adding an EQUAL link is left open by the property
    for first, second, what in ((txt, ctxt, "l then complement"),
                                (ctxt, txt, "complement then l")):
      g = gfapy.Gfa(version="gfa1", vlevel=_VL[0])
      cur[0] = seg_lines(link) + [first, second]
      for s in seg_lines(link):
        g.add_line(s)
      g.add_line(first)
      r = _try(lambda: g.add_line(second))
      chk("complement-refused", what + ": add_line(second form)", None,
          r if isinstance(r, str) else None)
      check_stored(g, seg_lines(link) + [first], chk, what)
      nstates.append(sorted(str(x) for x in g.lines))
  for name, v in (variants(link) if with_variants else ()):
    if link[4] == "*" and v[4] != "*" or link[4] != "*" and v[4] == "*":
      continue
    vt = R.link_text(v)
    for first, second in (((txt, vt), (vt, txt)) if both_orders
                          else ((txt, vt),)):
      g = gfapy.Gfa(version="gfa1", vlevel=_VL[0])
      cur[0] = seg_lines(link, v) + [first, second]
      for s in seg_lines(link, v):
        g.add_line(s)
      g.add_line(first)
      r = _try(lambda: g.add_line(second))
      what = "different link ({})".format(name)
      chk("second-edge", what + ": add_line", None,
          r if isinstance(r, str) else None)
      if not isinstance(r, str):
        check_stored(g, seg_lines(link, v) + [first, second],
                     lambda c, f, e, o: chk("second-edge", f, e, o), what)
      nstates.append(sorted(str(x) for x in g.lines))
  return out, nstates


# ---------------------------------------------------------------------------
# arrival orders of {S, S, L, complement, P}
# ---------------------------------------------------------------------------

FORMS = (("forward", "*"), ("forward", "cigar"), ("reversed", "*"),
         ("reversed", "cigar"))


def path_line(link, form, name="p"):
  f, fo, t, to, ov = link
  direction, ovk = form
  if direction == "forward":
    steps, o = [(f, fo), (t, to)], ov
  else:
    steps, o = [(t, R.INV[to]), (f, R.INV[fo])], R.cigar_complement(ov)
  if ovk == "*":
    o = "*"
  return T(["P", name, ",".join(n + x for n, x in steps), o]), steps, o


def allowed_orients(stored, steps, pov):
  """Orientation flags the path may record for the stored link."""
  f, fo, t, to, ov = stored

  def ovok(a, b):
    return a == "*" or b == "*" or a == b
  al = set()
  if (f, fo) == steps[0] and (t, to) == steps[1] and ovok(ov, pov):
    al.add("+")
  c = R.link_complement(stored)
  if (c[0], c[1]) == steps[0] and (c[2], c[3]) == steps[1] and \
      ovok(c[4], pov):
    al.add("-")
  return al


def check_path(g, pname, steps_list, stored_for_step, povs, chk, what):
  """steps_list: [(name, orient), ...] of the path; stored_for_step[i]: the
  stored link tuple expected for step i; povs[i] the path's overlap."""
  p = _try(lambda: g.line(pname))
  if isinstance(p, str) or p is None:
    chk("path-links", what + ": path", "found", repr(p))
    return
  lk = _try(lambda: list(p.links))
  if isinstance(lk, str):
    chk("path-links", what + ": path.links", "a list", lk)
    return
  chk("path-links", what + ": number of links", len(stored_for_step), len(lk))
  if len(lk) != len(stored_for_step):
    return
  for i, ol in enumerate(lk):
    st = stored_for_step[i]
    step = (steps_list[i], steps_list[(i + 1) % len(steps_list)])
    exp_txt = R.link_text(st)
    chk("path-links", "{}: links[{}].line".format(what, i), [exp_txt, False],
        _try(lambda: [str(ol.line), bool(ol.line.virtual)]))
    inreg = _try(lambda: any(ol.line is x for x in g.dovetails))
    chk("path-links", "{}: links[{}].line is the stored link".format(
        what, i), True, inreg)
    al = allowed_orients(st, step, povs[i])
    obs = _try(lambda: ol.orient)
    if obs not in al:
      chk("path-orient", "{}: links[{}].orient".format(what, i), sorted(al),
          obs)
  cp = _try(lambda: [(x.line.name if x.line.record_type == "S"
                      else str(x.line), x.orient) for x in p.captured_path])
  if isinstance(cp, str):
    chk("captured-path", what + ": captured_path", "a list", cp)
    return
  n = len(steps_list)
  circular = len(stored_for_step) == n and n > 1
  ok = len(cp) == (2 * n - 1 if not circular else 2 * n + 1)
  if ok:
    for i in range(n):
      if cp[2 * i] != steps_list[i]:
        ok = False
    for i in range(len(stored_for_step)):
      st = stored_for_step[i]
      step = (steps_list[i], steps_list[(i + 1) % n])
      e = cp[2 * i + 1]
      if e[0] != R.link_text(st) or \
          e[1] not in allowed_orients(st, step, povs[i]):
        ok = False
    if circular and cp[-1] != steps_list[0]:
      ok = False
  if not ok:
    exp = []
    for i in range(n):
      exp.append(list(steps_list[i]))
      if i < len(stored_for_step):
        st = stored_for_step[i]
        step = (steps_list[i], steps_list[(i + 1) % n])
        exp.append([R.link_text(st),
                    "|".join(sorted(allowed_orients(st, step, povs[i])))])
    if circular:
      exp.append(list(steps_list[0]))
    chk("captured-path", what + ": captured_path", exp,
        [list(x) for x in cp])


def order_docs(link, form):
  comp = R.link_complement(link)
  txt, ctxt = R.link_text(link), R.link_text(comp)
  pl, steps, pov = path_line(link, form)
  doc = {"L": txt, "P": pl}
  for n in sorted(set((link[0], link[2]))):
    doc["S" + n] = SEG[n]
  if ctxt != txt:
    doc["Lc"] = ctxt
  return doc, steps, pov


def judge_order(link, form, perm):
  out = []

  def chk(clause, field, exp, obs):
    if exp != obs:
      out.append((clause, field, exp, obs))
  doc, steps, pov = order_docs(link, form)
  g = gfapy.Gfa(version="gfa1", vlevel=_VL[0])
  for k in perm:
    r = _try(lambda: g.add_line(doc[k]))
    if isinstance(r, str):
      chk("arrival-refused", "add_line({})".format(k), None, r)
      return out, None
  forms = [k for k in perm if k in ("L", "Lc")]
  stored = link if forms[0] == "L" else R.link_complement(link)
  segl = [doc[k] for k in sorted(doc) if k.startswith("S")]
  check_stored(g, segl + [R.link_text(stored)], chk, "after all arrivals")
  check_path(g, "p", steps, [stored], [pov], chk, "after all arrivals")
  return out, sorted(str(x) for x in g.lines)


# ---------------------------------------------------------------------------
# two paths walking ONE link in opposite directions, the link written in
# either form, all arrival orders (a placeholder for the link is created by
# the first path, re-used backwards by the second, replaced by the real link);
# and the complement of the stored link taken after every arrival
# ---------------------------------------------------------------------------

TWO_CIGARS = ("*", "1M1I", "2M1D1M")
SEGV = {"A": ["S\tA\t*", "S\tA\tACGTACGTAC\tRC:i:20"],
        "B": ["S\tB\t*", "S\tB\t*\tLN:i:12"], "C": ["S\tC\t*"]}


def two_cases():
  for link in links(TWO_CIGARS):
    for written in ("direct", "complement"):
      for segv in (0, 1):
        for ovk in (("cigar", "*") if link[4] != "*" else ("*",)):
          yield {"mode": "twopaths", "link": list(link), "written": written,
                 "segv": segv, "ovk": ovk}


def two_doc(case):
  link = tuple(case["link"])
  stored = link if case["written"] == "direct" else R.link_complement(link)
  pl, psteps, pov = path_line(link, ("forward", case["ovk"]), "p")
  ql, qsteps, qov = path_line(link, ("reversed", case["ovk"]), "q")
  doc = {"L": R.link_text(stored), "P": pl, "Q": ql}
  for n in sorted(set((link[0], link[2]))):
    doc["S" + n] = SEGV[n][case["segv"]]
  return doc, stored, (psteps, pov), (qsteps, qov)


def judge_two(case, perm):
  out = []

  def chk(clause, field, exp, obs):
    if exp != obs:
      out.append((clause, field, exp, obs))
  doc, stored, (psteps, pov), (qsteps, qov) = two_doc(case)
  g = gfapy.Gfa(version="gfa1", vlevel=_VL[0])
  snaps = []
  for i, k in enumerate(perm):
    r = _try(lambda: g.add_line(doc[k]))
    if isinstance(r, str):
      chk("arrival-refused", "add_line({})".format(k), None, r)
      return out, None
    real = [l for l in g.dovetails if not l.virtual]
    if real:
      c = _try(lambda: real[0].complement())
      snaps.append((i + 1, c))
  segl = [doc[k] for k in sorted(doc) if k.startswith("S")]
  check_stored(g, segl + [R.link_text(stored)], chk, "after all arrivals")
  check_path(g, "p", psteps, [stored], [pov], chk, "after all arrivals")
  check_path(g, "q", qsteps, [stored], [qov], chk, "after all arrivals")
  # complements taken on the way are the same edge as the stored link
  real = [l for l in g.dovetails if not l.virtual]
  ctext = R.link_text(R.link_complement(stored))
  selfc = (ctext == R.link_text(stored))
  for i, c in snaps:
    what = "complement taken after arrival {}".format(i)
    if isinstance(c, str):
      chk("complement-raises", what, None, c)
      continue
    chk("complement-text", what, ctext.split("\t")[:6], str(c).split("\t")[:6])
    if len(real) == 1:
      link = real[0]
      chk("complement-equivalence", what + ": is_complement both ways",
          (True, True), (_try(lambda: link.is_complement(c)),
                         _try(lambda: c.is_complement(link))))
      chk("complement-equivalence", what + ": is_eql both ways",
          (True, True), (_try(lambda: link.is_eql(c)),
                         _try(lambda: c.is_eql(link))))
      cc = _try(lambda: c.complement())
      if not isinstance(cc, str):
        chk("complement-involution", what + ": complement of it is_same",
            (True, True), (_try(lambda: cc.is_same(link)),
                           _try(lambda: link.is_same(cc))))
  if snaps and not isinstance(snaps[0][1], str) and not selfc:
    before = sorted(str(x) for x in g.lines)
    r = _try(lambda: g.add_line(snaps[0][1]))
    chk("complement-added", "adding the first complement taken", None,
        r if isinstance(r, str) else None)
    chk("complement-added", "lines after adding it", before,
        sorted(str(x) for x in g.lines))
  return out, sorted(str(x) for x in g.lines)


def work_two(chunk):
  res = new_result()
  for case in chunk:
    doc = two_doc(case)[0]
    keys = sorted(doc)
    for perm in itertools.permutations(keys):
      probs, st = _guarded(judge_two, case, list(perm))
      res["evaluations"] += 1
      res["traces"] += 1
      res["transitions"] += len(perm) + 1
      if st is not None:
        res["states"].add(h(["two", st]))
        res["outcomes"].add("twopaths:first={}".format(perm[0]))
        res["nontrivial"].add(h(["two", case, list(perm)]))
      if probs:
        w = dict(case)
        w["perm"] = list(perm)
        res["violations"].extend(mk(
            "twopaths", tuple(case["link"]), probs, w,
            extra=[doc[k] for k in perm],
            more={"written": case["written"], "order": " ".join(perm),
                  "ovk": case["ovk"]}))
  return res


# ---------------------------------------------------------------------------
# paths over {A, B, C} of 2..3 oriented segments
# ---------------------------------------------------------------------------

P3_CIGARS = ("*", "1M1I")


def p3_cases():
  osegs = [(n, o) for n in "ABC" for o in "+-"]
  for n in (2, 3):
    for steps in itertools.product(osegs, repeat=n):
      need = [(steps[i][0], steps[i][1], steps[i + 1][0], steps[i + 1][1])
              for i in range(n - 1)]
      # distinct edges (modulo complement)
      edges = []
      for e in need:
        if not any(R.link_same_end_pair(e + ("*",), x + ("*",))
                   for x in edges):
          edges.append(e)
      for cig in P3_CIGARS:
        for formsel in itertools.product((0, 1), repeat=len(edges)):
          for order in ("links-first", "path-first", "segments-last"):
            yield {"mode": "paths3", "steps": ["".join(s) for s in steps],
                   "cigar": cig, "forms": list(formsel), "order": order}


def p3_doc(case):
  steps = [(s[:-1], s[-1]) for s in case["steps"]]
  cig = case["cigar"]
  n = len(steps)
  need = [(steps[i][0], steps[i][1], steps[i + 1][0], steps[i + 1][1], cig)
          for i in range(n - 1)]
  edges, stored = [], []
  for e in need:
    if not any(R.link_same_end_pair(e, x) for x in edges):
      edges.append(e)
  for e, f in zip(edges, case["forms"]):
    stored.append(R.link_complement(e) if f else e)
  stored_for_step = []
  for e in need:
    for x, st in zip(edges, stored):
      if R.link_same_end_pair(e, x):
        stored_for_step.append(st)
        break
  # the path's overlaps, in the direction of the path
  if cig == "*":
    povs, pov_field = ["*"] * (n - 1), "*"
  else:
    povs = []
    for e, st in zip(need, stored_for_step):
      # the overlap the path must state for this step so that it matches
      # the stored link: the stored CIGAR if the step runs as stored, its
      # complement otherwise
      if (st[0], st[1], st[2], st[3]) == e[:4]:
        povs.append(st[4])
      else:
        povs.append(R.cigar_complement(st[4]))
    pov_field = ",".join(povs)
  pl = T(["P", "p", ",".join(case["steps"]), pov_field])
  segl = [SEG[x] for x in sorted(set(s[0] for s in steps))]
  ll = [R.link_text(x) for x in stored]
  if case["order"] == "links-first":
    lines = segl + ll + [pl]
  elif case["order"] == "path-first":
    lines = segl + [pl] + ll
  else:
    lines = [pl] + ll + segl
  return lines, steps, stored_for_step, povs, segl, ll


def judge_p3(case):
  out = []

  def chk(clause, field, exp, obs):
    if exp != obs:
      out.append((clause, field, exp, obs))
  lines, steps, stored_for_step, povs, segl, ll = p3_doc(case)
  if len(set(ll)) != len(ll):
    return out, None
  g = gfapy.Gfa(version="gfa1", vlevel=_VL[0])
  for x in lines:
    r = _try(lambda: g.add_line(x))
    if isinstance(r, str):
      chk("arrival-refused", "add_line({})".format(x.replace("\t", " ")),
          None, r)
      return out, None
  check_stored(g, segl + ll, chk, "paths3")
  check_path(g, "p", steps, stored_for_step, povs, chk, "paths3")
  return out, sorted(str(x) for x in g.lines)


# ---------------------------------------------------------------------------
# workers
# ---------------------------------------------------------------------------


TIER = {"variants-all": True}


def short(link):
  return link[4] == "*" or len(R.cigar_parse(link[4])) <= 2


def shape_of(link):
  return "{}{} {}{}".format(link[0], link[1], link[2], link[3])


def standalone(mode, link, extra=None):
  txt = R.link_text(link)
  s = ["import gfapy"]
  if mode == "algebra":
    s += ["l = gfapy.Line({!r}, vlevel={})".format(txt, _VL[0]),
          "c = l.complement()",
          "print(l); print(c); print(c.complement())",
          "m = gfapy.Line({!r})".format(
              R.link_text(R.link_complement(link))),
          "print(l.is_complement(m), m.is_complement(l), l.is_eql(m), "
          "l.is_same(m))"]
  elif mode == "graph":
    s += ["g = gfapy.Gfa(version='gfa1', vlevel={})".format(_VL[0])]
    s += ["g.add_line({!r})".format(x) for x in extra]
    s += ["print(g)"]
  else:
    s += ["g = gfapy.Gfa(version='gfa1', vlevel={})".format(_VL[0])]
    s += ["g.add_line({!r})".format(x) for x in extra]
    s += ["print(g)", "p = g.line('p')",
          "print([(str(x.line), x.orient) for x in p.links])",
          "print([str(x) for x in p.captured_path])"]
  return "\n".join(s)


def mk(mode, link, probs, witness, extra=None, more=None):
  vs = []
  for prob in probs:
    clause, field, exp, obs = prob[:4]
    if len(prob) > 4:
      extra = prob[4]
    key = {"mode": mode, "field": field}
    if link is not None:
      key["shape"] = shape_of(link)
      key["overlap"] = link[4]
    if more:
      key.update(more)
    if _VL[0] != 1:
      key["vlevel"] = str(_VL[0])
      witness = dict(witness, vlevel=_VL[0])
    vs.append(mkviolation(clause, key, witness, exp, obs,
                          standalone(mode, link, extra) if link is not None
                          else "\n".join(["import gfapy",
                                          "g = gfapy.Gfa(version='gfa1')"] +
                                         ["g.add_line({!r})".format(x)
                                          for x in extra] +
                                         ["print(g); p = g.line('p')",
                                          "print([(str(x.line), x.orient) "
                                          "for x in p.links])"])))
  return vs


def _guarded(fn, *a):
  try:
    with guard():
      r = fn(*a)
    if timed_out():
      return [("timeout", "case", "terminates", "time budget exceeded")], None
    return r
  except Exception as e:
    if timed_out():
      return [("timeout", "case", "terminates", "time budget exceeded")], None
    # a call outside the individually wrapped ones raised (e.g. writing a
    # line whose lazily parsed overlap is refused only now): no answer
    return [("raises", "case", "no exception", "{}: {}".format(
        type(e).__name__, str(e).replace("\n", " / ")[:160]))], None
  except BaseException:
    if timed_out():
      return [("timeout", "case", "terminates", "time budget exceeded")], None
    raise


def work_algebra(chunk):
  res = new_result()
  for link in chunk:
    link = tuple(link)
    wv = TIER["variants-all"] or short(link)
    probs, _ = _guarded(judge_algebra, link, wv)
    res["evaluations"] += 1
    res["traces"] += 1
    res["transitions"] += 6 + 24 + (6 * len(variants(link)) if wv else 0)
    comp = R.link_complement(link)
    res["states"].add(h(["alg", R.link_text(comp)]))
    if R.cigar_complement(link[4]) != link[4]:
      res["nontrivial"].add(h(["alg", link]))
    res["outcomes"].add("algebra:" + ("self-complementary" if comp == link
                                      else "distinct complement"))
    res["violations"].extend(mk("algebra", link, probs,
                                {"mode": "algebra", "link": list(link)}))
  return res


def work_levels(item):
  """algebra + graph + two-paths for a chunk of links at another validation
  level (0: overlaps are parsed lazily; 3: every read is validated)."""
  vl, links_, twos = item
  _VL[0] = vl
  try:
    res = work_algebra(links_)
    for other in (work_graph(links_), work_two(twos)):
      for k in ("evaluations", "traces", "transitions"):
        res[k] += other[k]
      for k in ("states", "nontrivial", "outcomes"):
        res[k] |= other[k]
      res["violations"].extend(other["violations"])
      res["samples"].extend(other["samples"])
    res["outcomes"] = set("vlevel{}:{}".format(vl, o) for o in res["outcomes"])
  finally:
    _VL[0] = 1
  return res


def work_graph(chunk):
  res = new_result()
  for link in chunk:
    link = tuple(link)
    # the different link arriving first is exercised for overlaps of <= 2
    # operations only (cost)
    r = _guarded(judge_graph, link, short(link),
                 TIER["variants-all"] or short(link))
    probs, states = r
    res["evaluations"] += 1
    res["traces"] += 1
    for st in states or ():
      res["states"].add(h(["graph", st]))
      res["transitions"] += len(st) + 0
      res["outcomes"].add("graph:{} link(s) stored".format(
          sum(1 for x in st if x.startswith("L"))))
    if R.cigar_complement(link[4]) != link[4]:
      res["nontrivial"].add(h(["graph", link]))
    txt = R.link_text(link)
    ctxt = R.link_text(R.link_complement(link))
    res["violations"].extend(mk(
        "graph", link, probs, {"mode": "graph", "link": list(link)},
        extra=seg_lines(link) + [txt, ctxt]))
  return res


def work_orders(chunk):
  res = new_result()
  for link, form, perms in chunk:
    link = tuple(link)
    doc, steps, pov = order_docs(link, tuple(form))
    keys = sorted(doc)
    if perms == "all":
      perms = list(itertools.permutations(keys))
    for perm in perms:
      if set(perm) != set(keys):
        # fixed orders are written for the 5-line document
        perm = [k for k in perm if k in doc]
      r = _guarded(judge_order, link, tuple(form), perm)
      probs, st = r
      res["evaluations"] += 1
      res["traces"] += 1
      res["transitions"] += len(perm)
      if st is not None:
        res["states"].add(h(["order", st]))
        stored_first = [k for k in perm if k in ("L", "Lc")][0]
        res["outcomes"].add("orders:stored={} path={}".format(
            stored_first, form[0]))
      if R.cigar_complement(link[4]) != link[4]:
        res["nontrivial"].add(h(["order", link, form, list(perm)]))
      if probs:
        res["violations"].extend(mk(
            "orders", link, probs,
            {"mode": "orders", "link": list(link), "form": list(form),
             "perm": list(perm)},
            extra=[doc[k] for k in perm],
            more={"path": "/".join(form), "order": " ".join(perm)}))
      elif h([link, form, list(perm)])[:3] == "000":
        res["samples"].append({"mode": "orders", "arrival": [
            doc[k].replace("\t", " ") for k in perm]})
  return res


def work_p3(chunk):
  res = new_result()
  for case in chunk:
    probs, st = _guarded(judge_p3, case)
    res["evaluations"] += 1
    if st is None and not probs:
      res["outcomes"].add("paths3:skipped (two stored links with equal text)")
      continue
    res["traces"] += 1
    res["transitions"] += len(st or ())
    if st is not None:
      res["states"].add(h(["p3", st]))
      res["outcomes"].add("paths3:{} link(s)".format(
          sum(1 for x in st if x.startswith("L"))))
      res["nontrivial"].add(h(["p3", case]))
    if probs:
      res["violations"].extend(mk(
          "paths3", None, probs, case, extra=p3_doc(case)[0],
          more={"steps": ",".join(case["steps"]), "cigar": case["cigar"],
                "forms": "".join(map(str, case["forms"])),
                "order": case["order"]}))
    elif h(case)[:2] == "00":
      res["samples"].append(case)
  return res


# ---------------------------------------------------------------------------
# run
# ---------------------------------------------------------------------------

FIXED_ORDERS_QUICK = [("SA", "SB", "L", "Lc", "P"), ("P", "Lc", "L", "SB", "SA")]
FIXED_ORDERS_THOROUGH = FIXED_ORDERS_QUICK + [
    ("SA", "SB", "Lc", "L", "P"), ("L", "P", "Lc", "SA", "SB")]
QUICK_SHAPES_3OPS = (("A", "+", "B", "-"), ("A", "-", "A", "-"))
QUICK_ORDER_CIGARS = ["*", "1M", "1I", "2D", "1P", "1M1I", "1I1D", "1D2M"]


def chunks(xs, n):
  for i in range(0, len(xs), n):
    yield xs[i:i + n]


def merge_dedup(ctx, results, seen, per_class, counter):
  """Keep the first 3 witnesses (enumeration is shortest-first) per
  (clause, mode, field, shape); the rest are counted."""
  for r in results:
    vs = r.pop("violations")
    r["violations"] = []
    ctx.merge(r)
    for v in vs:
      fp = fingerprint(v["clause"], v["key"])
      if fp in seen:
        counter[0] += 1
        continue
      cls = (v["clause"], v["key"].get("mode"), v["key"].get("field"),
             v["key"].get("shape"), v["key"].get("path"))
      if per_class.get(cls, 0) >= 3:
        counter[0] += 1
        continue
      per_class[cls] = per_class.get(cls, 0) + 1
      seen.add(fp)
      ctx.violation(v)


def run(ctx):
  c11.selftest()
  full = ["*"] + R.all_cigars(OPS, (1, 2), 3)
  assert len(full) == 2955
  short_cigs = R.all_cigars(OPS, (1, 2), 2)
  if ctx.quick:
    TIER["variants-all"] = False
    order_cigs = QUICK_ORDER_CIGARS
    fixed = FIXED_ORDERS_QUICK
    fixed_forms = [("forward", "cigar"), ("reversed", "cigar")]
    fixed_cigs = short_cigs
  else:
    TIER["variants-all"] = True
    # every arrival order: *, all CIGARs of one operation, and all CIGARs of
    # two operations of length 1 (64 overlaps)
    order_cigs = ["*"] + R.all_cigars(OPS, (1, 2), 1) + \
        R.all_cigars(OPS, (1,), 2)[len(OPS):]
    fixed = FIXED_ORDERS_THOROUGH
    fixed_forms = list(FORMS)
    fixed_cigs = full[1:]
  ctx.rule = ("one case = one link (algebra / graph) or one link + path form "
              "+ arrival order; non-trivial = the CIGAR differs from its own "
              "complement (so a wrong direction is visible)")
  ctx.alphabet = {
      "links": {"topology": ["A->B", "A->A"],
                "orientations": ["".join(o) for o in ORIENTS],
                "overlap": "* + all {} CIGARs of <= 3 ops over {} x "
                           "{{1,2}}".format(len(full) - 1, OPS),
                "restriction": "quick: CIGARs of 3 ops with the shapes "
                               "A+B- and A-A- only" if ctx.quick else "none"},
      "different links": ["from orientation inverted", "to orientation "
                          "inverted", "other to-segment", "CIGAR + 1M",
                          "complement form of CIGAR + 1M",
                          "complement ends with the CIGAR not complemented"],
      "all-arrival-orders": {"lines": ["S A", "S B", "L", "complement of L",
                                       "P p"],
                             "overlaps": len(order_cigs),
                             "path forms": ["/".join(f) for f in FORMS]},
      "fixed-arrival-orders": {"orders": [" ".join(o) for o in fixed],
                               "overlaps": len(fixed_cigs),
                               "path forms": ["/".join(f)
                                              for f in fixed_forms]},
      "different links exercised for": "all overlaps" if not ctx.quick
      else "overlaps of <= 2 operations",
      "paths3": {"oriented segments": "{A,B,C} x {+,-}", "length": [2, 3],
                 "overlap": list(P3_CIGARS),
                 "stored form per edge": ["as traversed", "complement"],
                 "order": ["links-first", "path-first", "segments-last"]}}
  ctx.assumptions = [
      "S and N operations are outside the property",
      "`*` against a specified overlap on the same end pair and re-adding a "
      "textually equal link (incl. a link that is its own complement) are "
      "left open and not exercised",
      "a path step that matches the stored link both directly and as its "
      "complement (A+ -> A-) may record either orientation flag",
      "CIGARs are compared textually (1M1M is not 2M)"]
  seen, per_class, counter = set(), {}, [0]
  if ctx.quick:
    # overlaps of 3 operations with one A->B and one A->A shape only
    all_links = [l for l in links(full)
                 if short(l) or l[:4] in QUICK_SHAPES_3OPS]
  else:
    all_links = list(links(full))
  merge_dedup(ctx, ctx.pmap(work_algebra, list(chunks(all_links, 60)),
                            chunksize=1), seen, per_class, counter)
  t1 = ctx.elapsed()
  merge_dedup(ctx, ctx.pmap(work_graph, list(chunks(all_links, 40)),
                            chunksize=1), seen, per_class, counter)
  t2 = ctx.elapsed()
  items = []
  for link in links(order_cigs):
    for form in FORMS:
      if link[4] == "*" and form[1] == "cigar":
        continue
      items.append((link, form, "all"))
  merge_dedup(ctx, ctx.pmap(work_orders, list(chunks(items, 2)),
                            chunksize=1), seen, per_class, counter)
  t3 = ctx.elapsed()
  items2 = []
  for link in links(fixed_cigs):
    for form in fixed_forms:
      items2.append((link, form, fixed))
  merge_dedup(ctx, ctx.pmap(work_orders, list(chunks(items2, 40)),
                            chunksize=1), seen, per_class, counter)
  t4 = ctx.elapsed()
  p3 = list(p3_cases())
  merge_dedup(ctx, ctx.pmap(work_p3, list(chunks(p3, 100)), chunksize=1),
              seen, per_class, counter)
  two = list(two_cases())
  merge_dedup(ctx, ctx.pmap(work_two, list(chunks(two, 2)), chunksize=1),
              seen, per_class, counter)
  # the other validation levels: links with overlaps of <= 2 operations
  lv_links = [l for l in links(short_cigs + ["*"])]
  lv_items = []
  for vl in (0, 3):
    cl = list(chunks(lv_links, 60))
    ct = list(chunks(two, max(1, len(two) // len(cl) + 1)))
    for i, c in enumerate(cl):
      lv_items.append((vl, c, ct[i] if i < len(ct) and ctx.tier != "quick"
                       else (ct[i][:1] if i < len(ct) else [])))
  merge_dedup(ctx, ctx.pmap(work_levels, lv_items, chunksize=1),
              seen, per_class, counter)
  ctx.alphabet["levels"] = ("algebra, graph (and twopaths: thorough all, "
                            "quick a slice) again at vlevel 0 and 3 for "
                            "overlaps of <= 2 operations")
  ctx.alphabet["twopaths"] = {
      "lines": ["S..", "L (direct or complement form)", "P p forwards",
                "P q backwards"], "overlaps": list(TWO_CIGARS),
      "segments": "bare / with sequence, LN and tags",
      "orders": "all", "complement": "taken after every arrival"}
  ctx.bound_completed = {"twopaths cases (x all orders)": len(two),
                         "links": len(all_links),
                         "all-order items (link x path form)": len(items),
                         "fixed-order items": len(items2),
                         "paths3 cases": len(p3)}
  ctx.extra["violating_cases_not_kept"] = counter[0]
  ctx.extra["phase_seconds"] = {"algebra": round(t1, 1),
                                "graph": round(t2 - t1, 1),
                                "all-orders": round(t3 - t2, 1),
                                "fixed-orders": round(t4 - t3, 1),
                                "paths3": round(ctx.elapsed() - t4, 1)}


def replay(w, ctx):
  _VL[0] = w.get("vlevel", 1)
  mode = w["mode"]
  if mode == "algebra":
    link = tuple(w["link"])
    return mk("algebra", link, _guarded(judge_algebra, link, True)[0], w)
  if mode == "graph":
    link = tuple(w["link"])
    probs, _ = _guarded(judge_graph, link, True, True)
    return mk("graph", link, probs, w,
              extra=seg_lines(link) + [R.link_text(link), R.link_text(
                  R.link_complement(link))])
  if mode == "orders":
    link, form, perm = tuple(w["link"]), tuple(w["form"]), w["perm"]
    doc, _, _ = order_docs(link, form)
    probs, _ = _guarded(judge_order, link, form, perm)
    return mk("orders", link, probs, w, extra=[doc[k] for k in perm],
              more={"path": "/".join(form), "order": " ".join(perm)})
  if mode == "twopaths":
    probs, _ = _guarded(judge_two, w, w["perm"])
    doc = two_doc(w)[0]
    return mk("twopaths", tuple(w["link"]), probs, w,
              extra=[doc[k] for k in w["perm"]],
              more={"written": w["written"], "order": " ".join(w["perm"]),
                    "ovk": w["ovk"]})
  probs, _ = _guarded(judge_p3, w)
  return mk("paths3", None, probs, w, extra=p3_doc(w)[0],
            more={"steps": ",".join(w["steps"]), "cigar": w["cigar"],
                  "forms": "".join(map(str, w["forms"])),
                  "order": w["order"]})
