"""C10 -- read-only operations never modify anything.

State corpus
  * every state of the history search (Engine H) on universe G1 / G2 to depth
    3 (quick tier: depth 2), rebuilt by replay,
  * one document per record type x tag datatype (the C19 corpus: every record
    type with its references resolved, each tag datatype alone and all
    together), multi-valued headers, documents with dangling references
    (virtual lines), at validation levels 0, 1, 3 (quick: 0, 1),
  * vlevel-0 documents whose lazily decoded fields are spelled in a valid but
    non-canonical way (own clause text-normalised-on-read, see below),
  * stand-alone alignment / position / oriented values (check_values).
Query menu: every public read-only call on the Gfa, on each line and on each
alignment / position / oriented-identifier value (tables below, written by
hand from the API documentation; mutators are left out, and so are the two
documented exceptions: to_gfa2* of an unnamed connected L/C assigns an ID, and
unused_name() advances a counter).  Iterating a Placeholder (list(p)) is left
out because it does not terminate (C07's domain).

Oracle
  frame       deep observation (purity.deep_obs) identical before and after
              every (state, query) -- each query is asked twice in a row; the
              observation is taken after every 16 (thorough: 8) queries and a
              difference is located by re-running that chunk on a fresh
              replica with an observation after every query
  twice       canonical result of q asked twice is identical
  argument    arguments handed to q are unchanged by q
  sequence    the whole menu is run forwards on one replica and backwards on
              another: the answer of every query is the same in both orders
              (so every ordered pair of the FULL menu occurs in one tested
              sequence); a difference is located with fresh replicas and
              reported as a pair if one earlier query suffices
  pair        isolated ordered pairs against fresh replicas: result of q2
              after q1 == result of q2 asked first on a fresh replica.
              Pair menu = one representative per query family x the same
              (quick); thorough adds q1 = one instance of EVERY query kind
              (record kind x operation x field datatype) against the
              families of the same receiver, the Gfa-level probes and str()
              of every other line (on depth-3 history states only the
              latter, for the time budget)
  sequence-frame  deep observation unchanged at the end of every sequence
  text-normalised-on-read  (lazy non-canonical corpus only) a frame violation
              whose new text is exactly the text the same document has when
              parsed eagerly at vlevel 1
Exceptions raised by a query are outcomes (they must be the same both times).
"""
import json
import gfapy
from .. import explore, universe, observe, purity
from ..purity import canon, deep_obs, line_table, run_query, qstr, qpy, safe_str
from ..runner import guard, timed_out, h, new_result, mkviolation, \
    HarnessTimeout
from . import c19 as corpus19

PROPERTY = "C10"
T = "\t".join


# ------------------------------------------------------------ the states ---

class S(explore.Spec):
  def judge(self, g, env, hist, op, err):
    return []

  def nontrivial(self, g, env):
    return True


S(name="c10.g1", universe=universe.G1, version="gfa1", rename_targets=("Z", "B"))
# (plus ordered groups that BEGIN with an edge walked backwards, and that
# list an edge backwards in a later position)
G2X = list(universe.G2) + ["\t".join(["O", "o5", "e1- a-"]),
                           "\t".join(["O", "o6", "b- e1- a-"])]
S(name="c10.g2", universe=G2X, version="gfa2", rename_targets=("z", "b"))
S(name="c10.g1core", universe=universe.G1_CORE, version="gfa1",
  rename_targets=("Z",))
S(name="c10.g2core", universe=universe.G2_CORE, version="gfa2",
  rename_targets=("z",))


def collect_states(ctx, spec, depth):
  """Level-synchronous BFS (explore.expand does replay + dedup key); returns
  the list of histories, shortest first, one per distinct canonical state."""
  with guard(30):
    k0 = spec.key(spec.init(), explore.Env())
  seen = {k0}
  out = [[]]
  frontier = [[]]
  for d in range(1, depth + 1):
    nxt = []
    for r in ctx.pmap(explore.expand, [(spec.name, hst) for hst in frontier]):
      for k, hst, nt in r["succ"]:
        if k not in seen:
          seen.add(k)
          nxt.append(hst)
    out += nxt
    frontier = nxt
    if not frontier:
      break
  return out


LAZY_DOCS = [
    # (name, version, lines, datatype) -- valid, but not spelled the way gfapy
    # itself writes the value; decoded lazily at vlevel 0
    ("lazy.B.int", "gfa1", ["S\tA\t*\txb:B:i,1,2"], "B"),
    ("lazy.B.float", "gfa1", ["S\tA\t*\txb:B:f,1,2.50"], "B"),
    ("lazy.J", "gfa1", ['S\tA\t*\txj:J:{"a":1,"b":[1,2]}'], "J"),
    ("lazy.cigar1", "gfa1", ["S\tA\t*", "S\tB\t*", "L\tA\t+\tB\t+\t02M"],
     "alignment_gfa1"),
    ("lazy.cigar2", "gfa2", ["S\ta\t4\t*", "S\tb\t4\t*",
                             "E\te\ta+\tb+\t2\t4$\t0\t2\t02M"],
     "alignment_gfa2"),
    ("lazy.pathcigar", "gfa1", ["S\tA\t*", "S\tB\t*", "L\tA\t+\tB\t+\t2M",
                                "P\tp\tA+,B+\t02M"], "alignment_list_gfa1"),
]


def doc_items(quick):
  vlevels = (0, 1) if quick else (0, 1, 3)
  items = []
  nt = len(corpus19.TAGS)
  tagsets = [()] + [(i,) for i in range(nt)] + [tuple(range(nt))]
  for t in corpus19.TEMPLATES:
    for ts in tagsets:
      if t[2].startswith("#") and ts:
        continue
      single = 0 < len(ts) < nt
      for vl in (((0, 1) if single else (0, 1, 3)) if quick else
                 ((0, 1, 3) if single else (0, 1, 2, 3))):
        lines = list(t[3]) + [corpus19.line_text(t[0], ts)]
        items.append({"kind": "doc", "name": t[0], "version": t[1],
                      "vlevel": vl, "lines": lines})
  for m in corpus19.MULTI_HEADERS:
    for vl in vlevels:
      items.append({"kind": "doc", "name": m[0], "version": m[1],
                    "vlevel": vl, "lines": list(m[2])})
  # dangling references (virtual lines in the state)
  for name in ("L.cigar", "C.cigar", "P.cigars", "E.cigar", "G.var", "F.cigar",
               "O", "U"):
    t = corpus19.TEMPLATE_BY_NAME[name]
    for vl in vlevels:
      items.append({"kind": "doc", "name": name + ".dangling",
                    "version": t[1], "vlevel": vl, "lines": [t[2]]})
  for name, ver, lines, dt in LAZY_DOCS:
    items.append({"kind": "doc", "name": name, "version": ver, "vlevel": 0,
                  "lines": lines, "lazy": dt})
  return items


def build(item):
  if item["kind"] == "hist":
    spec = explore.SPECS[item["spec"]]
    return explore.replay(spec, [tuple(o) for o in item["hist"]])[0]
  g = gfapy.Gfa(version=item["version"], vlevel=item["vlevel"])
  for l in item["lines"]:
    g.add_line(l)
  return g


def state_py(item):
  if item["kind"] == "hist":
    spec = explore.SPECS[item["spec"]]
    L = ["import gfapy",
         "g = gfapy.Gfa(version={!r}, vlevel={!r})".format(spec.version,
                                                           spec.vlevel)]
    L += [explore.op_to_py(tuple(o)) for o in item["hist"]]
  else:
    L = ["import gfapy",
         "g = gfapy.Gfa(version={!r}, vlevel={!r})".format(item["version"],
                                                           item["vlevel"])]
    L += ["g.add_line({!r})".format(l) for l in item["lines"]]
  L.append("T = g.lines + [g.header]")
  return L


# -------------------------------------------------------------- the menu ---
# Tables are written by hand; nothing is derived from gfapy's class tables
# except the field names of a concrete line (positional_fieldnames, tagnames),
# which are themselves queries of the menu.

GFA_ATTRS = ["version", "vlevel", "dialect", "header", "headers", "lines",
             "comments", "segments", "edges", "dovetails", "containments",
             "paths", "sets", "gaps", "fragments", "custom_records",
             "custom_record_keys", "names", "segment_names", "edge_names",
             "gap_names", "set_names", "path_names", "external_names",
             "n_dovetails", "n_containments", "n_internals", "n_dead_ends",
             "n_input_header_lines"]
GFA_CALLS = [("validate", []), ("connected_components", []),
             ("linear_paths", []), ("linear_paths", [["lit", True]]),
             ("is_rgfa", [])]

LINE_ATTRS = ["record_type", "version", "dialect", "virtual", "vlevel",
              "positional_fieldnames", "tagnames", "all_references", "gfa"]
META_ATTRS = ("record_type", "version", "dialect", "virtual", "vlevel")
LINE_CALLS = [("is_connected", []), ("to_list", []),
              ("to_list", [["lit", False]]), ("to_str", []),
              ("to_str", [["lit", False]]), ("refstr", []), ("clone", []),
              ("validate", [])]

SEG_ATTRS = ["name", "length", "dovetails", "dovetails_L", "dovetails_R",
             "gaps", "gaps_L", "gaps_R", "containments", "edges_to_contained",
             "edges_to_containers", "internals", "edges", "fragments", "paths",
             "sets", "neighbours", "neighbours_L", "neighbours_R", "containers",
             "contained"]
SEG_CALLS = [("dovetails_of_end", [["lit", "L"]]),
             ("dovetails_of_end", [["lit", "R"]]),
             ("gaps_of_end", [["lit", "L"]]), ("gaps_of_end", [["lit", "R"]]),
             ("neighbours_of_end", [["lit", "L"]]),
             ("neighbours_of_end", [["lit", "R"]]),
             ("try_get_length", []), ("coverage", []), ("try_get_coverage", []),
             ("__str__", [["lit", True]])]
EDGE1_ATTRS = ["name", "eid", "sid1", "sid2", "beg1", "end1", "beg2", "end2",
               "alignment", "from_coords", "to_coords", "from_end", "to_end",
               "from_name", "to_name", "oriented_from", "oriented_to",
               "overlap", "from_segment", "to_segment", "from_orient",
               "to_orient"]
EDGE_CALLS = [("is_circular", []), ("is_circular_same_end", []),
              ("is_containment", []), ("is_dovetail", []), ("is_internal", [])]
LINK_CALLS = [("complement", []), ("is_canonical", [])]
CONT_ATTRS = ["pos", "rpos", "container", "contained", "container_orient",
              "contained_orient"]
CONT_CALLS = [("is_canonical", [])]
PATH_ATTRS = ["name", "path_name", "segment_names", "overlaps", "links",
              "captured_edges", "captured_path", "captured_segments", "paths"]
PATH_CALLS = [("is_circular", []), ("is_linear", [])]
E_ATTRS = ["name", "eid", "sid1", "sid2", "beg1", "end1", "beg2", "end2",
           "alignment", "overlap", "from_end", "to_end", "from_name", "to_name",
           "from_orient", "to_orient", "from_segment", "to_segment",
           "oriented_from", "oriented_to", "pos", "paths", "sets"]
E_CALLS = [("validate_positions", [])]
G_ATTRS = ["name", "gid", "sid1", "sid2", "disp", "var", "sets"]
F_ATTRS = ["sid", "external", "s_beg", "s_end", "f_beg", "f_end", "alignment"]
F_CALLS = [("validate_positions", [])]
O_ATTRS = ["name", "pid", "items", "captured_edges", "captured_path",
           "captured_segments", "paths", "sets"]
U_ATTRS = ["name", "pid", "items", "induced_set", "induced_edges_set",
           "induced_segments_set", "sets"]
COMMENT_ATTRS = ["content", "spacer"]
HEADER_ATTRS = ["VN", "TS"]

ALN_OPS = [["str"], ["repr"], ["len"], ["bool"], ["list"],
           ["call", "complement", []], ["call", "validate", []],
           ["call", "length_on_reference", []], ["call", "length_on_query", []],
           ["eq", ["aln", "2M1I", "gfa1"]], ["eq", ["lit", "*"]]]
CIGAR_OP_OPS = [["str"], ["repr"], ["len"], ["call", "validate", []],
                ["attr", "code"], ["attr", "length"]]
POS_OPS = [["str"], ["repr"], ["int"], ["sub", ["lit", 0]], ["sub", ["lit", 1]],
           ["lt", ["lit", 3]], ["eq", ["lit", 4]], ["eq", ["lastpos", 4]],
           ["call", "validate", []], ["hash"]]
OL_OPS = [["str"], ["repr"], ["attr", "name"], ["attr", "line"],
          ["attr", "orient"], ["call", "inverted", []], ["call", "validate", []],
          ["eq", ["lit", "a+"]], ["eq", ["lit", ["A", "+"]]]]
LIST_OPS = [["len"], ["list"], ["str"], ["repr"]]
JSON_OPS = [["len"], ["str"], ["repr"], ["bool"]]


def rkind(l):
  """Record kind used to choose the table and to reduce the pair menu."""
  rt = observe.rt_of(l)
  if isinstance(l, gfapy.line.CustomRecord):
    return "custom"
  if isinstance(l, gfapy.line.Unknown):
    return "unknown"
  if rt == "S":
    rt = "S1" if isinstance(l, gfapy.line.segment.GFA1) else "S2"
  if observe.is_virtual(l):
    rt += "v"
  return rt


def _q(recv, op):
  return {"recv": recv, "op": op}


def has_unnamed_connected_lc(g):
  for l in list(g._gfa1_links) + list(g._gfa1_containments):
    if not l.get("ID"):
      return True
  return False


def make_menu(g, tab, item):
  """Deterministic list of (group, query) for one state.  `group` names the
  query kind (receiver kind + operation without instance-specific arguments);
  the reduced menu keeps the first query of each group."""
  M = []

  def add(group, recv, op, kind=None):
    M.append((group, coarse(kind or group), _q(recv, op)))

  G = ["g"]
  add("g.str", G, ["str"])
  for a in GFA_ATTRS:
    add("g." + a, G, ["attr", a],
        "g.meta" if a in ("version", "vlevel", "dialect",
                          "n_input_header_lines") else None)
  for name, args in GFA_CALLS:
    add("g.{}({})".format(name, len(args)), G, ["call", name, args])
  gfa1 = g.version == "gfa1"
  id_caveat = gfa1 and has_unnamed_connected_lc(g)
  add("g.to_gfa1_s", G, ["call", "to_gfa1_s", []])
  add("g.to_gfa1", G, ["call", "to_gfa1", []])
  if not id_caveat:
    add("g.to_gfa2_s", G, ["call", "to_gfa2_s", []])
    add("g.to_gfa2", G, ["call", "to_gfa2", []])
  names = [n for n in g.names if isinstance(n, str)]
  for n in names + ["nope", "*"]:
    for m in ("line", "try_get_line", "segment", "try_get_segment"):
      add("g.{}(name)".format(m) if n in names else "g.{}({})".format(m, n),
          G, ["call", m, [["lit", n]]])
    add("g.select(name)", G, ["call", "select", [["lit", {"name": n}]]])
  for k in list(g.custom_record_keys) + ["Q"]:
    add("g.custom_records_of_type", G,
        ["call", "custom_records_of_type", [["lit", k]]])
  for x in list(g.external_names) + ["nope"]:
    add("g.fragments_for_external", G,
        ["call", "fragments_for_external", [["lit", x]]])
  rts = []
  for i, l in enumerate(tab):
    rt = observe.rt_of(l)
    if rt not in rts and rt not in ("H", "\n"):
      rts.append(rt)
  for rt in rts:
    add("g.select(rt)", G, ["call", "select", [["lit", {"record_type": rt}]]])

  hdr = None
  try:
    hdr = g.header
  except Exception:
    pass
  for i, l in enumerate(tab):
    rt = observe.rt_of(l)
    if rt == "H" and l is not hdr:
      continue  # g.headers are copies made for the occasion, not state
    k = rkind(l)
    R = ["line", i]
    P = k + "."
    # ---- Gfa-level queries that take this line ---------------------------
    add("g.line(" + k + ")", G, ["call", "line", [["line", i]]])
    if rt not in ("H", "#", "\n") and k != "custom":
      text = safe_str(l)
      add("g.select(line " + k + ")", G,
          ["call", "select", [["newline", text, l.version]]])
    if rt == "S":
      add("g.segment(S)", G, ["call", "segment", [["line", i]]])
      for m in ("segment_connected_component", "linear_path",
                "is_cut_segment"):
        add("g." + m + "(name)", G, ["call", m, [["name", i]]])
      add("g.segment_connected_component(S)", G,
          ["call", "segment_connected_component", [["line", i]]])
      add("g.linear_path(S)", G, ["call", "linear_path", [["line", i]]])
    if rt in ("L", "E"):
      add("g.is_cut_link(" + rt + ")", G,
          ["call", "is_cut_link", [["line", i]]])
    # ---- the line itself ------------------------------------------------
    add(P + "str", R, ["str"])
    add(P + "repr", R, ["repr"])
    add(P + "hash", R, ["hash"])
    for a in LINE_ATTRS:
      add(P + a, R, ["attr", a], P + "meta" if a in META_ATTRS else None)
    for name, args in LINE_CALLS:
      add(P + "{}({})".format(name, len(args)), R, ["call", name, args])
    add(P + "to_gfa1_s", R, ["call", "to_gfa1_s", []])
    add(P + "to_gfa1", R, ["call", "to_gfa1", [], {"raise_on_failure":
                                                   ["lit", False]}])
    lc_caveat = rt in ("L", "C") and l.is_connected() and not l.get("ID")
    if rt == "P" and l.is_connected():
      # converting a path converts (and therefore identifies) its links: the
      # same documented ID assignment, one step removed
      try:
        lc_caveat = any(not ol.line.get("ID") for ol in l.links)
      except Exception:
        lc_caveat = True
    if not lc_caveat:
      add(P + "to_gfa2_s", R, ["call", "to_gfa2_s", []])
      add(P + "to_gfa2", R, ["call", "to_gfa2", [], {"raise_on_failure":
                                                     ["lit", False]}])
    add(P + "==self", R, ["eq", ["line", i]])
    add(P + "==text", R, ["eq", ["newline", safe_str(l), l.version]]
        if rt not in ("\n",) and not observe.is_virtual(l) else
        ["eq", ["lit", safe_str(l)]])
    add(P + "==str", R, ["eq", ["lit", "A"]])
    add(P + "!=None", R, ["ne", ["lit", None]])
    add(P + "diff(self)", R, ["call", "diff", [["line", i]]])
    add(P + "diffscript(self)", R,
        ["call", "diffscript", [["line", i], ["lit", "x"]]])
    for j, o in enumerate(tab):
      if j != i and not (observe.rt_of(o) == "H" and o is not hdr):
        ko = rkind(o)
        add(P + "==" + ko, R, ["eq", ["line", j]],
            P + ("==same-rt" if observe.rt_of(o) == rt else "==other-rt"))
        if observe.rt_of(o) == rt:
          add(P + "diff(" + ko + ")", R, ["call", "diff", [["line", j]]])
          add(P + "diffscript(" + ko + ")", R,
              ["call", "diffscript", [["line", j], ["lit", "x"]]])
    # ---- every field -----------------------------------------------------
    try:
      pos = list(l.positional_fieldnames)
      tags = list(l.tagnames)
    except Exception:
      pos, tags = [], []
    fields = [(f, "pos") for f in pos] + [(f, "tag") for f in tags] + \
        [("name", "alias"), ("zz", "undef")]
    for f, fk in fields:
      try:
        dt = l.get_datatype(f) if fk != "undef" else "none"
      except Exception:
        dt = "?"
      F = "{}{}:{}.".format(P, f, dt)
      KF = "{}{}:{}.".format(P, fk, dt)
      add(F + "get", R, ["call", "get", [["lit", f]]], KF + "get")
      add(F + "try_get", R, ["call", "try_get", [["lit", f]]], KF + "try_get")
      add(F + "attr", R, ["attr", f], KF + "attr")
      add(F + "try_get_x", R, ["call", "try_get_" + f, []], KF + "try_get_x")
      add(F + "field_to_s", R, ["call", "field_to_s", [["lit", f]]],
          KF + "field_to_s")
      add(F + "field_to_s(tag)", R,
          ["call", "field_to_s", [["lit", f], ["lit", True]]],
          KF + "field_to_s(tag)")
      add(F + "get_datatype", R, ["call", "get_datatype", [["lit", f]]],
          KF + "get_datatype")
      add(F + "validate_field", R, ["call", "validate_field", [["lit", f]]],
          KF + "validate_field")
      if fk in ("pos", "tag"):
        value_queries(M, F, P, l, i, f)
    # ---- record-type specific --------------------------------------------
    def attrs(lst):
      for a in lst:
        add(P + a, R, ["attr", a])

    def calls(lst):
      for name, args in lst:
        add(P + "{}({})".format(name, ",".join(str(x[1]) for x in args)), R,
            ["call", name, args])

    others = [(j, o) for j, o in enumerate(tab) if observe.rt_of(o) == "S"]
    if rt == "S":
      attrs(SEG_ATTRS)
      calls(SEG_CALLS)
      if k.startswith("S1"):
        calls([("validate_length", [])])
      for j, o in others:
        add(P + "relations_to(S)", R, ["call", "relations_to", [["line", j]]])
        add(P + "relations_to(name)", R,
            ["call", "relations_to", [["name", j]]])
        add(P + "relations_to(S,dovetails)", R,
            ["call", "relations_to", [["line", j], ["lit", "dovetails"]]])
        for o_ in "+-":
          add(P + "oriented_relations", R,
              ["call", "oriented_relations",
               [["lit", "+"], ["ol", ["line", j], o_]]])
        for e_ in "LR":
          add(P + "end_relations", R,
              ["call", "end_relations",
               [["lit", "R"], ["se", ["line", j], e_]]])
    elif rt in ("L", "C"):
      attrs(EDGE1_ATTRS + (["paths"] if rt == "L" else CONT_ATTRS))
      calls(EDGE_CALLS + (LINK_CALLS if rt == "L" else CONT_CALLS))
      edge_arg_queries(add, P, R, tab, i, l, others, rt)
    elif rt == "P":
      attrs(PATH_ATTRS)
      calls(PATH_CALLS)
    elif rt == "E":
      attrs(E_ATTRS)
      calls(EDGE_CALLS + E_CALLS)
      edge_arg_queries(add, P, R, tab, i, l, others, rt)
    elif rt == "G":
      attrs(G_ATTRS)
    elif rt == "F":
      attrs(F_ATTRS)
      calls(F_CALLS)
    elif rt == "O":
      attrs(O_ATTRS)
    elif rt == "U":
      attrs(U_ATTRS)
    elif rt == "#":
      attrs(COMMENT_ATTRS)
    elif rt == "H":
      attrs(HEADER_ATTRS)
  return M


def edge_arg_queries(add, P, R, tab, i, l, others, rt):
  """Queries of an edge that take a segment / end / oriented segment / other
  link."""
  for j, o in others:
    add(P + "other(S)", R, ["call", "other", [["line", j]]])
    add(P + "other(name)", R, ["call", "other", [["name", j]]])
    for e_ in "LR":
      add(P + "other_end", R, ["call", "other_end", [["se", ["line", j], e_]]])
      add(P + "other_end(name)", R,
          ["call", "other_end", [["se", ["name", j], e_]]])
    for o_ in "+-":
      add(P + "other_oriented_segment", R,
          ["call", "other_oriented_segment", [["ol", ["line", j], o_]]])
  if rt != "L":
    return
  for j, o in enumerate(tab):
    if observe.rt_of(o) != "L":
      continue
    for m in ("is_complement", "is_eql", "is_same", "are_tags_eql"):
      add(P + m + ("(self)" if j == i else "(L)"), R, ["call", m, [["line", j]]])
    a = [["val", j, "from_segment"], ["val", j, "to_segment"]]
    ol = [["ol", a[0], safe_str(o.get("from_orient"))],
          ["ol", a[1], safe_str(o.get("to_orient"))]]
    inv = {"+": "-", "-": "+"}
    olc = [["ol", a[1], inv.get(ol[1][2], "+")],
           ["ol", a[0], inv.get(ol[0][2], "+")]]
    for nm, args in (("direct", ol), ("complement", olc)):
      add(P + "is_compatible/" + nm, R, ["call", "is_compatible", args])
      add(P + "is_compatible/" + nm + "+overlap", R,
          ["call", "is_compatible", args + [["val", j, "overlap"]]])
      add(P + "is_compatible/" + nm + "+cigar", R,
          ["call", "is_compatible", args + [["aln", "2M1I", "gfa1"]]])
      add(P + "is_compatible/" + nm + "/nocomplement", R,
          ["call", "is_compatible", args + [["lit", None], ["lit", False]]])
      add(P + "is_compatible_direct/" + nm, R,
          ["call", "is_compatible_direct", args + [["val", j, "overlap"]]])
      add(P + "is_compatible_complement/" + nm, R,
          ["call", "is_compatible_complement", args + [["val", j, "overlap"]]])


def value_queries(M, F, P, l, i, f):
  """Queries on the value stored in a field (alignment, position, oriented
  identifier, list, JSON)."""
  try:
    v = l.get(f)
  except Exception:
    return
  V = ["val", i, f]

  def add(group, recv, op):
    # kind: record kind + value type + operation (not the field)
    M.append((group, coarse(P + "val." + group[len(F):]), _q(recv, op)))

  def opname(op):
    return op[0] if op[0] not in ("call", "attr") else op[1]

  if isinstance(v, (gfapy.CIGAR, gfapy.Trace, gfapy.AlignmentPlaceholder)):
    tn = type(v).__name__
    for op in ALN_OPS:
      if op == ["list"] and isinstance(v, gfapy.Placeholder):
        continue  # iterating a Placeholder never terminates (C07's domain)
      add("{}{}.{}".format(F, tn, opname(op)), V, op)
    if isinstance(v, gfapy.CIGAR):
      for j in range(len(v)):
        for op in CIGAR_OP_OPS:
          add("{}op.{}".format(F, opname(op)), ["item", i, f, j], op)
  elif isinstance(v, gfapy.LastPos) or \
      (isinstance(v, int) and "position" in str(l.get_datatype(f))):
    tn = type(v).__name__
    for op in POS_OPS:
      add("{}{}.{}{}".format(F, tn, opname(op), len(op)), V, op)
  elif isinstance(v, gfapy.OrientedLine):
    for op in OL_OPS:
      add("{}ol.{}".format(F, opname(op)), V, op)
  elif isinstance(v, (list, gfapy.FieldArray)):
    tn = type(v).__name__
    for op in LIST_OPS:
      add("{}{}.{}".format(F, tn, opname(op)), V, op)
    items = list(v) if not isinstance(v, gfapy.FieldArray) else list(iter(v))
    for j, e in enumerate(items):
      I = ["item", i, f, j]
      if isinstance(e, gfapy.OrientedLine):
        for op in OL_OPS:
          add("{}[].ol.{}".format(F, opname(op)), I, op)
      elif isinstance(e, (gfapy.CIGAR, gfapy.Trace,
                          gfapy.AlignmentPlaceholder)):
        for op in ALN_OPS:
          if op == ["list"] and isinstance(e, gfapy.Placeholder):
            continue
          add("{}[].{}.{}".format(F, type(e).__name__, opname(op)), I, op)
  elif isinstance(v, dict):
    for op in JSON_OPS:
      add("{}dict.{}".format(F, opname(op)), V, op)
  elif isinstance(v, gfapy.Placeholder):
    for op in [["str"], ["repr"], ["bool"], ["len"]]:
      add("{}placeholder.{}".format(F, opname(op)), V, op)


ONCE_PER_RECORD = ("try_get", "attr", "try_get_x", "field_to_s(tag)",
                   "get_datatype")


def coarse(kind):
  """Query kind = record kind (virtual lines count with their record type) +
  operation; field operations are kept per field datatype for get /
  field_to_s / validate_field and once per record kind otherwise; the alias
  `name` and an undefined tag count once each."""
  if kind.startswith("g."):
    for m in ("line", "try_get_line", "segment", "try_get_segment"):
      for n in ("nope", "*"):
        if kind == "g.{}({})".format(m, n):
          return "g.lookup({})".format(n)
    return kind
  k, _, rest = kind.partition(".")
  if k.endswith("v") and k not in ("v",):
    k = k[:-1]
  head = rest.split(".")[0]
  if ":" in head and not rest.startswith("val."):
    fk = head.split(":")[0]
    m = rest[len(head) + 1:]
    if fk in ("alias", "undef"):
      return "{}.{}.{}".format(k, fk, "get" if m == "get" else "other")
    if m in ONCE_PER_RECORD:
      return "{}.field.{}".format(k, m)
  return k + "." + rest


G_FAM = set("""g.str g.lines g.dovetails g.names g.n_dovetails g.validate(0)
g.connected_components(0) g.linear_paths(0) g.to_gfa1_s g.to_gfa2_s
g.line(name) g.segment(name) g.select(name)
g.segment_connected_component(name) g.linear_path(name) g.is_cut_segment(name)
g.is_cut_link(L) g.is_cut_link(E)""".split())
G_PROBES = set("""g.str g.validate(0) g.connected_components(0)
g.linear_paths(0) g.to_gfa1_s g.to_gfa2_s""".split())
# one representative per record kind
LINE_FAM = set("""str clone(0) validate(0)
dovetails neighbours __str__(True)
complement() is_canonical() overlap is_complement is_eql
is_compatible/direct+overlap is_compatible/complement+overlap other_end from_end
pos captured_path links alignment from_segment induced_set external""".split())
# one representative per state, whatever the record kind
ANY_FAM = set("""to_list(0) to_gfa1_s to_gfa2_s ==self ==text diff(self) hash
field.try_get field.get_datatype""".split())
VAL_FAM = set("""CIGAR.complement CIGAR.length_on_reference CIGAR.str
CIGAR.validate LastPos.sub2 ol.inverted Trace.complement
AlignmentPlaceholder.complement""".split())


def family(kind):
  """Coarse family of a query kind (pair menu of the quick tier and probe set
  of the thorough tier), or None."""
  if kind.startswith("g."):
    if kind in G_FAM:
      return kind
    return "g.select(line)" if kind.startswith("g.select(line") else None
  k, _, rest = kind.partition(".")
  if rest.startswith("val."):
    v = rest[4:]
    if v.startswith("[]."):
      v = v[3:]
    return "val." + v if v in VAL_FAM else None
  head = rest.split(".")[0]
  if ":" in head:
    m = rest[len(head) + 1:]
    if m == "get":
      return kind                       # one get per (record kind, datatype)
    if m in ("field_to_s", "validate_field"):
      return "{}.*.{}".format(k, m)     # one per record kind
    return None
  if rest in ANY_FAM:
    return "line." + rest
  base = rest.replace("(self)", "").replace("(L)", "")
  return k + "." + base if base in LINE_FAM else None


def first_of(M, keyf):
  seen = set()
  out = []
  for idx, (grp, kind, q) in enumerate(M):
    key = keyf(kind)
    if key is not None and key not in seen:
      seen.add(key)
      out.append(idx)
  return out


# ----------------------------------------------------------- the oracle ---

MAX_VIOL_PER_STATE = 6


def recv_kind(q, tab):
  r = q["recv"]
  if r[0] == "g":
    return "g"
  try:
    return rkind(tab[r[1]])
  except Exception:
    return "?"


class Tab(list):
  """Line table of a replica + {id(line): position}."""
  def __init__(self, lines):
    list.__init__(self, lines)
    self.idx = {id(l): i for i, l in enumerate(lines)}


class StateRun:
  def __init__(self, item, res):
    self.item = item
    self.res = res
    self.nviol = 0

  def fresh(self):
    g = build(self.item)
    return g, Tab(line_table(g))

  def violation(self, clause, group, seq, expected, observed, effect=""):
    self.nviol += 1
    key = {"query": group}
    if effect:
      key["effect"] = effect
    if self.item.get("lazy"):
      key["corpus"] = "lazy-noncanonical"
    w = {"state": self.item, "seq": seq, "clause": clause, "group": group}
    self.res["violations"].append(mkviolation(
        clause, key, w, expected, observed,
        standalone(self.item, seq, clause)))


def effect_of(o0, o1, item):
  """Short class of a change of the deep observation."""
  d = purity.first_diff(o0, o1)
  where = d.split(":")[0]
  part = where.split("/")[1] if "/" in where else where
  return part


def classify_lazy(item, o1):
  """For the lazy-noncanonical corpus: is the new text exactly the text the
  same document has when it is parsed eagerly (vlevel 1)?"""
  try:
    g1 = build(dict(item, vlevel=1))
    return o1.get("text") == str(g1).split("\n")
  except Exception:
    return False


def outcome_class(q, r):
  if isinstance(r, list) and r and r[0] in ("raised", "raised-in-setup"):
    return "{}:{}:{}".format(q["op"][0], r[0], r[1])
  return "{}:ok".format(q["op"][0])


def rq(g, tab, q, budget=20):
  """run_query under a per-call time budget (bounded stand-in for
  termination; a query that exceeds it twice -- the second time alone on a
  fresh replica with three times the budget, so that a stalled machine cannot
  raise an alarm -- is reported; C07 owns the cause)."""
  try:
    with guard(budget):
      r = run_query(g, tab, q, getattr(tab, "idx", None))
  except HarnessTimeout:
    r = None
  if r is None or timed_out():
    return ["timeout"], None, None
  return r


def check_state(item):
  res = new_result()
  res["evaluations"] += 1
  _check_state(item, res)
  return res


def _check_state(item, res):
  run = StateRun(item, res)
  tier_quick = item.get("tier", "quick") == "quick"
  chunk = 16 if tier_quick else 8
  try:
    gm, tabm = run.fresh()
  except gfapy.Error as e:
    res["outcomes"].add("build-refused:" + type(e).__name__)
    return
  M = make_menu(gm, tabm, item)
  fams = first_of(M, family)
  kinds = first_of(M, lambda k: k)
  g, tab = run.fresh()
  o0 = deep_obs(g)
  if deep_obs(g) != o0:
    run.violation("frame", "deep-observation", [], o0, deep_obs(g),
                  "observation-unstable")
    return
  res["states"].add(h(o0))
  if len(o0["lines"]) > 0:
    res["nontrivial"].add(h(o0))
  if len(res["samples"]) < 1:
    res["samples"].append({"state": state_label(item), "queries": len(M),
                           "kinds": len(kinds), "families": len(fams),
                           "some_queries": [qpy(M[i][2]) for i in
                                            range(0, len(M), max(1, len(M) // 8))]})

  def frame_violation(grp, q, oa, ob):
    eff = effect_of(oa, ob, item)
    clause, grp_ = "frame", grp
    if item.get("lazy") and classify_lazy(item, ob):
      clause, grp_, eff = "text-normalised-on-read", item["lazy"], ""
    d = purity.first_diff(oa, ob)
    run.violation(clause, grp_, [q, q], d.split(" -> ")[0], d, eff)

  # ---- phase A: the whole menu on one replica; frame + twice + argument ---
  rfwd = {}
  pending = []
  for qi, (grp, kind, q) in enumerate(M):
    if run.nviol >= MAX_VIOL_PER_STATE:
      break
    r1, a0, a1 = rq(g, tab, q)
    r2, b0, b1 = rq(g, tab, q)
    res["transitions"] += 2
    res["outcomes"].add(outcome_class(q, r1))
    rfwd[qi] = r1
    if r1 == ["timeout"] or r2 == ["timeout"]:
      g, tab = run.fresh()
      if rq(g, tab, q, 60)[0] == ["timeout"]:
        run.violation("timeout", grp, [q], "returns within 60 s", "no answer")
        g, tab = run.fresh()
      pending = []
      continue
    if a0 != a1 or b0 != b1:
      run.violation("argument", grp, [q], a0, a1 if a0 != a1 else b1)
    if r1 != r2:
      run.violation("twice", grp, [q, q], r1, r2)
    pending.append(qi)
    if len(pending) >= chunk or qi == len(M) - 1:
      o1 = deep_obs(g)
      if o1 != o0:
        # locate: replay the chunk on a fresh replica, observing every query
        g, tab = run.fresh()
        oa = deep_obs(g)
        located = False
        for pj in pending:
          rq(g, tab, M[pj][2])
          rq(g, tab, M[pj][2])
          ob = deep_obs(g)
          if ob != oa:
            frame_violation(M[pj][0], M[pj][2], oa, ob)
            located = True
            if item.get("lazy") or run.nviol >= MAX_VIOL_PER_STATE:
              return  # one root cause per lazily decoded document
            g, tab = run.fresh()
            oa = deep_obs(g)
        if not located:
          d = purity.first_diff(o0, o1)
          run.violation("sequence-frame", M[pending[0]][0],
                        [M[x][2] for x in range(pending[-1] + 1)],
                        d.split(" -> ")[0], d, effect_of(o0, o1, item))
        g, tab = run.fresh()
        o0 = deep_obs(g)
      pending = []
  if run.nviol:
    return  # a state with a frame violation is not expanded into pairs

  def locate(qi, expected, order):
    """Which single earlier query of `order` changes the answer of qi?"""
    for pj in order:
      if pj == qi:
        break
      gp, tabp = run.fresh()
      rq(gp, tabp, M[pj][2])
      if rq(gp, tabp, M[qi][2])[0] != expected:
        return pj
    return None

  # ---- phase B: the whole menu in reverse order on a second replica -------
  g2, tab2 = run.fresh()
  rrev = {}
  for qi in range(len(M) - 1, -1, -1):
    rrev[qi] = rq(g2, tab2, M[qi][2])[0]
    res["transitions"] += 1
  if deep_obs(g2) != o0:
    d = purity.first_diff(o0, deep_obs(g2))
    run.violation("sequence-frame", "reverse-menu",
                  [M[x][2] for x in range(len(M) - 1, -1, -1)],
                  d.split(" -> ")[0], d, effect_of(o0, deep_obs(g2), item))
  for qi in range(len(M)):
    res["traces"] += 1
    if rrev[qi] != rfwd[qi] and run.nviol < MAX_VIOL_PER_STATE:
      gq, tabq = run.fresh()
      base = rq(gq, tabq, M[qi][2])[0]
      if base != rfwd[qi]:
        order, got = list(range(qi)), rfwd[qi]
      else:
        order, got = list(range(len(M) - 1, qi, -1)), rrev[qi]
      c = locate(qi, base, order)
      if c is not None:
        run.violation("pair", "{} ; {}".format(M[c][0], M[qi][0]),
                      [M[c][2], M[qi][2]], base, got)
      else:
        run.violation("sequence", M[qi][0],
                      [M[j][2] for j in order] + [M[qi][2]], base, got)
  if run.nviol:
    return
  # ---- phase C: isolated ordered pairs against fresh baselines ------------
  def line_of(qi):
    r = M[qi][2]["recv"]
    return None if r[0] in ("g", "new") else r[1]

  def related(q1, q2):
    """thorough tier, q1 any kind, q2 a family representative: the families
    of q1's own receiver line, the Gfa-level probes G_PROBES, str() of every
    other line (every family if q1 is a Gfa-level query)."""
    l1, l2 = line_of(q1), line_of(q2)
    if l1 is None or l1 == l2 or M[q2][2]["op"] == ["str"]:
      return True
    return l2 is None and M[q2][1] in G_PROBES

  fset = set(fams)
  plan = [(fams, fams)]
  if not tier_quick:
    plan.append((kinds, fams))
    if item["kind"] == "hist" and len(item["hist"]) >= 3:
      # budget: the family x family square is run on every state of depth
      # <= 2 and on every document; depth-3 states get kind x probes only
      plan = [(kinds, fams)]
      fset = set()
  need = sorted(set(x for a, b in plan for x in b))
  r0 = {}
  for qi in need:
    gq, tabq = run.fresh()
    r0[qi] = rq(gq, tabq, M[qi][2])[0]
    res["transitions"] += 1
    res["traces"] += 1
    if r0[qi] != rfwd[qi] and run.nviol < MAX_VIOL_PER_STATE:
      c = locate(qi, r0[qi], list(range(qi)))
      if c is not None:
        run.violation("pair", "{} ; {}".format(M[c][0], M[qi][0]),
                      [M[c][2], M[qi][2]], r0[qi], rfwd[qi])
      else:
        run.violation("sequence", M[qi][0],
                      [M[j][2] for j in range(qi + 1)], r0[qi], rfwd[qi])
  done_pairs = set()
  for firsts, seconds in plan:
    for q1 in firsts:
      if run.nviol >= MAX_VIOL_PER_STATE:
        break
      todo = [q2 for q2 in seconds if (q1, q2) not in done_pairs and
              (q1 in fset or related(q1, q2))]
      if not todo:
        continue
      g1, tab1 = run.fresh()
      rq(g1, tab1, M[q1][2])
      for q2 in todo:
        done_pairs.add((q1, q2))
        r = rq(g1, tab1, M[q2][2])[0]
        res["transitions"] += 1
        res["traces"] += 1
        if r != r0[q2]:
          gp, tabp = run.fresh()
          rq(gp, tabp, M[q1][2])
          rp = rq(gp, tabp, M[q2][2])[0]
          if rp != r0[q2]:
            run.violation("pair", "{} ; {}".format(M[q1][0], M[q2][0]),
                          [M[q1][2], M[q2][2]], r0[q2], rp)
          else:
            seq = [M[q1][2]] + [M[x][2] for x in todo[:todo.index(q2) + 1]]
            run.violation("sequence", M[q2][0], seq, r0[q2], r)
          if run.nviol >= MAX_VIOL_PER_STATE:
            break
      o1 = deep_obs(g1)
      if o1 != o0:
        d = purity.first_diff(o0, o1)
        run.violation("sequence-frame", M[q1][0],
                      [M[q1][2]] + [M[x][2] for x in todo],
                      d.split(" -> ")[0], d, effect_of(o0, o1, item))


def state_label(item):
  if item["kind"] == "hist":
    return {"spec": item["spec"],
            "history": [explore.fmt_op(tuple(o)) for o in item["hist"]]}
  return {"doc": item["name"], "vlevel": item["vlevel"],
          "lines": [l.replace("\t", " ") for l in item["lines"]]}


def standalone(item, seq, clause):
  L = state_py(item)
  L.append("before = str(g)")
  for n, q in enumerate(seq[:6]):
    L.append("try: r{} = {}".format(n, qpy(q)))
    L.append("except Exception as e: r{} = e".format(n))
  if len(seq) > 6:
    L.append("# ... {} queries in all (see witness)".format(len(seq)))
  if clause in ("frame", "text-normalised-on-read", "sequence-frame"):
    L.append("print(before == str(g)); print(before); print(str(g))")
  else:
    L.append("print({})".format(", ".join(
        "repr(r{})".format(n) for n in range(min(len(seq), 6)))))
  return "\n".join(L)


# ------------------------------------------------- stand-alone values ---

def value_corpus(quick):
  vals = []
  codes1 = ["M", "I", "D", "P", "=", "X", "S", "H", "N"]
  lens = [1, 2]
  ops = [str(n) + c for c in codes1 for n in lens]
  maxops = 2 if quick else 3
  seqs = [[]]
  frontier = [[]]
  for _ in range(maxops):
    frontier = [s + [o] for s in frontier for o in ops]
    seqs += frontier
  for s in seqs:
    if s:
      vals.append(["aln", "".join(s), "gfa1"])
  for s in seqs:
    if s and all(o[-1] in "MIDP" for o in s):
      vals.append(["aln", "".join(s), "gfa2"])
  vals += [["aln", "*", "gfa1"], ["aln", "*", "gfa2"], ["aln", "1,2,3", "gfa2"],
           ["aln", "0", "gfa2"], ["aln", "12,0", "gfa2"]]
  vals += [["lastpos", n] for n in (0, 1, 2, 4, 10)]
  vals += [["lit", n] for n in (0, 1, 4)]
  vals += [["ol", ["lit", "a"], "+"], ["ol", ["lit", "b"], "-"],
           ["se", ["lit", "a"], "L"], ["se", ["lit", "b"], "R"]]
  return vals


VALUE_OPS = {
    "aln": ALN_OPS + [["call", "validate", [["lit", "gfa2"]]],
                      ["getitem", ["lit", 0]]],
    "lastpos": POS_OPS, "lit": POS_OPS[:8],
    "ol": OL_OPS, "se": [["str"], ["repr"], ["attr", "name"],
                         ["attr", "segment"], ["attr", "end_type"],
                         ["call", "inverted", []], ["call", "validate", []],
                         ["eq", ["lit", "aL"]]],
}


def vobs(v):
  return [canon(v), safe_str(v), purity._ADDR.sub("0x?", repr(v))]


def run_vop(v, op):
  adesc, kw = purity.op_args(op)
  args = [purity.build_arg(a, None, None) for a in adesc]
  try:
    return canon(purity.apply_op(v, op, args, {}))
  except Exception as e:
    return purity.exc_canon(e)


def check_values(chunk):
  """Stand-alone alignment / position / oriented values: frame, twice, pairs
  (all ordered pairs of operations on one object vs a fresh object)."""
  res = new_result()
  for vd in chunk:
    res["evaluations"] += 1
    mk = lambda: purity.build_arg(vd, None, None)
    v = mk()
    ops = [op for op in VALUE_OPS[vd[0]]
           if not (op == ["list"] and isinstance(v, gfapy.Placeholder))]
    o0 = vobs(v)
    res["states"].add(h(o0))
    res["nontrivial"].add(h(o0))
    base = [run_vop(mk(), op) for op in ops]
    bad = False
    for oi, op in enumerate(ops):
      r1 = run_vop(v, op)
      r2 = run_vop(v, op)
      res["transitions"] += 2
      res["outcomes"].add("value:" + outcome_class({"op": op}, r1))
      o1 = vobs(v)
      q = {"recv": ["new", vd], "op": op}
      if o1 != o0:
        res["violations"].append(mkviolation(
            "frame", {"query": "value." + qstr(q).split(".", 1)[-1],
                      "value": vd[0]},
            {"value": vd, "ops": [op], "clause": "frame"}, o0, o1,
            "import gfapy\nv = {}\nprint(str(v)); {}; print(str(v))".format(
                purity._argpy(vd), qpy(q).replace(purity._argpy(vd), "v"))))
        v = mk()
        bad = True
      elif r1 != r2 or r1 != base[oi]:
        res["violations"].append(mkviolation(
            "twice", {"query": "value." + qstr(q).split(".", 1)[-1],
                      "value": vd[0]},
            {"value": vd, "ops": [op, op], "clause": "twice"},
            base[oi], [r1, r2], ""))
        bad = True
    if bad:
      continue
    for i1, op1 in enumerate(ops):
      v = mk()
      run_vop(v, op1)
      for i2, op2 in enumerate(ops):
        r = run_vop(v, op2)
        res["transitions"] += 1
        res["traces"] += 1
        if r != base[i2]:
          res["violations"].append(mkviolation(
              "pair", {"query": "value.{} ; {}".format(op1, op2),
                       "value": vd[0]},
              {"value": vd, "ops": [op1, op2], "clause": "pair"},
              base[i2], r, ""))
      if vobs(v) != o0:
        res["violations"].append(mkviolation(
            "sequence-frame", {"query": "value.{}".format(op1),
                               "value": vd[0]},
            {"value": vd, "ops": [op1] + ops, "clause": "sequence-frame"},
            o0, vobs(v), ""))
  return res


# ------------------------------------------------------------ run/replay ---

def run(ctx):
  ctx.rule = ("one case = one state: the whole query menu twice on one "
              "replica with a deep observation after every query, then every "
              "ordered pair of the reduced menu against fresh replicas; "
              "traces = results compared with the result on a fresh replica; "
              "non-trivial = state with at least one line besides the header")
  if ctx.quick:
    plan = [("c10.g1", 2), ("c10.g2", 2)]
  else:
    plan = [("c10.g1", 3), ("c10.g2", 3)]
  items = []
  done = {}
  for name, d in plan:
    hs = collect_states(ctx, explore.SPECS[name], d)
    done[name] = {"depth": d, "states": len(hs)}
    items += [{"kind": "hist", "spec": name, "hist": [list(o) for o in hst]}
              for hst in hs]
  docs = doc_items(ctx.quick)
  done["documents"] = len(docs)
  items += docs
  for it in items:
    it["tier"] = ctx.tier
  vals = value_corpus(ctx.quick)
  done["values"] = len(vals)
  ctx.alphabet = {
      "G1": universe.G1, "G2": universe.G2,
      "history_ops": ["add(any universe line)", "rm(id)", "disconnect(unnamed)",
                      "rename(id -> fresh / in use)"],
      "documents": "C19 templates x {no tag, each of A i f Z J J H B B, all} "
                   "x vlevels; multi-valued headers; dangling references; "
                   "lazy non-canonical spellings at vlevel 0",
      "gfa_queries": GFA_ATTRS + [c[0] for c in GFA_CALLS] + [
          "str", "to_gfa1_s", "to_gfa1", "to_gfa2_s*", "to_gfa2*", "line",
          "try_get_line", "segment", "try_get_segment", "select",
          "custom_records_of_type", "fragments_for_external",
          "segment_connected_component", "linear_path", "is_cut_segment",
          "is_cut_link"],
      "line_queries": "str repr hash == != diff diffscript + per field get "
                      "try_get attribute try_get_<f> field_to_s get_datatype "
                      "validate_field + " + ", ".join(
                          LINE_ATTRS + [c[0] for c in LINE_CALLS]) +
                      " + record-type tables (see module)",
      "value_queries": {"alignment": [str(o) for o in ALN_OPS],
                        "position": [str(o) for o in POS_OPS],
                        "oriented": [str(o) for o in OL_OPS]},
      "excluded": ["to_gfa2_s / to_gfa2 of a connected P line whose links have no ID, "
                   "to_gfa2_s / to_gfa2 of a connected L/C without ID and of a "
                   "GFA1 Gfa holding one (documented to assign an ID)",
                   "unused_name() (advances a counter)"]}
  ctx.assumptions = [
      "histories <= depth 3 over G1/G2 (quick: 2, and 3 on the core "
      "universes); one document per record type x tag datatype",
      "state that is not observable through the public API (decoded-value "
      "caches, the unused-name counter, empty registry buckets) is judged "
      "only through later answers (twice / pair / sequence clauses)",
      "pair clause over one instance per query kind and record kind, not "
      "per line; sequences longer than two are covered by one run of the "
      "whole menu per state and one run of the reduced menu per first query"]
  for r in ctx.pmap(check_state, items, chunksize=1):
    ctx.merge(r)
  chunks = [vals[i:i + 40] for i in range(0, len(vals), 40)]
  for r in ctx.pmap(check_values, chunks, chunksize=1):
    ctx.merge(r)
  ctx.bound_completed = done


def replay(w, ctx):
  if "value" in w:
    res = check_values([w["value"]])
    return [v for v in res["violations"]
            if v["witness"]["ops"] == w["ops"] and v["clause"] == w["clause"]]
  res = new_result()
  _check_state(w["state"], res)
  out, seen = [], set()
  for v in res["violations"]:
    k = (v["clause"], json.dumps(v["key"], sort_keys=True))
    if v["clause"] == w["clause"] and v["witness"]["group"] == w["group"] \
        and k not in seen:
      seen.add(k)
      out.append(v)
  return out
