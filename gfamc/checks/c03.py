"""C03 -- the graph does not depend on the order of the lines.

Engine S: every reference-closed document of <= 5 (quick) / <= 6 (thorough)
lines over the universes G1 and G2 (minus the multi-line group line), plus one
7-line seed per referencing record family, in ALL n! arrival orders, through
Gfa(list) / add_line + process_line_queue / Gfa.from_file.  Each order is
judged against the identity order of the same document and against the
order-free prediction of gfamc.ref.closure (which never imports gfapy)."""
import json
import gfapy
from .. import observe, schedules, universe
from ..ref import closure
from ..runner import new_result, mkviolation, h, guard, timed_out

PROPERTY = "C03"
T = "\t".join

G1 = list(universe.G1)
G2M = list(universe.G2_SINGLE)      # without the second `U u1` line (C17)

SEEDS = {
    "L": [T(["H", "VN:Z:1.0"]), T(["S", "A", "*"]), T(["S", "B", "*"]),
          T(["S", "C", "*"]), T(["L", "A", "+", "B", "-", "2M1I"]),
          T(["L", "B", "-", "C", "+", "*"]),
          T(["L", "C", "+", "A", "+", "1M", "ID:Z:x"])],
    "C": [T(["S", "A", "*"]), T(["S", "B", "*"]), T(["S", "C", "*"]),
          T(["C", "A", "+", "B", "-", "0", "*"]),
          T(["C", "A", "-", "C", "+", "1", "2M"]),
          T(["C", "B", "+", "C", "-", "0", "*", "ID:Z:y"]),
          "# containments"],
    "P": [T(["S", "A", "*"]), T(["S", "B", "*"]), T(["S", "C", "*"]),
          T(["L", "A", "+", "B", "+", "*"]), T(["L", "C", "-", "B", "-", "*"]),
          T(["P", "p", "A+,B+,C+", "*"]), T(["P", "r", "C-,B-,A-", "*"])],
    "E": [T(["H", "VN:Z:2.0"]), T(["S", "a", "4", "*"]), T(["S", "b", "4", "*"]),
          T(["S", "c", "4", "*"]),
          T(["E", "e1", "a+", "b+", "2", "4$", "0", "2", "*"]),
          T(["E", "*", "a-", "c+", "0", "2", "0", "2", "*"]),
          T(["E", "e3", "b+", "c-", "1", "2", "1", "2", "*"])],
    "G": [T(["S", "a", "4", "*"]), T(["S", "b", "4", "*"]), T(["S", "c", "4", "*"]),
          T(["G", "g1", "a+", "b-", "10", "*"]),
          T(["G", "*", "b+", "c+", "5", "*"]),
          T(["G", "g3", "c-", "a+", "7", "2"]),
          T(["U", "u1", "g1 g3"])],
    "F": [T(["H", "VN:Z:2.0"]), T(["S", "a", "4", "*"]), T(["S", "b", "4", "*"]),
          T(["F", "a", "x+", "0", "2", "0", "2", "*"]),
          T(["F", "a", "y-", "1", "3", "0", "2", "*"]),
          T(["F", "b", "x+", "0", "4$", "0", "4", "*"]),
          "# fragments"],
    "O": [T(["S", "a", "4", "*"]), T(["S", "b", "4", "*"]), T(["S", "c", "4", "*"]),
          T(["E", "e1", "a+", "b+", "2", "4$", "0", "2", "*"]),
          T(["E", "e2", "b+", "c+", "2", "4$", "0", "2", "*"]),
          T(["O", "o1", "a+ b+ c+"]), T(["O", "o2", "e1+ e2+"])],
    "U": [T(["S", "a", "4", "*"]), T(["S", "b", "4", "*"]),
          T(["E", "e1", "a+", "b+", "2", "4$", "0", "2", "*"]),
          T(["G", "g1", "a+", "b+", "10", "*"]),
          T(["O", "o1", "a+ b+"]),
          T(["U", "u1", "a e1 g1"]), T(["U", "u2", "u1 o1"])],
    # two paths over ONE link with an asymmetric CIGAR, in both directions,
    # overlaps spelled out in the direction of each path; the link written
    # against / along the first path
    "P-cigar": [T(["S", "A", "*"]), T(["S", "B", "*"]),
                T(["L", "B", "-", "A", "-", "1D3M"]),
                T(["P", "p", "A+,B+", "3M1I"]), T(["P", "q", "B-,A-", "1D3M"])],
    "P-cigar2": [T(["S", "A", "*"]), T(["S", "B", "*"]),
                 T(["L", "A", "+", "B", "+", "2M1I1M"]),
                 T(["P", "p", "A+,B+", "*"]), T(["P", "q", "B-,A-", "1M1D2M"]),
                 T(["P", "r", "A+,B+", "2M1I1M"])],
    # lazily parsed fields with valid but non-canonical spellings on lines
    # that are queued while the version is unknown (run at level 0 too, where
    # such fields are kept as written)
    "lazy": [T(["S", "A", "*"]), T(["S", "B", "*"]),
             T(["L", "A", "+", "B", "+", "1M", "xx:J:{\"k\":[1,2]}",
                "zz:B:c,1,2"]),
             T(["C", "A", "+", "B", "-", "0", "1M", "jj:J:[1,2]"]),
             T(["P", "p", "A+,B+", "1M", "bb:B:i,1"])],
    # the same identifier mentioned twice by one record (a path over a
    # self-link; a group visiting a segment twice)
    "P-repeat": [T(["S", "A", "*"]), T(["S", "B", "*"]),
                 T(["L", "A", "+", "A", "+", "*"]),
                 T(["L", "B", "-", "A", "-", "1M"]),
                 T(["P", "s", "A+,A+,B+", "*"]),
                 T(["P", "t", "B-,A-,A-", "*"])],
    # a path over a hairpin link (A+ -> A-: same ends as its complement) whose
    # CIGAR differs from its complement: which of the two readings the path
    # took must not depend on whether the P or the L line came first
    "P-hairpin": [T(["S", "A", "*"]), T(["S", "B", "*"]),
                  T(["L", "A", "+", "A", "-", "3M2I"]),
                  T(["L", "A", "-", "B", "+", "1M"]),
                  T(["P", "p", "A+,A-,B+", "3M2I,1M"])],
    "O-repeat": [T(["S", "a", "4", "*"]), T(["S", "b", "4", "*"]),
                 T(["E", "e1", "a+", "a+", "2", "4$", "0", "2", "*"]),
                 T(["E", "e2", "a+", "b+", "2", "4$", "0", "2", "*"]),
                 T(["O", "o1", "a+ a+ b+"]),
                 T(["O", "o2", "a+ e1+ a+ e2+ b+"]),
                 T(["U", "u1", "o1 e1 a"])],
}


# ---------------------------------------------------------------------------
# observation (public API only), canonical in everything the property frees
# ---------------------------------------------------------------------------
class KeyCache:
  """str(line) is by far the most expensive call of an observation; every
  line is written once per observation."""

  def __init__(self):
    self.text = {}
    self.keys = {}
    self.hold = []

  def str(self, line):
    i = id(line)
    if i not in self.text:
      self.hold.append(line)
      self.text[i] = observe.safe_str(line)
    return self.text[i]

  def key(self, line):
    if not isinstance(line, gfapy.Line):
      return "notaline:" + observe.safe_str(line)
    i = id(line)
    k = self.keys.get(i)
    if k is None:
      t = self.str(line)
      k = "~" + t if observe.is_virtual(line) else closure.canon(t)
      self.keys[i] = k
    return k


def line_refs(line, kc):
  """Reference targets of a line, canonical: a link's from/to are those of its
  canonical complement form; a path's links are the oriented segment pairs it
  traverses plus the link modulo complement."""
  rt = observe.rt_of(line)
  raw = observe.ref_targets(line)
  out = []
  flipped = False
  if rt == "L" and not observe.is_virtual(line):
    flipped = closure.link_canon(kc.str(line))[1]
  swap = {"from_segment": "to_segment", "to_segment": "from_segment"}
  for f, t, o in raw:
    if not isinstance(t, gfapy.Line):
      out.append([f, "str:" + observe.safe_str(t), o])
      continue
    if f == "links":
      lf = kc.str(t).split("\t")
      if len(lf) >= 6 and o in ("+", "-"):
        if o == "+":
          pair = [lf[1], lf[2], lf[3], lf[4]]
        else:
          pair = [lf[3], closure.inv(lf[4]), lf[1], closure.inv(lf[2])]
        # ... and the overlap as read in the direction of the path (for a
        # hairpin link both readings join the same ends; only the overlap
        # tells them apart).  Compared between orders only: strip() removes
        # it before the comparison with the reference model.
        try:
          al = gfapy.Alignment(lf[5], version="gfa1")
          pair.append(str(al if o == "+" else al.complement()))
        except Exception:
          pair.append("?" + lf[5] + o)
      else:
        pair = ["?", str(o)]
      out.append([f, kc.key(t), pair])
    elif flipped and f in swap:
      out.append([swap[f], kc.key(t), o])
    else:
      out.append([f, kc.key(t), o])
  return sorted(out, key=repr), raw


def backrefs(line, raw_refs):
  """(collection, member) for every back-reference of the line: the documented
  collections (observe.BACKREFS) plus, as a catch-all, anything gfapy lists in
  all_references that is in none of them and is not one of the line's own
  reference targets."""
  out = []
  seen = set()
  for c in observe.BACKREFS.get(observe.rt_of(line), []):
    try:
      v = getattr(line, c)
    except BaseException:
      continue
    if not isinstance(v, list):
      continue
    for m in v:
      if isinstance(m, gfapy.OrientedLine):
        m = m.line
      out.append((c, m))
      seen.add(id(m))
  try:
    allr = line.all_references
  except BaseException:
    allr = []
  own = set(id(t) for f, t, o in raw_refs)
  for m in allr:
    if isinstance(m, gfapy.OrientedLine):
      m = m.line
    if id(m) not in seen and id(m) not in own:
      out.append(("<other>", m))
      seen.add(id(m))
  return out


def observation(g):
  kc = KeyCache()
  try:
    ls = list(g.lines)
  except BaseException:
    ls = []
  listed = set(id(l) for l in ls)
  seen = set(listed)
  todo = list(ls)
  recs = []
  virt = []
  unlisted = []
  while todo:
    l = todo.pop(0)
    k = kc.key(l)
    if not isinstance(l, gfapy.Line):
      continue
    if observe.is_virtual(l):
      virt.append(k)
    if id(l) not in listed:
      unlisted.append(k)
    refs, raw = line_refs(l, kc)
    br = backrefs(l, raw)
    for t in [t for f, t, o in raw] + [m for c, m in br]:
      if isinstance(t, gfapy.Line) and id(t) not in seen:
        seen.add(id(t))
        todo.append(t)
    back = sorted([c, kc.key(m)] for c, m in br)
    try:
      own = l.gfa is g
    except BaseException:
      own = False
    recs.append([k, refs, back, own])
  recs.sort(key=repr)
  try:
    names = sorted(g.names)
  except BaseException as e:
    names = ["<names-error:{}>".format(type(e).__name__)]
  written = h([kc.str(l) for l in ls])
  return {"version": g.version, "names": names, "records": recs,
          "virtual": sorted(virt), "unlisted": sorted(unlisted),
          "written": written}


def model_form(pred):
  """The reference prediction in the shape of `strip(observation)`."""
  recs = []
  for k in pred["records"]:
    recs.append([k, pred["refs"][k], pred["back"][k]])
  recs.sort(key=repr)
  return {"version": pred["version"], "names": pred["names"], "records": recs}


def strip(ob):
  """Observation without what the model does not predict (collection names,
  ownership)."""
  def unread(refs):
    return sorted(([f, t, p[:4]] if f == "links" and isinstance(p, list)
                   else [f, t, p] for f, t, p in refs), key=repr)
  recs = [[k, unread(refs), sorted(m for c, m in back)]
          for k, refs, back, own in ob["records"]]
  recs.sort(key=repr)
  return {"version": ob["version"], "names": ob["names"], "records": recs}


def rt_of_key(k):
  return k.lstrip("~").split("\t", 1)[0][:1] or "?"


def first_difference(a, b):
  """(what, expected, observed): the first component in which two
  observations of the same shape differ, or None."""
  if a["version"] != b["version"] and a["version"] is not None:
    # (None: the reference model leaves the version of a version-neutral
    # document open)
    return "version", a["version"], b["version"]
  if a["names"] != b["names"]:
    return "names", a["names"], b["names"]
  ka = [r[0] for r in a["records"]]
  kb = [r[0] for r in b["records"]]
  if ka != kb:
    return ("records", [k for k in ka if k not in kb] or ka,
            [k for k in kb if k not in ka] or kb)
  for ra, rb in zip(a["records"], b["records"]):
    if ra[1] != rb[1]:
      what = "refs:" + rt_of_key(ra[0])
      if any(x[0] == "links" for x in ra[1] + rb[1]) and \
         [x for x in ra[1] if x[0] != "links"] == \
         [x for x in rb[1] if x[0] != "links"]:
        what = "path-links"
      return what, [ra[0], ra[1]], [rb[0], rb[1]]
    if ra[2] != rb[2]:
      return "backrefs:" + rt_of_key(ra[0]), [ra[0], ra[2]], [rb[0], rb[2]]
    if len(ra) > 3 and ra[3] != rb[3]:
      return "owner:" + rt_of_key(ra[0]), [ra[0], ra[3]], [rb[0], rb[3]]
  for extra in ("virtual", "unlisted"):
    if a.get(extra) != b.get(extra):
      return extra, a.get(extra), b.get(extra)
  return None


# ---------------------------------------------------------------------------
# judging one order
# ---------------------------------------------------------------------------
def split_entry(entry):
  """'list@v0' -> ('list', 0): an entry point at another validation level"""
  if "@v" in entry:
    e, v = entry.split("@v")
    return e, int(v)
  return entry, 1


class _B:
  """minimal stand-in for schedules.Built"""
  def __init__(self):
    self.g = None
    self.err = None
    self.stage = None

  @property
  def outcome(self):
    if self.err is None:
      return "ok:{}".format(self.g.version)
    return schedules.err_class(self.err)


def build_on_converted(lines):
  """The lines arrive, one by one, in a Gfa that was produced by to_gfa2()
  of a GFA1 graph (a converted Gfa is a Gfa like any other)."""
  b = _B()
  try:
    with guard(schedules.BUILD_BUDGET_S):
      src = gfapy.Gfa(["S\tqq\t*\tLN:i:4", "S\tqr\tACGT",
                       "L\tqq\t+\tqr\t-\t1M"], version="gfa1")
      b.g = src.to_gfa2()
      for i, l in enumerate(lines):
        b.stage = "add_line#{}".format(i)
        b.g.add_line(l)
      b.stage = "validate"
      b.g.validate()
  except Exception as e:
    b.err = e
  return b


def run_order(entry, lines, scratch):
  entry, vl = split_entry(entry)
  return _run_order(entry, lines, scratch, vl)


def _run_order(entry, lines, scratch, vl=1):
  """Build one order; returns (outcome, observation or None, detail)."""
  if entry == "conv":
    b = build_on_converted(lines)
  else:
    b = schedules.build(entry, lines, vlevel=vl, scratch=scratch)
  if b.err is not None:
    return b.outcome, None, "{} at {}: {}".format(
        type(b.err).__name__, b.stage, str(b.err).split("\n")[0][:120])
  g = b.g
  try:
    with guard(schedules.BUILD_BUDGET_S):
      ob = observation(g)
      try:
        g.validate()
        ob["validate"] = "ok"
      except gfapy.Error as e:
        ob["validate"] = "err:" + type(e).__name__
      except Exception as e:
        ob["validate"] = "foreign:" + type(e).__name__
  except BaseException as e:  # harness timeout
    return "timeout", None, "observation exceeded the time budget"
  if timed_out():
    return "timeout", None, "observation exceeded the time budget"
  return b.outcome, ob, ""


def judge(doc, order_lines, entry, base, pred_form, scratch):
  """All violations of one arrival order against the baseline `base` =
  (outcome, observation, detail) of the identity order and the model.
  Returns (list of (clause, what, expected, observed), outcome, obs)."""
  out = []
  oc, ob, det = run_order(entry, order_lines, scratch)
  boc, bob, bdet = base
  if oc != boc:
    out.append(("outcome-differs", " vs ".join(sorted([oc, boc])),
                {"identity order": boc, "detail": bdet},
                {"this order": oc, "detail": det}))
  if ob is None:
    return out, oc, ob
  if ob["virtual"] or ob["unlisted"]:
    out.append(("placeholder-left", "virtual:" + rt_of_key(
        (ob["virtual"] + ob["unlisted"])[0]), "no placeholder once the "
                "whole document is read", ob["virtual"] + ob["unlisted"]))
  if ob["validate"] != "ok":
    out.append(("validate-fails", ob["validate"], "g.validate() passes",
                ob["validate"]))
  if bob is not None:
    d = first_difference(bob, ob)
    if d is not None:
      out.append(("order-dependent", d[0], {"identity order": d[1]},
                  {"this order": d[2]}))
  if entry == "conv":
    # (the Gfa also holds the converted lines: orders are compared with each
    # other, the model describes the added lines only)
    return out, oc, ob
  d = first_difference(pred_form, strip(ob))
  if d is not None:
    out.append(("model-disagrees", d[0], {"reference model": d[1]},
                {"gfapy": d[2]}))
  return out, oc, ob


def tail_script():
  return "\n".join([
      "print(g.version, g.names)",
      "for l in g.lines:",
      "  print(repr(str(l)), 'virtual' if l.virtual else '')",
      "  if l.record_type == 'P':",
      "    print('   links:', [(str(o.line), o.orient) for o in l.links])",
      "  for c in ('dovetails_L','dovetails_R','edges_to_contained',"
      "'edges_to_containers','internals','gaps_L','gaps_R','fragments',"
      "'paths','sets'):",
      "    v = getattr(l, c, None)",
      "    if v: print('   ', c, [str(getattr(m, 'line', m)) for m in v])",
      "g.validate()"])


def mk(doc_lines, order_lines, entry, clause, what, exp, obs):
  key = {"doc": schedules.fmt(doc_lines), "entry": entry, "what": what}
  wit = {"doc": list(doc_lines), "order": list(order_lines), "entry": entry,
         "clause": clause, "what": what}
  sa = ("# identity order\n" +
        schedules.standalone(split_entry(entry)[0], doc_lines,
                             vlevel=split_entry(entry)[1],
                             tail=tail_script()) +
        "\n# failing order\n" +
        schedules.standalone(split_entry(entry)[0], order_lines,
                             vlevel=split_entry(entry)[1],
                             tail=tail_script()))
  return mkviolation(clause, key, wit, exp, obs, sa)


def work(item):
  """One chunk: (doc_id, lines, entry, first, scratch)."""
  doc_id, lines, entry, first, scratch = item
  lines = list(lines)
  n = len(lines)
  res = new_result()
  res["found"] = []
  res["written"] = set()
  d = closure.Doc(lines)
  pred_form = model_form(d.predict())
  deps = closure.dependencies(lines)
  base = run_order(entry, lines, scratch)
  seen = set()
  ident = tuple(range(n))
  if base[1] is None and first in (None, 0):
    # the model calls this document valid; gfapy refuses its identity order
    res["found"].append((doc_id, ident, entry, "rejected", base[0],
                         "valid document accepted", base[2]))
  for order in schedules.orders(n, first):
    ol = [lines[i] for i in order]
    if order == ident:
      probs, oc, ob = judge(lines, ol, entry, (base[0], None, base[2]),
                            pred_form, scratch)
    else:
      probs, oc, ob = judge(lines, ol, entry, base, pred_form, scratch)
    res["evaluations"] += 1
    res["transitions"] += n
    res["outcomes"].add(entry + ":" + oc)
    if ob is not None:
      res["traces"] += 1
      core = dict(ob)
      core.pop("written", None)
      res["states"].add(h(core))
      res["written"].add(ob["written"])
    if closure.forward_reference(order, deps):
      res["nontrivial"].add(h([doc_id, order]))
    for clause, what, exp, obs_ in probs:
      if (clause, what) in seen:
        continue
      seen.add((clause, what))
      res["found"].append((doc_id, order, entry, clause, what, exp, obs_))
    if order in (ident, tuple(reversed(ident))) and len(res["samples"]) < 1 \
       and n >= 3 and d.has_reference():
      res["samples"].append({"entry": entry, "order": schedules.fmt(ol),
                             "outcome": oc})
  return res


# ---------------------------------------------------------------------------
def documents(ctx):
  kmax = 5 if ctx.quick else 6
  docs = []          # (doc_id, lines, family)
  stats = {}
  for name, U in (("G1", G1), ("G2", G2M)):
    c = {"valid": 0, "open": 0, "unclosed": 0}
    for idx, lines, cls in closure.closed_subsets(U, kmax):
      c[cls] += 1
      if cls == "valid":
        docs.append(("{}:{}".format(name, ",".join(map(str, idx))), lines,
                     name))
    stats[name] = c
  for fam, lines in SEEDS.items():
    d = closure.Doc(lines)
    if not d.valid():
      raise RuntimeError("seed {} is not a valid document for the model"
                         .format(fam))
    docs.append(("seed:" + fam, lines, "seed"))
  return docs, stats, kmax


def run(ctx):
  docs, stats, kmax = documents(ctx)
  if ctx.quick:
    entries_small = ("list", "inc", "file")
    entries_seed = ("list",)
  else:
    entries_small = ("list", "inc", "file")
    entries_seed = ("list", "inc", "file")
  ctx.rule = ("every arrival order of every document is one case; a case is "
              "non-trivial when at least one line arrives before a line it "
              "names (forward reference, i.e. a placeholder is created and "
              "later substituted); states = distinct canonical observations")
  ctx.alphabet = {
      "universes": {"G1": G1, "G2 minus multi-line group": G2M},
      "documents": "all subsets of a universe with <= {} lines that "
                   "gfamc.ref.closure calls valid (every identifier "
                   "mentioned is defined, every path step has exactly one "
                   "supporting link, no `*`-vs-CIGAR parallel links)"
                   .format(kmax),
      "subset_classes": stats,
      "seeds": SEEDS,
      "orders": "all n! permutations of each document",
      "entry_points": {"subsets": list(entries_small),
                       "seeds": list(entries_seed)},
      "vlevel": 1, "version": None, "dialect": "standard"}
  ctx.assumptions = [
      "documents bounded as stated in coverage.alphabet; identifiers, "
      "overlaps and positions are those of the universes G1/G2 and the seeds",
      "subsets with a `*` link parallel to a link with a CIGAR on the same "
      "end pair are outside 'valid documents' (the specification leaves open "
      "whether they are one edge) and are not executed",
      "not demanded: record order, order inside back-reference lists, which "
      "complement form of a link is stored (links, their from/to targets and "
      "the path steps over them are compared modulo complement)",
      "captured paths / induced sets of GFA2 groups are not observed (C17)",
      "validation level 1, version inferred, standard dialect"]
  items = []
  with schedules.Scratch("c03_") as scratch:
    for doc_id, lines, fam in docs:
      ents = entries_seed if fam == "seed" else entries_small
      if doc_id in ("seed:E", "seed:G", "seed:O", "seed:U", "seed:F"):
        # ... and arriving in a Gfa that to_gfa2() produced
        ents = tuple(ents) + ("conv",)
      if doc_id == "seed:P-cigar":
        ents = tuple(ents) + ("list@v0", "inc@v0", "list@v3")
      elif doc_id == "seed:lazy":
        # (levels >= 1 write the canonical spelling instead: C01's business)
        ents = ("list@v0", "inc@v0")
      for e in ents:
        for first in schedules.chunks_of(len(lines)):
          items.append((doc_id, tuple(lines), e, first, scratch))
    # big chunks first so that the pool drains evenly
    items.sort(key=lambda it: (-len(it[1]), it[0], it[2], str(it[3])))
    found = []
    written = set()
    procs = schedules.spawn_slices("c03")
    for r in ctx.pmap(work, items, chunksize=1):
      found.extend(r.pop("found"))
      written.update(r.pop("written"))
      ctx.merge(r)
    summary, diffs = schedules.collect_slices(procs, slice_cases())
  ctx.extra["hashseed_crosschecks"] = summary
  for sd, case, mine, other in diffs[:20]:
    ctx.violation(mkviolation(
        "hashseed-dependent", {"case": case, "seed": str(sd)},
        {"hashseed": sd, "case": case, "clause": "hashseed-dependent"},
        "same observation under PYTHONHASHSEED=0 and {}".format(sd),
        {"seed0": mine, "seed{}".format(sd): other},
        "# run twice: PYTHONHASHSEED=0 and PYTHONHASHSEED={}\n".format(sd) +
        "# case " + case))
  ctx.samples.sort(key=repr)
  bylines = {d[0]: d[1] for d in docs}
  ctx.extra["documents"] = len(docs)
  ctx.extra["documents_by_family"] = {
      f: sum(1 for d in docs if d[2] == f) for f in ("G1", "G2", "seed")}
  ctx.extra["distinct_written_forms"] = len(written)
  ctx.extra["failing_orders_before_minimisation"] = len(found)
  ctx.bound_completed = {"max_lines_subsets": kmax,
                         "seed_lines": [len(v) for v in SEEDS.values()]}
  # ---- minimise over documents: keep a failing document only if no failing
  # proper sub-document exists for the same (clause, what, entry) -----------
  # One root cause fails through every entry point and under two clauses;
  # a (document, clause, what) is reported once, for the first entry point in
  # which it fails, and `model-disagrees` is dropped where `order-dependent`
  # already says the same about the same document.
  erank = {e: i for i, e in enumerate(schedules.ENTRIES)}
  groups = {}
  for doc_id, order, entry, clause, what, exp, obs_ in found:
    g = groups.setdefault((clause, what), {})
    cur = g.get(doc_id)
    cand = (erank.get(entry, 9), order, entry, exp, obs_)
    if cur is None or cand[:2] < cur[:2]:
      g[doc_id] = cand
  reported = 0
  for (clause, what), g in sorted(groups.items()):
    sets = {doc_id: frozenset(bylines[doc_id]) for doc_id in g}
    for doc_id in sorted(g):
      if any(o != doc_id and sets[o] < sets[doc_id] for o in g):
        continue
      if clause == "model-disagrees" and \
         doc_id in groups.get(("order-dependent", what), {}):
        continue
      _, order, entry, exp, obs_ = g[doc_id]
      lines = bylines[doc_id]
      clause_ = "valid-document-rejected" if clause == "rejected" else clause
      ctx.violation(mk(lines, [lines[i] for i in order], entry, clause_,
                       what, exp, obs_))
      reported += 1
  ctx.extra["minimal_failing_documents"] = reported


def slice_cases():
  """Fixed slice for the hash-seed cross-check: every valid subset of G1 / G2
  with <= 4 lines, every order, Gfa(list); digest of the canonical
  observation (or of the outcome)."""
  out = {}
  for name, U in (("G1", G1), ("G2", G2M)):
    for idx, lines, cls in closure.closed_subsets(U, 4):
      if cls != "valid":
        continue
      for order in schedules.orders(len(lines)):
        oc, ob, det = run_order("list", [lines[i] for i in order], None)
        if ob is not None:
          ob = dict(ob)
          ob.pop("written", None)
        out["{}:{} / {}".format(name, ",".join(map(str, idx)), order)] = \
            h([oc, ob])
  return out


def replay(w, ctx):
  if w.get("clause") == "hashseed-dependent":
    own = slice_cases()
    summary, diffs = schedules.collect_slices(
        schedules.spawn_slices("c03", seeds=(w["hashseed"],)), own)
    return [mkviolation("hashseed-dependent",
                        {"case": c, "seed": str(sd)}, w, "same observation",
                        {"seed0": a, "other": b}) for sd, c, a, b in diffs
            if c == w["case"]]
  doc, order, entry = w["doc"], w["order"], w["entry"]
  out = []
  with schedules.Scratch("c03_") as scratch:
    d = closure.Doc(doc)
    pred_form = model_form(d.predict())
    base = run_order(entry, doc, scratch)
    if base[1] is None and w["clause"] == "valid-document-rejected":
      out.append(mk(doc, order, entry, "valid-document-rejected", base[0],
                    "valid document accepted", base[2]))
    same = list(order) == list(doc)
    probs, oc, ob = judge(doc, order, entry,
                          (base[0], None, base[2]) if same else base,
                          pred_form, scratch)
    for clause, what, exp, obs_ in probs:
      out.append(mk(doc, order, entry, clause, what, exp, obs_))
  return out
