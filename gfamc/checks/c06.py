"""C06 -- GFA1 <=> GFA2 conversion preserves the graph and emits valid output.

Engine I.  Two generic judges, one per direction, compare every record of the
converted document with what gfamc.ref.edges derives from the TEXT of the
source document, parse the converted text at vlevel 3 in the target version,
and convert back.

GFA1 -> GFA2 : L over {A->B, B->A, A->A} x 4 orientation pairs x all CIGARs
               that fit, C at every offset, P (single, linear, circular; each
               link stored as traversed or as complement)
GFA2 -> GFA1 : E over the whole (orientation pair) x (interval)^2 table with
               a CIGAR consistent with the intervals, G / F / U / custom /
               internal E (dropped or refused), O -> P."""
import itertools
import re
import gfapy
from ..ref import edges as R
from ..runner import (guard, timed_out, h, new_result, mkviolation,
                      fingerprint)
from . import c11, c12

PROPERTY = "C06"
T = "\t".join
ORIENTS = c11.ORIENTS
ID_RE = re.compile(r"[!-~]+")

# ---------------------------------------------------------------------------
# text helpers
# ---------------------------------------------------------------------------

NFIELDS = {("gfa1", "S"): 3, ("gfa1", "L"): 6, ("gfa1", "C"): 7,
           ("gfa1", "P"): 4, ("gfa1", "H"): 1, ("gfa2", "S"): 4,
           ("gfa2", "E"): 9, ("gfa2", "O"): 3, ("gfa2", "H"): 1,
           ("gfa2", "G"): 6, ("gfa2", "F"): 9, ("gfa2", "U"): 3}


def split(line, version):
  f = line.split("\t")
  n = NFIELDS.get((version, f[0]), len(f))
  return f[:n], f[n:]


def tag(tags, name):
  for t in tags:
    if t.startswith(name + ":"):
      return t.split(":", 2)[2]
  return None


def without(tags, *names):
  return sorted(t for t in tags if t[:2] not in names)


def _try(fn):
  try:
    return fn()
  except gfapy.Error as e:
    return "<raises {}>".format(type(e).__name__)
  except Exception as e:
    return "<raises! {}: {}>".format(type(e).__name__, str(e)[:60])


def raised(x):
  return isinstance(x, str) and x.startswith("<raises")


E_NAMES = ("sid1", "sid2", "beg1", "end1", "beg2", "end2", "alignment")
L_NAMES = ("record_type", "from_segment", "from_orient", "to_segment",
           "to_orient", "overlap")
C_NAMES = L_NAMES[:5] + ("pos", "overlap")


def cmpf(chk, clause, label, names, exp, obs):
  """Component-wise comparison; the names of the differing components go
  into the field (and so into the key of the violation), so that different
  root causes get different keys."""
  exp = list(exp)
  if exp == obs:
    return
  if isinstance(obs, list) and len(obs) == len(exp) == len(names):
    d = []
    for n, e, o in zip(names, exp, obs):
      if e != o:
        if e == str(o) + "$":
          d.append(n + "[$ missing]")
        elif str(e) + "$" == o:
          d.append(n + "[$ not expected]")
        else:
          d.append(n)
    chk(clause, label + ": " + ",".join(d), exp, obs)
  else:
    chk(clause, label, exp, obs)


def lines_of(g):
  return [str(l) for l in g.lines]


def seg_length1(fields, tags):
  ln = tag(tags, "LN")
  if ln is not None:
    return int(ln)
  return None if fields[2] == "*" else len(fields[2])


def path_walk(segments, overlaps):
  """(steps closed on the first segment if circular, overlaps per step)."""
  steps = R.path_steps(segments)
  ovs = overlaps.split(",")
  n = len(steps)
  if n == 1:
    return steps, []
  if len(ovs) == n:
    return steps + [steps[0]], ovs
  if ovs == ["*"]:
    return steps, ["*"] * (n - 1)
  return steps, ovs


GFA2_OPS = set("MIDP")


def gfa2_compatible(ov):
  ops = R.cigar_parse(ov)
  return ops is not None and all(c in GFA2_OPS for _, c in ops)


# ---------------------------------------------------------------------------
# GFA1 -> GFA2
# ---------------------------------------------------------------------------


def judge_1to2(case):
  out = []

  def chk(clause, field, exp, obs):
    if exp != obs:
      out.append((clause, field, exp, obs))
  lines = case["lines"]
  g = gfapy.Gfa(version="gfa1", vlevel=1)
  for l in lines:
    r = _try(lambda: g.add_line(l))
    if raised(r):
      return [("source-refused", "add_line", None, r)], None
  lengths, S, L, C, P = {}, [], [], [], []
  for l in lines:
    f, tg = split(l, "gfa1")
    {"S": S, "L": L, "C": C, "P": P}.get(f[0], []).append((f, tg, l))
    if f[0] == "S":
      lengths[f[1]] = seg_length1(f, tg)
  # expected records
  exp_e, refused, proper = [], False, True
  for f, tg, l in L + C:
    ov = f[-1]
    if not gfa2_compatible(ov):
      refused = True
      exp_e.append(None)
      continue
    if f[0] == "L":
      e = R.link_to_e(tuple(f[1:6]), lengths, tag(tg, "ID") or "*")
      if not R.proper_dovetail(tuple(f[1:6]), lengths):
        proper = False
    else:
      e = R.containment_to_e(tuple(f[1:7]), lengths, tag(tg, "ID") or "*")
    exp_e.append((e, without(tg, "ID")))
  # E-line view of the L / C lines of the source graph
  src_edges = [x for x in g.edges]
  for (f, tg, l), ee, sl in zip(L + C, exp_e, src_edges):
    if ee is None:
      continue
    e = ee[0]
    obs = _try(lambda: [str(sl.sid1), str(sl.sid2), str(sl.beg1),
                        str(sl.end1), str(sl.beg2), str(sl.end2),
                        str(sl.alignment)])
    cmpf(chk, "edge-view", f[0] + " line seen as an edge", E_NAMES, e[2:],
         obs)
    obs = _try(lambda: sl.to_gfa2_s().split("\t")[2:9])
    cmpf(chk, "line-conversion", f[0] + " line.to_gfa2_s()", E_NAMES, e[2:],
         obs)
  # whole graph
  s2 = _try(lambda: g.to_gfa2_s())
  g2 = _try(lambda: g.to_gfa2())
  if refused:
    # a CIGAR with GFA1-only operations has no GFA2 counterpart: the record
    # is dropped or the conversion is refused with a gfapy.Error
    for what, x in (("to_gfa2_s()", s2), ("to_gfa2()", g2)):
      if raised(x):
        if x.startswith("<raises!"):
          chk("refusal", what, "gfapy.Error or record dropped", x)
      else:
        txt = x.split("\n") if isinstance(x, str) else lines_of(x)
        n_e = sum(1 for t in txt if t.startswith("E\t"))
        chk("refusal", what + ": number of E lines",
            sum(1 for e in exp_e if e is not None), n_e)
    for (f, tg, l), ee, sl in zip(L + C, exp_e, src_edges):
      if ee is None:
        r = _try(lambda: str(sl.to_gfa2()))
        chk("refusal", "line.to_gfa2() of a link with GFA1-only operations",
            True, raised(r) and not r.startswith("<raises!"))
    return out, ("refused",)
  if raised(s2) or raised(g2):
    chk("conversion-raises", "to_gfa2_s() / to_gfa2()", ["text", "Gfa"],
        [s2 if raised(s2) else "text", g2 if raised(g2) else "Gfa"])
    return out, None
  t2 = lines_of(g2)
  chk("string-vs-object", "sorted to_gfa2_s() lines == lines of to_gfa2()",
      sorted(t2), sorted(s2.split("\n")))
  oS = [x for x in t2 if x.startswith("S\t")]
  oE = [x for x in t2 if x.startswith("E\t")]
  oO = [x for x in t2 if x.startswith("O\t")]
  counts = [len(oS), len(oE), len(oO),
            len([x for x in t2 if x[0] not in "SEOH"])]
  chk("records", "record counts S/E/O (+ other)",
      [len(S), len(L) + len(C), len(P), 0], counts)
  if counts != [len(S), len(L) + len(C), len(P), 0]:
    return out, None
  for (f, tg, l), o in zip(S, oS):
    of, ot = split(o, "gfa2")
    chk("segment", "S line", [f[1], str(lengths[f[1]]), f[2],
                              without(tg, "LN")],
        [of[1], of[2], of[3], sorted(ot)])
  names = set(lengths) | set(f[1] for f, _, _ in P)
  eids = {}
  for ((f, tg, l), (e, etags), o) in zip(L + C, exp_e, oE):
    of, ot = split(o, "gfa2")
    cmpf(chk, "edge", f[0] + " -> E", E_NAMES, e[2:], of[2:])
    chk("tags", f[0] + " -> E: tags", etags, sorted(ot))
    if e[1] != "*":
      chk("edge-id", f[0] + " -> E: eid", e[1], of[1])
    else:
      ok = of[1] != "*" and ID_RE.fullmatch(of[1]) is not None and \
          of[1] not in names and of[1] not in eids
      chk("edge-id", f[0] + " -> E: assigned eid is a fresh identifier",
          True, ok)
    eids[of[1]] = (f, e)
  # paths
  link_eid = {}
  for eid, (f, e) in eids.items():
    if f[0] == "L":
      link_eid[tuple(f[1:6])] = eid
  for (f, tg, l), o in zip(P, oO):
    of, ot = split(o, "gfa2")
    chk("path", "P -> O: name", f[1], of[1])
    chk("tags", "P -> O: tags", sorted(tg), sorted(ot))
    steps, ovs = path_walk(f[2], f[3])
    items = of[2].split(" ")
    exp_items = []
    ok = len(items) == max(1, 2 * len(steps) - 1)
    for i, st in enumerate(steps):
      exp_items.append(st[0] + st[1])
      if i < len(steps) - 1:
        stored = case["meta"]["stored"][f[1]][i]
        al = c12.allowed_orients(tuple(stored), (st, steps[i + 1]), ovs[i])
        exp_items.append("{}{}".format(link_eid.get(tuple(stored), "?"),
                                       "|".join(sorted(al))))
        if ok:
          it = items[2 * i + 1]
          if it[:-1] != link_eid.get(tuple(stored)) or it[-1] not in al:
            ok = False
      if ok and items[2 * i] != st[0] + st[1]:
        ok = False
    if not ok:
      chk("path", "P -> O: items", exp_items, items)
  # the converted text is valid GFA2 at the strictest level
  v = _try(lambda: gfapy.Gfa("\n".join(t2), version="gfa2",
                             vlevel=3).validate())
  chk("invalid-output", "converted text parsed with vlevel=3 as gfa2", None,
      v)
  # there and back
  back = _try(lambda: lines_of(g2.to_gfa1()))
  if raised(back):
    chk("round-trip", "to_gfa2().to_gfa1()", "a Gfa", back)
    return out, tuple(t2)
  v = _try(lambda: gfapy.Gfa("\n".join(back), version="gfa1",
                             vlevel=3).validate())
  chk("invalid-output", "round trip text parsed with vlevel=3 as gfa1", None,
      v)
  chk("round-trip", "no virtual lines written", [],
      [x for x in back if "GFAPY_virtual_line" in x])
  if proper:
    # the order of the records is free: paired by record type and identifier
    def okey(x):
      f, tg = split(x, "gfa1")
      ident = tag(tg, "ID") if f[0] in "LC" else f[1]
      return ("SLCP".index(f[0]), str(ident), x if ident is None else "")
    src = sorted((x for x in lines if x[0] in "SLCP"), key=okey)
    bk = sorted((x for x in back if x[0] in "SLCP"), key=okey)
    chk("round-trip", "record types", [x[0] for x in src],
        [x[0] for x in bk])
    if len(src) == len(bk):
      for a, b in zip(src, bk):
        d = equiv1(a, b)
        if d:
          chk("round-trip", "GFA1 -> GFA2 -> GFA1: " + d, a, b)
  return out, tuple(t2)


def equiv1(a, b):
  """None if GFA1 lines a (original) and b (there and back) are equivalent,
  else what differs."""
  fa, ta = split(a, "gfa1")
  fb, tb = split(b, "gfa1")
  if fa[0] != fb[0]:
    return "record type"
  rt = fa[0]
  if rt == "S":
    if (fa[1], fa[2], seg_length1(fa, ta)) != (fb[1], fb[2],
                                               seg_length1(fb, tb)):
      return "segment"
    if without(ta, "LN") != without(tb, "LN"):
      return "segment tags"
    return None
  if rt in "LC":
    if rt == "L":
      if not R.link_same_edge(tuple(fa[1:6]), tuple(fb[1:6])):
        return "link"
    elif fa[1:] != fb[1:]:
      return "containment"
    if without(ta, "ID") != without(tb, "ID"):
      return "edge tags"
    if tag(ta, "ID") is not None and tag(ta, "ID") != tag(tb, "ID"):
      return "edge identifier"
    return None
  if rt == "P":
    if fa[1] != fb[1]:
      return "path name"
    sa, oa = path_walk(fa[2], fa[3])
    sb, ob = path_walk(fb[2], fb[3])
    if sa != sb:
      return "path segments"
    if len(oa) != len(ob) or any(x != "*" and x != y
                                 for x, y in zip(oa, ob)):
      return "path overlaps"
    if sorted(ta) != sorted(tb):
      return "path tags"
    return None
  return None


# ---------------------------------------------------------------------------
# GFA2 -> GFA1
# ---------------------------------------------------------------------------


def judge_2to1(case):
  out = []

  def chk(clause, field, exp, obs):
    if exp != obs:
      out.append((clause, field, exp, obs))
  lines = case["lines"]
  g = gfapy.Gfa(version="gfa2", vlevel=1)
  for l in lines:
    r = _try(lambda: g.add_line(l))
    if raised(r):
      return [("source-refused", "add_line", None, r)], None
  lengths, S, E, O, X = {}, [], [], [], []
  for l in lines:
    f, tg = split(l, "gfa2")
    {"S": S, "E": E, "O": O}.get(f[0], X).append((f, tg, l))
    if f[0] == "S":
      lengths[f[1]] = int(f[2])
  exp1 = []           # per E line: None (no counterpart) or GFA1 tuple
  for f, tg, l in E:
    e = R.parse_e(l)
    x = R.e_to_gfa1(e, lengths)
    exp1.append(x)
  # GFA1 view of the E lines of the source graph
  for (f, tg, l), x, el in zip(E, exp1, list(g.edges)):
    if x is None:
      obs = _try(lambda: [str(el.from_segment.name), el.from_orient])
      chk("edge-view", "internal E: from_segment/from_orient",
          True, raised(obs) and not obs.startswith("<raises!"))
      r = _try(lambda: str(el.to_gfa1()))
      chk("refusal", "line.to_gfa1() of an internal E",
          True, raised(r) and not r.startswith("<raises!"))
      r = _try(lambda: el.to_gfa1_s())
      chk("refusal", "line.to_gfa1_s() of an internal E",
          True, raised(r) and not r.startswith("<raises!"))
      continue
    obs = _try(lambda: [el.from_segment.name, el.from_orient,
                        el.to_segment.name, el.to_orient, str(el.overlap)])
    cmpf(chk, "edge-view", "E[{}] seen as a GFA1 edge".format(x[0]),
         L_NAMES[1:], [x[1], x[2], x[3], x[4], x[-1]], obs)
    if x[0] == "C":
      chk("edge-view", "E[C]: pos", x[5], _try(lambda: str(int(el.pos))))
    else:
      r = _try(lambda: str(el.pos))
      chk("edge-view", "E[L]: pos is refused", True, raised(r))
    cmpf(chk, "line-conversion", "E[{}] line.to_gfa1_s()".format(x[0]),
         L_NAMES if x[0] == "L" else C_NAMES, x,
         _try(lambda: el.to_gfa1_s().split("\t")[:len(x)]))
  for f, tg, l in X:
    if f[0] in "H#":
      continue
    ln = [z for z in g.lines if str(z) == l]
    if ln:
      r = _try(lambda: str(ln[0].to_gfa1()))
      chk("refusal", "line.to_gfa1() of a {} line".format(f[0]), True,
          raised(r) and not r.startswith("<raises!"))
  s1 = _try(lambda: g.to_gfa1_s())
  g1 = _try(lambda: g.to_gfa1())
  if raised(s1) or raised(g1):
    chk("conversion-raises", "to_gfa1_s() / to_gfa1()", ["text", "Gfa"],
        [s1 if raised(s1) else "text", g1 if raised(g1) else "Gfa"])
    return out, None
  t1 = lines_of(g1)
  chk("string-vs-object", "sorted to_gfa1_s() lines == lines of to_gfa1()",
      sorted(t1), sorted(s1.split("\n")) if s1 else [])
  oS = [x for x in t1 if x.startswith("S\t")]
  oL = [x for x in t1 if x.startswith("L\t")]
  oC = [x for x in t1 if x.startswith("C\t")]
  oP = [x for x in t1 if x.startswith("P\t")]
  eL = [(x, e) for x, e in zip(exp1, E) if x is not None and x[0] == "L"]
  eC = [(x, e) for x, e in zip(exp1, E) if x is not None and x[0] == "C"]
  walks = case["meta"].get("walks", {})
  eP = [o for o in O if o[0][1] in walks]
  counts = [len(oS), len(oL), len(oC), len(oP),
            len([x for x in t1 if x[0] not in "SLCPH"])]
  chk("records", "record counts S/L/C/P (+ other)",
      [len(S), len(eL), len(eC), len(eP), 0], counts)
  if counts != [len(S), len(eL), len(eC), len(eP), 0]:
    return out, None
  for (f, tg, l), o in zip(S, oS):
    of, ot = split(o, "gfa1")
    chk("segment", "S line", [f[1], f[3], f[2], sorted(tg)],
        [of[1], of[2], tag(ot, "LN"), without(ot, "LN")])
  for (x, (f, tg, l)), o in list(zip(eL, oL)) + list(zip(eC, oC)):
    of, ot = split(o, "gfa1")
    cmpf(chk, "edge", "E -> {}".format(x[0]),
         L_NAMES if x[0] == "L" else C_NAMES, x, of)
    chk("tags", "E -> {}: tags".format(x[0]), sorted(tg), without(ot, "ID"))
    chk("edge-id", "E -> {}: ID tag".format(x[0]),
        None if f[1] == "*" else f[1], tag(ot, "ID"))
  v = _try(lambda: gfapy.Gfa("\n".join(t1), version="gfa1",
                             vlevel=3).validate())
  chk("invalid-output", "converted text parsed with vlevel=3 as gfa1", None,
      v)
  chk("invalid-output", "no virtual lines written", [],
      [x for x in t1 if "GFAPY_virtual_line" in x])
  # paths: same oriented segments through the same edges
  for (f, tg, l), o in zip(eP, oP):
    of, ot = split(o, "gfa1")
    w = walks[f[1]]
    chk("path", "O -> P: name", f[1], of[1])
    chk("tags", "O -> P: tags", sorted(tg), sorted(ot))
    steps, ovs = path_walk(of[2], of[3])
    chk("path", "O -> P: oriented segments", w["steps"],
        [a + b for a, b in steps])
    p = g1.line(f[1])
    lk = _try(lambda: [[x.line.name if not gfapy.is_placeholder(x.line.name)
                        else "*", bool(x.line.virtual)] for x in p.links])
    chk("path", "O -> P: links the path resolves to (ID, virtual)",
        [[e, False] for e in w["edges"]], lk)
  # there and back
  if case["meta"].get("roundtrip", True):
    back = _try(lambda: lines_of(g1.to_gfa2()))
    if raised(back):
      chk("round-trip", "to_gfa1().to_gfa2()", "a Gfa", back)
      return out, tuple(t1)
    v = _try(lambda: gfapy.Gfa("\n".join(back), version="gfa2",
                               vlevel=3).validate())
    chk("invalid-output", "round trip text parsed with vlevel=3 as gfa2",
        None, v)
    src = [l for f, tg, l in S] + [e[2] for x, e in eL + eC]
    bk = [x for x in back if x[0] in "SE"]
    chk("round-trip", "record types", [x[0] for x in src],
        [x[0] for x in bk])
    if len(src) == len(bk):
      for a, b in zip(src, bk):
        d = equiv2(a, b)
        if d:
          chk("round-trip", "GFA2 -> GFA1 -> GFA2: " + d, a, b)
  return out, tuple(t1)


def equiv2(a, b):
  fa, ta = split(a, "gfa2")
  fb, tb = split(b, "gfa2")
  if fa[0] != fb[0]:
    return "record type"
  if fa[0] == "S":
    return None if (fa[1:], sorted(ta)) == (fb[1:], sorted(tb)) \
        else "segment"
  if fa[0] == "E":
    same = fa[2:] == fb[2:]
    swapped = [fa[3], fa[2], fa[6], fa[7], fa[4], fa[5],
               R.cigar_complement(fa[8])] == fb[2:]
    if not (same or swapped):
      return "edge (neither equal nor sides exchanged with the alignment " \
             "complemented)"
    if fa[1] != "*" and fa[1] != fb[1]:
      return "edge identifier"
    if sorted(ta) != sorted(tb):
      return "edge tags"
  return None


# ---------------------------------------------------------------------------
# cases
# ---------------------------------------------------------------------------

LEN1 = {"A": 4, "B": 5, "C": 2}
SEQ = {"A": "ACGT", "B": "ACGTA", "C": "AC"}


def seg1(name, with_seq, length=None, tags=()):
  n = length or LEN1[name]
  if with_seq:
    return T(("S", name, ("ACGT" * 3)[:n]) + tuple(tags))
  return T(("S", name, "*", "LN:i:{}".format(n)) + tuple(tags))


def cases_1to2_links(ops, lens, maxops, quick=False):
  cigs = R.all_cigars(ops, lens, maxops)
  for with_seq in (True, False):
    segs = [seg1("A", with_seq, tags=("xx:i:1",)), seg1("B", with_seq),
            seg1("C", with_seq)]
    for named in ((not with_seq,) if quick else (False, True)):
      tags = ("ID:Z:e1", "MQ:i:3", "xy:Z:t") if named else ()
      for f, t in (("A", "B"), ("B", "A"), ("A", "A")):
        for fo, to in ORIENTS:
          for c in cigs:
            r, q = R.cigar_reflen(c), R.cigar_querylen(c)
            if r > LEN1[f] or q > LEN1[t]:
              continue
            kind = "proper" if (r < LEN1[f] and q < LEN1[t]) else "whole"
            if not gfa2_compatible(c):
              kind = "gfa1-only"
            yield {"dir": "1to2", "family": "L",
                   "cell": "{}{}{}{} {} {} {}".format(
                       f, fo, t, to, kind, "named" if named else "unnamed",
                       "seq" if with_seq else "LN"),
                   "cigar": c,
                   "lines": segs + [T(("L", f, fo, t, to, c) + tags)],
                   "meta": {}}


def cases_1to2_containments(ops, lens, maxops, quick=False):
  cigs = R.all_cigars(ops, lens, maxops)
  for with_seq in (True, False):
    segs = [seg1("A", with_seq), seg1("B", with_seq, tags=("xx:i:1",)),
            seg1("C", with_seq)]
    for named in ((not with_seq,) if quick else (False, True)):
      tags = ("ID:Z:c1", "NM:i:0") if named else ()
      for f, t in (("A", "C"), ("B", "C"), ("B", "A")):
        for fo, to in ORIENTS:
          for c in cigs:
            if not gfa2_compatible(c):
              continue
            r, q = R.cigar_reflen(c), R.cigar_querylen(c)
            if q != LEN1[t] or r > LEN1[f]:
              continue
            for pos in range(0, LEN1[f] - r + 1):
              yield {"dir": "1to2", "family": "C",
                     "cell": "{}{}{}{} pos={}{} {} {}".format(
                         f, fo, t, to, pos,
                         " to-end" if pos + r == LEN1[f] else "",
                         "named" if named else "unnamed",
                         "seq" if with_seq else "LN"),
                     "cigar": c,
                     "lines": segs + [T(("C", f, fo, t, to, str(pos), c) +
                                        tags)],
                     "meta": {}}


PATH_CIGARS = ("1M1I", "1D1M")     # reference / query lengths 1/2 and 2/1


def cases_1to2_paths(quick):
  """Paths of 1..3 oriented segments over {A,B,C} (all of length 4), linear
  and circular; every edge stored as traversed or as its complement; overlaps
  of the P line `*` or specified in the direction of the path."""
  osegs = [(n, o) for n in "ABC" for o in "+-"]
  for n in (1, 2, 3):
    for steps in itertools.product(osegs, repeat=n):
      if quick and n == 3 and steps[0][0] != "A":
        continue
      for circular in ((False,) if n == 1 else (False, True)):
        walk = list(steps) + ([steps[0]] if circular else [])
        need = [(walk[i][0], walk[i][1], walk[i + 1][0], walk[i + 1][1])
                for i in range(len(walk) - 1)]
        edges = []
        for e in need:
          if not any(R.link_same_end_pair(e + ("*",), x + ("*",))
                     for x in edges):
            edges.append(e)
        formsels = list(itertools.product((0, 1), repeat=len(edges)))
        for formsel in formsels:
          for pov in ("*", "cigar"):
            if n == 1 and (pov == "cigar"):
              continue
            stored = []
            for k, (e, fsel) in enumerate(zip(edges, formsel)):
              l = e + (PATH_CIGARS[k % 2],)
              stored.append(R.link_complement(l) if fsel else l)
            sfs, povs = [], []
            for e in need:
              for x, st in zip(edges, stored):
                if R.link_same_end_pair(e + ("*",), x + ("*",)):
                  sfs.append(list(st))
                  povs.append(st[4] if tuple(st[:4]) == e
                              else R.cigar_complement(st[4]))
                  break
            if n == 1:
              ovf = "*"
            elif pov == "*":
              ovf = ",".join(["*"] * n) if circular else "*"
            else:
              ovf = ",".join(povs)
            segs = [seg1(x, True, 4) for x in sorted(set(s[0]
                                                         for s in steps))]
            ll = [T(("L",) + tuple(st) + ("ID:Z:k{}".format(i),))
                  for i, st in enumerate(stored)]
            if len(set(tuple(x) for x in stored)) != len(stored):
              continue
            pl = T(("P", "p", ",".join(a + b for a, b in steps), ovf,
                    "zz:Z:q"))
            cell = "{} {} stored={} overlaps={}".format(
                ",".join(a + b for a, b in steps),
                "circular" if circular else "linear",
                "".join(map(str, formsel)) or "-", pov)
            yield {"dir": "1to2", "family": "P", "cell": cell,
                   "cigar": "-", "lines": segs + ll + [pl],
                   "meta": {"stored": {"p": sfs}}}
            if n == 1:
              continue
            # the same with the path arriving BEFORE its links (placeholder
            # links, replaced later), and together with the path that walks
            # the same links in the opposite direction
            flip = {"+": "-", "-": "+"}
            rsteps = [(a, flip[b]) for a, b in reversed(steps)]
            rwalk = rsteps + ([rsteps[0]] if circular else [])
            rneed = [(rwalk[i][0], rwalk[i][1], rwalk[i + 1][0],
                      rwalk[i + 1][1]) for i in range(len(rwalk) - 1)]
            sfs2, povs2 = [], []
            for e in rneed:
              for x, st in zip(edges, stored):
                if R.link_same_end_pair(e + ("*",), x + ("*",)):
                  sfs2.append(list(st))
                  povs2.append(st[4] if tuple(st[:4]) == e
                               else R.cigar_complement(st[4]))
                  break
            if len(sfs2) != len(rneed):
              continue
            if pov == "*":
              ovf2 = ",".join(["*"] * n) if circular else "*"
            else:
              ovf2 = ",".join(povs2)
            pl2 = T(("P", "q", ",".join(a + b for a, b in rsteps), ovf2))
            yield {"dir": "1to2", "family": "P",
                   "cell": cell + " path-first", "cigar": "-",
                   "lines": segs + [pl] + ll,
                   "meta": {"stored": {"p": sfs}}}
            for tag_, order in (("both,links-first", segs + ll + [pl, pl2]),
                                ("both,paths-first", segs + [pl, pl2] + ll),
                                ("both,reverse-first", [pl2, pl] + ll + segs)):
              if quick and tag_ == "both,links-first":
                continue
              yield {"dir": "1to2", "family": "P",
                     "cell": cell + " " + tag_, "cigar": "-", "lines": order,
                     "meta": {"stored": {"p": sfs, "q": sfs2}}}


def consistent_cigar(r, q):
  """A CIGAR with reference length r and query length q that differs from
  its own complement whenever r + q > 0."""
  if r == 0 and q == 0:
    return "1P"
  m = min(r, q)
  ops = []
  if r == q:
    ops = [(1, "P"), (m, "M")]
  else:
    if m:
      ops.append((m, "M"))
    if r > m:
      ops.append((r - m, "D"))
    if q > m:
      ops.append((q - m, "I"))
    if len(ops) == 1:
      ops.insert(0, (1, "P"))
  return R.cigar_text(ops)


def cases_2to1_edges(quick):
  for with_seq in (True, False):
    seq = "ACG" if with_seq else "*"
    sa = T(["S", "a", "3", seq, "xx:i:1"])
    sb = T(["S", "b", "3", seq])
    for named in (True, False):
      tags = ("xy:Z:t", "TS:i:2") if named else ()
      for alnkind in ("cigar", "*"):
        for n1, n2 in (("a", "b"), ("a", "a")):
          for o1, o2 in ORIENTS:
            for p1 in c11.POSITIONS:
              for p2 in c11.POSITIONS:
                k1, k2 = R.interval_kind(*p1), R.interval_kind(*p2)
                r = R.parse_pos(p1[1])[0] - R.parse_pos(p1[0])[0]
                q = R.parse_pos(p2[1])[0] - R.parse_pos(p2[0])[0]
                aln = consistent_cigar(r, q) if alnkind == "cigar" else "*"
                e = T(("E", "e" if named else "*", n1 + o1, n2 + o2, p1[0],
                       p1[1], p2[0], p2[1], aln) + tags)
                yield {"dir": "2to1", "family": "E",
                       "cell": "{}{} {}/{} {}->{} {} {} aln={}".format(
                           o1, o2, k1, k2, n1, n2,
                           "named" if named else "unnamed",
                           "seq" if with_seq else "noseq", alnkind),
                       "cigar": aln,
                       "lines": [sa, sb, e],
                       "meta": {"roundtrip": alnkind == "cigar"}}


def cases_2to1_other():
  """Records without a GFA1 counterpart next to convertible ones."""
  sa, sb = T(["S", "a", "4", "ACGT"]), T(["S", "b", "4", "*"])
  e = T(["E", "e", "a+", "b+", "2", "4$", "0", "2", "1P2M"])
  extras = {"G": T(["G", "g", "a+", "b-", "10", "*"]),
            "G*": T(["G", "*", "a-", "b+", "10", "2"]),
            "F": T(["F", "a", "x+", "0", "2", "0", "2", "*"]),
            "U": T(["U", "u", "a b e"]),
            "U*": T(["U", "*", "a b"]),
            "custom": T(["X", "some", "thing"]),
            "internal": T(["E", "i", "a+", "b-", "1", "2", "1", "2", "1M"]),
            "H": T(["H", "VN:Z:2.0"])}
  keys = sorted(extras)
  for n in (1, 2):
    for ks in itertools.combinations(keys, n):
      yield {"dir": "2to1", "family": "other", "cell": "+".join(ks),
             "cigar": "-",
             "lines": [sa, sb, e] + [extras[k] for k in ks],
             "meta": {"roundtrip": False}}


def cases_2to1_paths():
  """O -> P: a -> b -> c with every orientation triple; each E written with
  the from side as sid1 or as sid2; O written with or without the edges,
  forwards or backwards."""
  for x, y, z in itertools.product("+-", repeat=3):
    for form1, form2 in itertools.product((0, 1), repeat=2):
      l1 = ("a", x, "b", y, "1M1I")
      l2 = ("b", y, "c", z, "1D1M")
      lens = {"a": 4, "b": 4, "c": 4}
      els = []
      for eid, l, form in (("e1", l1, form1), ("e2", l2, form2)):
        e = R.link_to_e(l, lens, eid)
        if form:        # the same edge written from the other side
          e = ("E", eid, e[3], e[2], e[6], e[7], e[4], e[5],
               R.cigar_complement(e[8]))
        els.append(T(e))
      segs = [T(["S", n, "4", "*"]) for n in "abc"]
      fwd = ["a" + x, "b" + y, "c" + z]
      rev = ["c" + R.INV[z], "b" + R.INV[y], "a" + R.INV[x]]
      for style in ("segments", "with-edges", "reversed-segments",
                    "reversed-with-edges", "first-edge-only"):
        if style == "segments":
          items, steps, edges = fwd, fwd, ["e1", "e2"]
        elif style == "with-edges":
          items = [fwd[0], "e1+", fwd[1], "e2+", fwd[2]]
          steps, edges = fwd, ["e1", "e2"]
        elif style == "reversed-segments":
          items, steps, edges = rev, rev, ["e2", "e1"]
        elif style == "reversed-with-edges":
          items = [rev[0], "e2-", rev[1], "e1-", rev[2]]
          steps, edges = rev, ["e2", "e1"]
        else:
          items, steps, edges = [fwd[0], "e1+", fwd[1]], fwd[:2], ["e1"]
        o = T(["O", "p", " ".join(items), "zz:Z:q"])
        yield {"dir": "2to1", "family": "O",
               "cell": "a{}b{}c{} sides={}{} {}".format(x, y, z, form1,
                                                      form2, style),
               "cigar": "-", "lines": segs + els + [o],
               "meta": {"roundtrip": False,
                        "walks": {"p": {"steps": steps, "edges": edges}}}}
  # single-segment group
  for x in "+-":
    yield {"dir": "2to1", "family": "O", "cell": "single a" + x,
           "cigar": "-",
           "lines": [T(["S", "a", "4", "*"]), T(["O", "p", "a" + x])],
           "meta": {"roundtrip": False,
                    "walks": {"p": {"steps": ["a" + x], "edges": []}}}}


# ---------------------------------------------------------------------------
# execution
# ---------------------------------------------------------------------------


# ---------------------------------------------------------------------------
# header tags and comments are carried over (family H)

H_SETS = [
    ["H\tVN:Z:{VN}"], ["H\tVN:Z:{VN}\txx:i:1"], ["H\tTS:i:100"],
    ["H\tVN:Z:{VN}\tTS:i:100\taa:A:c\tjj:J:[1]\tbb:B:C,1,2\tff:f:1.5\thh:H:1A"],
    ["H\txx:i:1", "H\txx:i:2"], ["H\tzz:Z:a b", "H\tTS:i:5", "H\tzz:Z:c"],
    ["# c"], ["#  two  blanks", "H\tTS:i:7", "#x"], []]


def cases_headers():
  for d, vn, seg, edge in (
      ("1to2", "1.0", ["S\tA\t*\tLN:i:4", "S\tB\tACGT"],
       "L\tA\t+\tB\t-\t2M"),
      ("2to1", "2.0", ["S\ta\t4\t*", "S\tb\t4\tACGT"],
       "E\te\ta+\tb-\t2\t4$\t2\t4$\t2M")):
    for i, hs in enumerate(H_SETS):
      hl = [h_.replace("{VN}", vn) for h_ in hs]
      for order in ("first", "last"):
        lines = hl + seg + [edge] if order == "first" else seg + [edge] + hl
        yield {"dir": d, "family": "H", "cell": "set{} {}".format(i, order),
               "cigar": "-", "lines": lines, "meta": {}}


def judge_headers(case):
  out = []

  def chk(clause, field, exp, obs):
    if exp != obs:
      out.append((clause, field, exp, obs))
  src = "gfa1" if case["dir"] == "1to2" else "gfa2"
  dst = "gfa2" if src == "gfa1" else "gfa1"
  tvn = "2.0" if dst == "gfa2" else "1.0"
  g = gfapy.Gfa(version=src, vlevel=1)
  for l in case["lines"]:
    g.add_line(l)

  def hc(lines):
    tags, comments = [], []
    for l in lines:
      if l.startswith("H"):
        tags += l.split("\t")[1:]
      elif l.startswith("#"):
        comments.append(l)
    return sorted(tags), sorted(comments)
  wt, wc = hc(case["lines"])
  wt = sorted(("VN:Z:" + tvn) if t.startswith("VN:") else t for t in wt)
  for how in ("_s", ""):
    r = _try(lambda: getattr(g, "to_" + dst + how)())
    if raised(r):
      chk("conversion-raises", "to_{}{}()".format(dst, how), None, r)
      continue
    text = r if how == "_s" else str(r)
    gt, gc = hc([x for x in text.split("\n") if x])
    chk("header", "to_{}{}(): header tags".format(dst, how), wt, gt)
    chk("header", "to_{}{}(): comments".format(dst, how), wc, gc)
    v = _try(lambda: gfapy.Gfa(text, version=dst, vlevel=3).validate())
    chk("invalid-output", "to_{}{}() parsed with vlevel=3".format(dst, how),
        None, v)
  return out, tuple(sorted(case["lines"]))


# ---------------------------------------------------------------------------
# line-level conversion of paths BEFORE their (unnamed) links: the edge names
# the path line invents must be the names the links are then written with

def cases_linelevel(quick):
  for c in cases_1to2_paths(quick):
    if " both," in c["cell"] or " path-first" in c["cell"]:
      continue
    lines = []
    for l in c["lines"]:
      f = l.split("\t")
      if f[0] == "L":
        f = [x for x in f if not x.startswith("ID:Z:")]
      lines.append("\t".join(f))
    yield {"dir": "1to2", "family": "Pline", "cell": c["cell"], "cigar": "-",
           "lines": lines, "meta": {}}


def judge_linelevel(case):
  out = []

  def chk(clause, field, exp, obs):
    if exp != obs:
      out.append((clause, field, exp, obs))
  for order in ("paths-first", "links-first"):
    g = gfapy.Gfa(version="gfa1", vlevel=1)
    for l in case["lines"]:
      g.add_line(l)
    groups = [("P", list(g.paths)), ("L", list(g.dovetails)),
              ("S", list(g.segments))]
    if order == "links-first":
      groups = [groups[1], groups[0], groups[2]]
    texts = []
    r = None
    for rt, ls in groups:
      for l in ls:
        r = _try(lambda: l.to_gfa2_s())
        if raised(r):
          break
        texts.append(r)
      if raised(r):
        break
    if raised(r):
      chk("conversion-raises", order + ": line.to_gfa2_s()", None, r)
      continue
    def build():
      c = gfapy.Gfa(texts, version="gfa2", vlevel=3)
      c.validate()
      return c
    c = _try(build)
    if raised(c):
      chk("invalid-output", order + ": converted lines parsed with vlevel=3",
          None, c)
      continue
    for p in g.paths:
      want = [str(x.name) + x.orient for x in p.segment_names]
      ptext = str(p).split("\t")
      if len(want) > 1 and len(ptext[3].split(",")) == len(want):
        # circular path: the ordered group comes back to its first segment
        want = want + [want[0]]
      o = c.line(p.name)
      got = _try(lambda: [str(x.name) + x.orient
                          for x in o.captured_segments])
      chk("line-conversion", order + ": segments of the converted path " +
          str(p.name), want, got)
  return out, tuple(sorted(case["lines"]))


# ---------------------------------------------------------------------------
# a Line object moved from one Gfa to another (disconnected there, added
# here) is converted as a line of the Gfa it is in now

def cases_moved():
  segs = [T(["S", n, "ACGT"]) for n in "ABC"]
  for pname, steps, ov in (("p", "A+,B-,C+", "1M,1M"), ("p", "C-,B+", "*"),
                           ("p", "A+,B-", "1M")):
    for ida, idb in (("la", "lb"), ("x", "x")):
      def links(pre):
        return [T(["L", "A", "+", "B", "-", "1M", "ID:Z:" + pre + "1"]),
                T(["L", "B", "-", "C", "+", "1M", "ID:Z:" + pre + "2"])]
      yield {"dir": "1to2", "family": "moved",
             "cell": "{} {} ids {}/{}".format(steps, ov, ida, idb),
             "cigar": "-", "lines": segs + links(idb),
             "meta": {"other": segs + links(ida),
                      "path": T(["P", pname, steps, ov])}}


def judge_moved(case):
  out = []

  def chk(clause, field, exp, obs):
    if exp != obs:
      out.append((clause, field, exp, obs))
  a = gfapy.Gfa(case["meta"]["other"] + [case["meta"]["path"]], version="gfa1")
  b = gfapy.Gfa(case["lines"], version="gfa1")
  p = a.line("p")
  p.disconnect()
  r = _try(lambda: b.add_line(p))
  if raised(r):
    chk("conversion-raises", "adding the moved path", None, r)
    return out, None
  fresh = gfapy.Gfa(case["lines"] + [case["meta"]["path"]], version="gfa1")
  before_a = sorted(str(x) for x in a.lines)
  for how in ("_s", ""):
    got = _try(lambda: getattr(b, "to_gfa2" + how)())
    want = _try(lambda: getattr(fresh, "to_gfa2" + how)())
    if raised(got) or raised(want):
      chk("conversion-raises", "to_gfa2{}() with a moved path".format(how),
          want if raised(want) else None, got if raised(got) else None)
      continue
    gt = sorted((got if how == "_s" else str(got)).split("\n"))
    wt = sorted((want if how == "_s" else str(want)).split("\n"))
    chk("line-conversion", "to_gfa2{}(): the Gfa with the moved path against "
        "the same text parsed afresh".format(how), wt, gt)
  chk("line-conversion", "the Gfa the path came from", before_a,
      sorted(str(x) for x in a.lines))
  return out, tuple(sorted(case["lines"]))


# ---------------------------------------------------------------------------
# ordered groups that walk over an edge which is not a dovetail: no GFA1
# counterpart (dropped from the graph conversion, refused line by line)

def cases_nondovetail_groups():
  segs = [T(["S", "a", "10", "*"]), T(["S", "b", "4", "*"]),
          T(["S", "c", "10", "*"])]
  dov = T(["E", "d", "a+", "c+", "8", "10$", "0", "2", "2M"])
  for kind, e in (("containment", T(["E", "k", "a+", "b+", "2", "6", "0", "4$", "4M"])),
                  ("containment-rev", T(["E", "k", "b-", "a-", "0", "4$", "4", "8", "4M"])),
                  ("internal", T(["E", "k", "a+", "b+", "2", "5", "1", "3", "2M"]))):
    for items in ("a+ b+", "a+ k+ b+", "c- a- b-" if kind == "containment-rev"
                  else "b- a- c-", "k+"):
      yield {"dir": "2to1", "family": "Onondov",
             "cell": "{} O p {}".format(kind, items), "cigar": "-",
             "lines": segs + [e, dov, T(["O", "p", items]),
                              T(["O", "q", "a+ c+"])], "meta": {}}


def judge_nondovetail(case):
  out = []

  def chk(clause, field, exp, obs):
    if exp != obs:
      out.append((clause, field, exp, obs))
  g = gfapy.Gfa(case["lines"], version="gfa2", vlevel=1)
  cp = _try(lambda: g.line("p").captured_path)
  if raised(cp):
    return out, None        # not a valid walk: C17's business
  for how in ("_s", ""):
    r = _try(lambda: getattr(g, "to_gfa1" + how)())
    if raised(r):
      chk("conversion-raises", "to_gfa1{}()".format(how), None, r)
      continue
    text = r if how == "_s" else str(r)
    ls = [x for x in text.split("\n") if x]
    chk("mistranslated", "to_gfa1{}(): path lines written".format(how),
        ["q"], sorted(x.split("\t")[1] for x in ls if x[0] == "P"))
    chk("mistranslated", "to_gfa1{}(): placeholder lines written".format(how),
        [], [x for x in ls if "GFAPY_virtual_line" in x])
    v = _try(lambda: gfapy.Gfa(text, version="gfa1", vlevel=3).validate())
    chk("invalid-output", "to_gfa1{}() parsed with vlevel=3".format(how),
        None, v)
  r = _try(lambda: g.line("p").to_gfa1())
  chk("mistranslated", "O p .to_gfa1() is refused", True, raised(r))
  return out, tuple(sorted(case["lines"]))


def judge(case):
  fn = judge_1to2 if case["dir"] == "1to2" else judge_2to1
  if case["family"] == "Onondov":
    fn = judge_nondovetail
  if case["family"] == "moved":
    fn = judge_moved
  if case["family"] == "H":
    fn = judge_headers
  elif case["family"] == "Pline":
    fn = judge_linelevel
  try:
    with guard():
      probs, st = fn(case)
  except BaseException:
    if timed_out():
      return [("timeout", "case", "terminates", "time budget exceeded")], None
    raise
  if timed_out():
    return [("timeout", "case", "terminates", "time budget exceeded")], None
  return probs, st


def standalone(case):
  v = "gfa1" if case["dir"] == "1to2" else "gfa2"
  w = "gfa2" if v == "gfa1" else "gfa1"
  s = ["import gfapy", "g = gfapy.Gfa(version={!r})".format(v)]
  s += ["g.add_line({!r})".format(l) for l in case["lines"]]
  s += ["print(g.to_{}_s())".format(w), "c = g.to_{}()".format(w),
        "print(c)",
        "gfapy.Gfa(str(c), version={!r}, vlevel=3).validate()".format(w),
        "print(c.to_{}())".format(v)]
  return "\n".join(s)


def violations_of(case, probs):
  out = []
  for clause, field, exp, obs in probs:
    key = {"direction": case["dir"], "family": case["family"],
           "cell": case["cell"], "cigar": case["cigar"], "field": field}
    out.append(mkviolation(clause, key, case, exp, obs, standalone(case)))
  return out


def work(cases):
  res = new_result()
  for case in cases:
    probs, st = judge(case)
    res["evaluations"] += 1
    res["traces"] += 1
    res["transitions"] += len(case["lines"]) + 4
    if st is not None:
      res["states"].add(h([case["dir"], list(st)]))
      res["outcomes"].add("{}:{}:{}".format(
          case["dir"], case["family"],
          "refused" if st == ("refused",) else
          "".join(sorted(set(x[0] for x in st)))))
      if any(x[0] in "ELCOP" for x in st):
        res["nontrivial"].add(h([case["dir"], list(st)]))
    else:
      res["outcomes"].add("no-conversion")
    if probs:
      res["violations"].extend(violations_of(case, probs))
    elif h([case["cell"], case["cigar"]])[:2] == "00":
      res["samples"].append({"direction": case["dir"], "source": [
          l.replace("\t", " ") for l in case["lines"]], "converted": [
              l.replace("\t", " ") for l in (st or ())]})
  return res


def chunks(xs, n):
  for i in range(0, len(xs), n):
    yield xs[i:i + n]


def run(ctx):
  n = c11.selftest()
  if ctx.quick:
    ops, lens, maxops = "MID", (1, 2), 3
  else:
    ops, lens, maxops = "MIDP=X", (1, 2, 3), 3
  ctx.rule = ("one case = one source document converted with to_gfaN(), "
              "to_gfaN_s() and back; non-trivial = the converted document "
              "holds an edge or a path; outcome = direction, family and the "
              "record types of the converted document")
  ctx.alphabet = {
      "GFA1 segments": {"A": 4, "B": 5, "C": 2, "forms": ["sequence",
                                                         "* + LN"]},
      "L": {"topology": ["A->B", "B->A", "A->A"],
            "orientations": ["".join(o) for o in ORIENTS],
            "CIGAR": "all of <= {} ops over {} x {} that fit the "
                     "segments".format(maxops, ops, list(lens)),
            "named/unnamed": ["ID:Z:e1 MQ:i:3 xy:Z:t", "no tags"],
            "restriction": "quick: sequence+unnamed and LN+named only"
            if ctx.quick else "none"},
      "C": {"container/contained": ["A/C", "B/C", "B/A"],
            "pos": "0 .. len(container) - reference length",
            "CIGAR": "query length == length of the contained segment"},
      "P": {"oriented segments": "{A,B,C} x {+,-}, 1..3 steps" +
            (" (3 steps: starting on A)" if ctx.quick else ""),
            "shape": ["single", "linear", "circular"],
            "stored form per edge": ["as traversed", "complement"],
            "overlaps field": ["*", "CIGARs in path direction"]},
      "E": {"orientations": ["".join(o) for o in ORIENTS],
            "intervals (length 3)": ["/".join(p) for p in c11.POSITIONS],
            "topology": ["a->b", "a->a"],
            "alignment": ["CIGAR consistent with the intervals", "*"],
            "named/unnamed": ["e + xy:Z:t TS:i:2", "*"]},
      "records without counterpart": ["G", "F", "U", "custom", "internal E",
                                      "GFA1-only CIGAR operations (thorough)"],
      "O": {"orientations": "a? b? c? (8)", "E written from": ["from side",
                                                              "to side"],
            "items": ["segments", "segments and edges", "reversed segments",
                      "reversed segments and edges", "first edge only",
                      "single segment"]}}
  ctx.assumptions = [
      "reference model anchored on the {} at:Z: labels (self-test at "
      "start)".format(n),
      "the position of a containment is the begin of the container's "
      "interval whatever the container's orientation (the reading gfapy "
      "documents; the GFA1 specification leaves it open)",
      "a link whose overlap spans a whole segment is only required to give "
      "a valid document with the predicted intervals, not to come back as "
      "a link",
      "a link coming back as its complement, an added ID / LN tag, a "
      "circular path written with its first segment repeated and a `*` "
      "overlaps field coming back specified count as equivalent",
      "assigned edge identifiers only have to be fresh",
      "records with GFA1-only CIGAR operations may be dropped or refused "
      "with a gfapy.Error"]
  cases = list(cases_1to2_links(ops, lens, maxops, ctx.quick)) + \
      list(cases_1to2_containments(ops, lens, maxops, ctx.quick)) + \
      (  # GFA1-only CIGAR operations (=, X, S, H, N): quick keeps the complete
         # family of <= 2 operations of length 1 over the full GFA1 alphabet
         [c for c in cases_1to2_links("MIDNSHPX=", (1,), 2, True)
          if "gfa1-only" in c["cell"]] +
         [c for c in cases_1to2_containments("MIDNSHPX=", (1,), 2, True)
          if "gfa1-only" in c["cell"]] if ctx.quick else []) + \
      list(cases_1to2_paths(ctx.quick)) + \
      list(cases_2to1_edges(ctx.quick)) + list(cases_2to1_other()) + \
      list(cases_2to1_paths()) + list(cases_headers()) + \
      list(cases_linelevel(ctx.quick)) + list(cases_moved()) + \
      list(cases_nondovetail_groups())
  fam = {}
  for c in cases:
    k = c["dir"] + ":" + c["family"]
    fam[k] = fam.get(k, 0) + 1
  seen, per_class, dup = set(), {}, 0
  for r in ctx.pmap(work, list(chunks(cases, 40)), chunksize=1):
    vs = r.pop("violations")
    r["violations"] = []
    ctx.merge(r)
    for v in vs:
      fp = fingerprint(v["clause"], v["key"])
      # cases are enumerated smallest first: keep the first 3 witnesses per
      # (clause, direction, family, field), count the rest
      cls = (v["clause"], v["key"]["direction"], v["key"]["family"],
             v["key"]["field"])
      if fp in seen or per_class.get(cls, 0) >= 3:
        dup += 1
        continue
      per_class[cls] = per_class.get(cls, 0) + 1
      seen.add(fp)
      ctx.violation(v)
  ctx.bound_completed = {"cases": len(cases), "per_family": fam}
  ctx.extra["violating_cases_not_kept"] = dup


def replay(w, ctx):
  c11.selftest()
  probs, _ = judge(w)
  return violations_of(w, probs)
