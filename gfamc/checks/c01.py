"""C01 -- parse -> write round trip preserves every record, field and tag.

Engine I + configurations.  Documents are generated from line templates of
every record type x a tag menu covering all seven datatypes in several valid
spellings, plus every reference-closed subset of the template list; each is
parsed under vlevel 0..3 x version explicit/auto x five entry points and
written back.  Oracle: an independent tokenizer (gfamc.ref.grammar) compares
the record multisets after the documented normalisations only."""
import os, itertools, tempfile, shutil, glob
import gfapy
from ..ref import grammar
from ..runner import (guard, timed_out, HarnessTimeout, new_result,
                      mkviolation, h, REPO)

PROPERTY = "C01"
T = "\t".join

TAG_MENU = [
    "aa:A:x", "aa:A:~", "ii:i:-12", "ii:i:+5", "ii:i:007", "ff:f:1.5",
    "ff:f:1.0e2", "ff:f:.5", "ff:f:-3", "zz:Z:a b", "zz:Z:x:y:z",
    'jj:J:{"a" : [1 ]}', 'jj:J:[1,{"k":null},"s"]', "hh:H:1AF0",
    "bb:B:c,-1,2", "bb:B:I,1,2", "bb:B:f,1.5,2e3", "bb:B:C,255",
    "bb:B:s,-1,128", "bb:B:i,-1,32768", "bb:B:c,-128,127", "bb:B:S,256",
    "bb:B:I,65536", "bb:B:s,-129,0", "bb:B:i,-32769,1", "bb:B:i,-1,2147483647",
    "zz:Z:trailing blanks  ", "zz:Z: ", "hh:H:00FF",
    'jj:J:["Andr\\u00e9", "\\u007f"]', 'jj:J:{"k\\u00fc": "\\n"}', "zz:Z:*", "aa:A:*", "jj:J:[]", "jj:J:{}",
]

GFA1_SEG = {"A": T(["S", "A", "ACGT"]), "B": T(["S", "B", "*", "LN:i:5"]),
            "C": T(["S", "C", "AC"])}
GFA1_T = [
    ("H", T(["H", "VN:Z:1.0"]), ""),
    ("H2", T(["H", "xx:i:1"]), ""),
    ("#", "# a comment", ""),
    ("#2", "#no spacer\twith tab", ""),
    ("SA", GFA1_SEG["A"], ""), ("SB", GFA1_SEG["B"], ""), ("SC", GFA1_SEG["C"], ""),
    ("L1", T(["L", "A", "+", "B", "-", "2M1I"]), "AB"),
    ("L2", T(["L", "A", "-", "A", "+", "*"]), "A"),
    ("L3", T(["L", "B", "+", "C", "+", "1M", "ID:Z:l3"]), "BC"),
    ("C1", T(["C", "A", "+", "C", "-", "1", "2M"]), "AC"),
    ("C2", T(["C", "B", "-", "C", "+", "0", "*", "ID:Z:c2"]), "BC"),
    ("P1", T(["P", "p1", "A+,B-", "2M1I"]), "AB+L1"),
    ("P2", T(["P", "p2", "A+", "*"]), "A"),
    ("P3", T(["P", "p3", "C-,B-", "*"]), "BC+L3"),
]
GFA2_SEG = {"a": T(["S", "a", "4", "ACGT"]), "b": T(["S", "b", "5", "*"]),
            "c": T(["S", "c", "2", "AC"])}
GFA2_T = [
    ("H", T(["H", "VN:Z:2.0"]), ""),
    ("H2", T(["H", "TS:i:100"]), ""),
    ("#", "# a comment", ""),
    ("Sa", GFA2_SEG["a"], ""), ("Sb", GFA2_SEG["b"], ""), ("Sc", GFA2_SEG["c"], ""),
    ("E1", T(["E", "e1", "a+", "b-", "2", "4$", "3", "5$", "2M"]), "ab"),
    ("E2", T(["E", "*", "a+", "c+", "1", "3", "0", "2$", "1,2"]), "ac"),
    ("E3", T(["E", "e3", "a-", "a+", "0", "0", "4$", "4$", "*"]), "a"),
    ("E4", T(["E", "e4", "b+", "c-", "1", "2", "0", "1", "1M"]), "bc"),
    ("F1", T(["F", "a", "x+", "0", "2", "10", "12$", "*"]), "a"),
    ("F2", T(["F", "b", "y-", "1", "5$", "0", "4", "4M", "TS:i:2"]), "b"),
    ("G1", T(["G", "g1", "a+", "b-", "10", "*"]), "ab"),
    ("G2", T(["G", "*", "a-", "c+", "-3", "2"]), "ac"),
    ("O1", T(["O", "o1", "a+ e1+ b-"]), "ab+E1"),
    ("O2", T(["O", "o2", "a+ b-"]), "ab+E1"),
    ("O3", T(["O", "*", "a+"]), "a"),
    ("U1", T(["U", "u1", "a b e1"]), "ab+E1"),
    ("U2", T(["U", "*", "c"]), "c"),
    ("X1", T(["X", "f1", "f 2", "xx:i:1"]), ""),
    ("X2", T(["Y2", "only"]), ""),
]


def closure(version, names):
  """Adds the support lines a template needs (segments, edges)."""
  table = GFA1_T if version == "gfa1" else GFA2_T
  byname = {n: (l, need) for n, l, need in table}
  segs = GFA1_SEG if version == "gfa1" else GFA2_SEG
  out = []
  seen = set()
  def add_line(l):
    if l not in seen:
      seen.add(l); out.append(l)
  def add(n):
    l, need = byname[n]
    for part in need.split("+"):
      if part in byname and part != n and not all(c in segs for c in part):
        add(part)
      else:
        for c in part:
          if c in segs:
            add_line(segs[c])
    add_line(l)
  for n in names:
    add(n)
  return out


# ---------------------------------------------------------------- tokenizer
INTPOS = {("gfa2", "S"): [2], ("gfa2", "G"): [4, 5], ("gfa1", "C"): [5],
          ("gfa2", "E"): [4, 5, 6, 7], ("gfa2", "F"): [3, 4, 5, 6]}


def cigar_complement(s):
  import re
  if s == "*":
    return s
  ops = re.findall(r"([0-9]+)([MIDNSHPX=])", s)
  sw = {"I": "D", "D": "I"}
  return "".join(n + sw.get(c, c) for n, c in reversed(ops))


def inv(o):
  return "+" if o == "-" else "-"


def canon_link(f):
  """canonical of a link and its complement: the smaller of the two texts"""
  a = tuple(f[1:6])
  b = (f[3], inv(f[4]), f[1], inv(f[2]), cigar_complement(f[5]))
  return min(a, b)


def norm_pos(v):
  if v.endswith("$"):
    return str(int(v[:-1])) + "$"
  if v == "*":
    return v
  try:
    return str(int(v))
  except ValueError:
    return v


def tokenize(text_lines, version):
  """multiset (sorted list) of canonical records; raises ValueError on a line
  the reference grammar does not accept."""
  recs = []
  for l in text_lines:
    if l == "":
      continue
    if l.startswith("#"):
      recs.append(("#", l))
      continue
    f = l.split("\t")
    ok, why = grammar.line_ok(f, version)
    if not ok:
      raise ValueError("ungrammatical output line ({}): {!r}".format(why, l))
    rt = f[0]
    if rt not in grammar.RECORDS[version]:
      # custom record: trailing fields that are well-formed tags are tags
      # (compared as a set, by value), the rest is positional (textual)
      i = len(f)
      ctags = []
      while i > 1:
        t = grammar.split_tag(f[i - 1])
        if t is None or not grammar.tag_value_ok(t[1], t[2]):
          break
        ctags.append((t[0],) + tuple(map(repr, grammar.decode_tag(t[1], t[2]))))
        i -= 1
      recs.append(("custom", tuple(f[:i]), tuple(sorted(ctags))))
      continue
    npos = len(grammar.RECORDS[version][rt][0])
    pos = list(f[1:1 + npos])
    for i in INTPOS.get((version, rt), []):
      pos[i - 1] = norm_pos(pos[i - 1])
    tags = []
    for t in f[1 + npos:]:
      n, dt, v = grammar.split_tag(t)
      tags.append((n,) + tuple(map(repr, grammar.decode_tag(dt, v))))
    if rt == "H":
      for t in tags:
        recs.append(("H", t))
      continue
    if rt == "L":
      pos = list(canon_link(f))
    recs.append((rt, tuple(pos), tuple(sorted(tags))))
  return sorted(normalise(recs), key=repr)


def normalise(recs):
  """documented normalisations on the record level: VN/TS header tags are
  single-definition (a repeated equal value is one definition); U/O lines
  sharing an identifier are one group (items concatenated in order, tags
  united)."""
  out = []
  seen_h = set()
  groups = {}
  for r in recs:
    if r[0] == "H" and r[1] and r[1][0] in ("VN", "TS"):
      if r[1] in seen_h:
        continue
      seen_h.add(r[1])
    if r[0] in ("U", "O") and r[1][0] != "*":
      k = (r[0], r[1][0])
      if k in groups:
        g = groups[k]
        g[1] = (g[1][0], g[1][1] + " " + r[1][1])
        g[2] = tuple(sorted(set(g[2]) | set(r[2])))
        continue
      groups[k] = [r[0], r[1], r[2]]
      out.append(groups[k])
      continue
    out.append(r)
  return [tuple(x) if isinstance(x, list) else x for x in out]


def dedup_links(recs):
  """a link supplied in both complement forms is stored once"""
  out = []
  seen = set()
  for r in recs:
    if r[0] == "L":
      k = (r[1],)
      if k in seen:
        continue
      seen.add(k)
    out.append(r)
  return out


# ------------------------------------------------------------------ running
ENTRIES = ("str", "str-nl", "list", "file-lf", "file-crlf")


def build(lines, entry, vlevel, version, scratch):
  if entry == "str":
    return gfapy.Gfa("\n".join(lines), vlevel=vlevel, version=version)
  if entry == "str-nl":
    return gfapy.Gfa("\n".join(lines) + "\n", vlevel=vlevel, version=version)
  if entry == "list":
    return gfapy.Gfa(list(lines), vlevel=vlevel, version=version)
  nl = "\n" if entry == "file-lf" else "\r\n"
  p = os.path.join(scratch, "in.gfa")
  with open(p, "w", newline="") as f:
    f.write(nl.join(lines) + nl)
  return gfapy.Gfa.from_file(p, vlevel=vlevel, version=version)


def roundtrip(lines, version, entry, vlevel, explicit, scratch):
  """returns list of (clause, detail)"""
  ver = version if explicit else None
  try:
    g = build(lines, entry, vlevel, ver, scratch)
    out1 = str(g)
  except gfapy.Error as e:
    return [("valid-document-rejected", "{}: {}".format(
        type(e).__name__, str(e).split("\n")[0][:100]))]
  except HarnessTimeout:
    raise
  except Exception as e:
    return [("valid-document-rejected", "foreign {}".format(type(e).__name__))]
  probs = []
  if "INVALID" in out1:
    probs.append(("flagged-invalid", out1))
  if "GFAPY_virtual_line" in out1 or "line_created_by_gfapy" in out1:
    probs.append(("placeholder-written", out1))
  outl = out1.split("\n") if out1 else []
  try:
    want = dedup_links(tokenize(lines, version))
    got = tokenize(outl, version)
  except ValueError as e:
    return probs + [("ungrammatical-output", str(e))]
  if want != got:
    import collections
    cw, cg = collections.Counter(want), collections.Counter(got)
    missing = list((cw - cg).elements())
    extra = list((cg - cw).elements())
    probs.append(("records-differ", {"missing": missing[:4], "extra": extra[:4]}))
  if probs:
    return probs
  # fixed point
  try:
    g2 = gfapy.Gfa(out1, vlevel=vlevel, version=ver)
    out2 = str(g2)
    if out2 != out1:
      probs.append(("not-a-fixed-point", {"first": out1, "second": out2}))
  except gfapy.Error as e:
    probs.append(("written-form-rejected", "{}: {}".format(
        type(e).__name__, str(e).split("\n")[0][:100])))
  # file writer agrees with str
  if entry.startswith("file"):
    p = os.path.join(scratch, "out.gfa")
    g.to_file(p)
    with open(p, newline="") as f:
      data = f.read()
    if data != (out1 + "\n" if out1 else ""):
      if data.replace("\n", "") != out1.replace("\n", "") or "\r" in data:
        probs.append(("to_file-differs", {"str": out1, "file": data}))
  return probs


CONFIGS = [(entry, vlevel, explicit) for entry in ENTRIES
           for vlevel in (0, 1, 2, 3) for explicit in (True, False)]


def work(chunk):
  res = new_result()
  scratch = tempfile.mkdtemp(prefix="gfamc_c01_")
  found = {}
  try:
    for family, version, lines in chunk:
      base = None
      for entry, vlevel, explicit in CONFIGS:
        res["evaluations"] += 1
        res["transitions"] += 1
        res["traces"] += 1
        try:
          with guard(5.0):
            probs = roundtrip(lines, version, entry, vlevel, explicit, scratch)
        except HarnessTimeout:
          probs = [("timeout", "")]
        res["outcomes"].add("ok" if not probs else probs[0][0])
        for cl, det in probs:
          k = (cl, family)
          w = {"lines": lines, "version": version, "entry": entry,
               "vlevel": vlevel, "explicit": explicit, "clause": cl,
               "family": family}
          old = found.get(k)
          size = (len("\n".join(lines)), lines, vlevel, entry)
          if old is None or size < old[0]:
            found[k] = (size, w, det)
      res["states"].add(h((version, lines)))
      if any(l.split("\t")[0] not in ("S", "H") and not l.startswith("#")
             for l in lines):
        res["nontrivial"].add(h((version, lines)))
  finally:
    shutil.rmtree(scratch, ignore_errors=True)
  res["found"] = found
  return res


CORE_MENU = ["aa:A:x", "ii:i:+5", "ff:f:.5", "zz:Z:a b", 'jj:J:{"a" : [1 ]}',
             "hh:H:1AF0", "bb:B:I,1,2", "bb:B:s,-1,128", "zz:Z:trailing blanks  "]


GFA2_FOREIGN_NAMES = ["LN:i:7", "ID:Z:q", "MQ:i:3", "NM:i:0", "SN:Z:chr", "SO:i:0"]
GFA1_FOREIGN_NAMES = ["TS:i:5", "SH:H:1A", "UR:Z:u", "pn:Z:a", "sl:i:3"]


def tag_documents(all_pairs=True):
  docs = []
  for version, table in (("gfa1", GFA1_T), ("gfa2", GFA2_T)):
    reps = {}
    for n, l, need in table:
      rt = l.split("\t")[0]
      if l.startswith("#"):
        continue
      reps.setdefault(rt, n)
    for rt, n in sorted(reps.items()):
      base = closure(version, [n])
      line = base[-1]
      existing = set(t.split(":")[0] for t in line.split("\t") if
                     grammar.split_tag(t))
      menu = [t for t in TAG_MENU if t[:2] not in existing]
      for t in menu:
        docs.append(("tags:" + rt, version, base[:-1] + [line + "\t" + t]))
      # tags named like a predefined tag of the OTHER version or like a field
      # alias of the record (LN is an alias of slen on GFA2 segments, ...)
      for t in (GFA2_FOREIGN_NAMES if version == "gfa2" else
                GFA1_FOREIGN_NAMES):
        if t[:2] not in existing:
          docs.append(("tags:" + rt, version, base[:-1] + [line + "\t" + t]))
      for t1, t2 in itertools.combinations(menu, 2):
        if t1[:2] == t2[:2]:
          continue
        if not all_pairs and not (t1 in CORE_MENU and t2 in CORE_MENU):
          continue
        docs.append(("tags:" + rt, version,
                     base[:-1] + [line + "\t" + t1 + "\t" + t2]))
  return docs


def subset_documents(maxn):
  docs = []
  for version, table in (("gfa1", GFA1_T), ("gfa2", GFA2_T)):
    names = [n for n, l, need in table]
    seen = set()
    for k in range(1, maxn + 1):
      for combo in itertools.combinations(names, k):
        lines = closure(version, list(combo))
        if len(lines) > maxn + 2:
          continue
        key = tuple(sorted(lines))
        if key in seen:
          continue
        seen.add(key)
        docs.append(("subsets", version, lines))
  return docs


def special_documents():
  S = GFA1_SEG
  docs = []
  both = [S["A"], S["B"], T(["L", "A", "+", "B", "-", "2M1I"]),
          T(["L", "B", "+", "A", "-", "1D2M"])]
  docs.append(("link-both-forms", "gfa1", both))
  docs.append(("link-both-forms", "gfa1", [both[3], both[2], both[0], both[1]]))
  docs.append(("link-both-forms", "gfa1",
               [S["A"], T(["L", "A", "+", "A", "+", "*"]),
                T(["L", "A", "-", "A", "-", "*"])]))
  for v, vn in (("gfa1", "1.0"), ("gfa2", "2.0")):
    docs.append(("headers", v, [T(["H", "VN:Z:" + vn]), T(["H", "xx:i:1"]),
                                T(["H", "xx:i:2"]), T(["H", "xx:i:3"])]))
    docs.append(("headers", v, [T(["H", "xx:i:1", "yy:Z:a"]), T(["H", "xx:i:1"])]))
    docs.append(("headers", v, [T(["H", "VN:Z:" + vn, "xx:B:c,1", "yy:J:[1]"]),
                                T(["H", "xx:B:c,2"]), T(["H", "VN:Z:" + vn])]))
    docs.append(("headers", v, [T(["H", "aa:A:x", "ff:f:1.5", "hh:H:1A"]),
                                T(["H", "hh:H:2B"]), T(["H", "ff:f:2"])]))
    for first, second in (("ns:Z:*", "ns:Z:chr1"), ("fl:A:*", "fl:A:x"),
                          ("js:J:[]", "js:J:[1]"), ("js:J:{}", 'js:J:{"a": 1}'),
                          ("ns:Z:chr1", "ns:Z:*"), ("ni:i:0", "ni:i:5"),
                          ("nf:f:0.0", "nf:f:1.5")):
      docs.append(("headers", v, [T(["H", first]), T(["H", second])]))
      docs.append(("headers", v, [T(["H", first]), T(["H", second]), T(["H", first])]))
    docs.append(("empty", v, []))
    docs.append(("comments", v, ["# one", "#two", "#\tthree", "#"]))
    docs.append(("comments", v, ["# trailing blanks  ", "#  ", "# x\t"]))
  docs.append(("multiline-group", "gfa2",
               [GFA2_SEG["a"], GFA2_SEG["b"], GFA2_SEG["c"],
                T(["U", "u1", "a b"]), T(["U", "u1", "c"])]))
  # custom records whose record type has several characters and begins with
  # the letter of a predefined record type; before and after the line that
  # fixes the version
  customs = [T(["HDR", "foo", "xx:i:1"]), T(["SEQ", "a", "b c"]),
             T(["Lx", "1", "+", "2"]), T(["PP", "p", "a+,b+"]),
             T(["E2", "e", "zz:Z:x"]), T(["X", "one"]), T(["x1", "f", "aa:A:c"])]
  for c in customs:
    docs.append(("custom-first", "gfa2", [c, GFA2_SEG["a"]]))
    docs.append(("custom-last", "gfa2", [GFA2_SEG["a"], c]))
    docs.append(("custom-header", "gfa2", [T(["H", "VN:Z:2.0"]), c]))
  docs.append(("custom-first", "gfa2", customs + [GFA2_SEG["a"]]))
  return docs


def chunks(lst, n):
  for i in range(0, len(lst), n):
    yield lst[i:i + n]


def anchor_reference():
  """The tokenizer/grammar must accept every line of the repository's own
  valid test data; otherwise the reference is off (harness error)."""
  n = 0
  for f in sorted(glob.glob(os.path.join(REPO, "tests", "testdata", "*.gfa*"))):
    for l in open(f):
      l = l.rstrip("\r\n")
      if not l:
        continue
      n += 1
      ok = grammar.line_ok(l.split("\t"), "gfa1")[0] or \
          grammar.line_ok(l.split("\t"), "gfa2")[0]
      if not ok:
        raise RuntimeError("reference grammar rejects test data line {!r} "
                           "of {}".format(l, f))
  return n


def run(ctx):
  n = anchor_reference()
  ctx.extra["reference_anchor_lines"] = n
  ctx.rule = ("documents = (a) one template per record type x every tag of "
              "the menu and every pair of tags, (b) every reference-closed "
              "subset of <= n templates, (c) special documents (complement "
              "links, repeated header tags, multi-line groups, comments, "
              "empty); each x 5 entry points x vlevel 0..3 x version "
              "explicit/auto; non-trivial = document with at least one "
              "record other than S/H/#")
  ctx.alphabet = {"tag_menu": TAG_MENU, "gfa1_templates": [l for _, l, _ in GFA1_T],
                  "gfa2_templates": [l for _, l, _ in GFA2_T],
                  "entries": ENTRIES}
  ctx.assumptions = [
      "valid documents drawn from the stated templates and tag menu",
      "normalisations allowed by the property: one tag per H line, link == "
      "complement, record order, canonical spelling of numbers / JSON / B",
      "independent tokenizer gfamc/ref/grammar.py anchored on {} lines of "
      "tests/testdata".format(n)]
  maxn = 3 if ctx.quick else 4
  docs = tag_documents(all_pairs=not ctx.quick) + subset_documents(maxn) + special_documents()
  ctx.bound_completed = {"subset_size": maxn, "documents": len(docs),
                         "configs_per_document": len(CONFIGS)}
  found_all = {}
  for r in ctx.pmap(work, list(chunks(docs, 12)), chunksize=1):
    f = r.pop("found")
    for k, (size, w, det) in f.items():
      old = found_all.get(k)
      if old is None or size < old[0]:
        found_all[k] = (size, w, det)
    ctx.merge(r)
  for d in docs[:3] + docs[-2:]:
    ctx.sample({"family": d[0], "version": d[1], "lines": d[2]})
  for (cl, family), (size, w, det) in sorted(found_all.items()):
    sa = ("import gfapy\nlines = {!r}\ng = gfapy.Gfa(lines, vlevel={}, "
          "version={!r})\nprint(str(g))").format(
              w["lines"], w["vlevel"], w["version"] if w["explicit"] else None)
    ctx.violation(mkviolation(
        cl, {"family": family, "document": "\n".join(w["lines"]),
             "entry": w["entry"], "vlevel": w["vlevel"]}, w,
        "same records after the documented normalisations", det, sa))


def replay(w, ctx):
  scratch = tempfile.mkdtemp(prefix="gfamc_c01_")
  try:
    probs = roundtrip(w["lines"], w["version"], w["entry"], w["vlevel"],
                      w["explicit"], scratch)
  finally:
    shutil.rmtree(scratch, ignore_errors=True)
  out = []
  for cl, det in probs:
    out.append(mkviolation(
        cl, {"family": w["family"], "document": "\n".join(w["lines"]),
             "entry": w["entry"], "vlevel": w["vlevel"]}, w, "", det, ""))
  return out
