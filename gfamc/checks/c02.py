"""C02 -- reference graph closed and symmetric under every mutation history.
Engine H over G1 / G2; pure invariant evaluated in every reached state."""
import gfapy
from .. import explore, universe, invariants, observe
from ..runner import guard

PROPERTY = "C02"
HASHSEED_SLICE = True


T = "\t".join
# lines that are refused half-way: a path whose first steps resolve and whose
# last step names a line of another kind (another path, an ID-tagged link)
# (line, the identifier it wrongly uses as a segment): offered only in states
# in which that identifier is a line of another kind, i.e. when it is refused
REFUSED_LATE = {
    "gfa1": [(T(["P", "z", "A+,B+,p+", "*"]), "p"),
             (T(["P", "z", "B-,A-,r+", "*"]), "r"),
             (T(["P", "z", "A+,C+,x-", "*"]), "x"),
             (T(["L", "C", "+", "p", "+", "*"]), "p"),
             (T(["C", "B", "+", "r", "-", "0", "*"]), "r")],
    "gfa2": [(T(["E", "*", "c+", "o1-", "0", "1", "0", "1", "*"]), "o1"),
             (T(["G", "*", "c-", "u1+", "1", "*"]), "u1"),
             (T(["E", "*", "b-", "g1+", "0", "1", "0", "1", "*"]), "g1"),
             # further lines of a multi-line group: the first adds a tag, the
             # second contradicts it and is refused after its items resolved
             (T(["U", "u2", "c", "xx:i:1"]), "u2"),
             (T(["U", "u2", "b", "xx:i:2"]), "u2"),
             (T(["O", "o1", "c+", "xx:i:1"]), "o1"),
             (T(["O", "o1", "c-", "xx:i:2"]), "o1")],
}


class S(explore.Spec):
  rename_targets = ("Z", "B")
  reparse = True
  follow_errors = True
  readd_ops = True

  def key(self, g, env):
    k = super().key(g, env)
    if getattr(self, "share_ops", False):
      # two lines holding the VERY same value object are another state than
      # two lines holding equal values (the observation cannot tell them
      # apart, later operations can)
      seen, shared = set(), 0
      try:
        for l in g.lines:
          if observe.rt_of(l) in ("E", "G"):
            for fn in ("sid1", "sid2"):
              v = l.get(fn)
              if isinstance(v, gfapy.OrientedLine):
                if id(v) in seen:
                  shared += 1
                seen.add(id(v))
      except Exception:
        pass
      k += ":shared{}".format(shared)
    return k

  def extra_ops(self, g, env, hist):
    out = []
    try:
      lines = [l for l in g.lines if not observe.is_virtual(l)]
    except Exception:
      lines = []
    texts = [observe.safe_str(l) for l in lines]
    if self.version == "gfa1" and getattr(self, "conv_ops", False):
      # only when every segment has a length and every overlap is specified
      # (else the conversion is refused) and some link has no ID yet
      if any(t[0] in "LC" and "ID:Z:" not in t for t in texts) and \
          not any(t[0] in "LC" and t.split("\t")[5 if t[0] == "L" else 6] == "*"
                  for t in texts) and \
          not any(t[0] == "S" and t.split("\t")[2] == "*" and "LN:i:" not in t
                  for t in texts) and not any(t[0] == "P" for t in texts):
        out.append(("conv",))
    if self.version == "gfa2" and getattr(self, "share_ops", False):
      present = [t for t in texts if t[0] == "E"]
      for u in self.universe:
        if u[0] == "E" and u not in texts:
          for d in present:
            if d.split("\t")[2] == u.split("\t")[2]:
              out.append(("addshare", d, u, "sid1"))
              break
    for l, bad in REFUSED_LATE.get(self.version, []):
      try:
        x = g.line(bad)
      except Exception:
        x = None
      if x is not None and not observe.is_virtual(x) and \
          observe.rt_of(x) != "S":
        out.append(("add", l))
    return out

  def judge(self, g, env, hist, op, err):
    if err is not None and not isinstance(err, gfapy.Error):
      return [("skip", "foreign exception (C07)")]
    # a refused operation (gfapy.Error) may be caught by the caller, who
    # carries on: the graph must still be closed and symmetric afterwards
    if observe.ill_typed(g):
      return [("skip", "ill-typed reference")]
    probs = invariants.check_closed_symmetric(g, env.removed)
    if not probs and err is None:
      probs = [("namespace", x) for x in invariants.namespace_coherence(g)]
    if not probs and self.reparse and not invariants.placeholders(g):
      try:
        txt = str(g)
      except BaseException as e:
        return [("unwritable", "str(gfa) raised {}".format(type(e).__name__))]
      if "INVALID" in txt:
        return [("unwritable", "written form flagged invalid")]
      try:
        gfapy.Gfa(txt, version=g.version, vlevel=1)
      except BaseException as e:
        probs.append(("reparse", "written form does not parse: {}: {}".format(
            type(e).__name__, str(e).split("\n")[0][:80])))
    return probs


S(name="c02.g1", universe=universe.G1, version="gfa1", rename_targets=("Z", "B"))
S(name="c02.g2", universe=universe.G2, version="gfa2", rename_targets=("z", "b"))
S(name="c02.g1core", universe=universe.G1_CORE, version="gfa1",
  rename_targets=("Z",), name_unnamed=("n1",), unname_ops=True)
S(name="c02.g2core", universe=universe.G2_CORE, version="gfa2",
  rename_targets=("z",), name_unnamed=("n1",), share_ops=True)
# GFA1 with lengths and specified overlaps, so that the graph can be converted
# in the middle of a history (conversion assigns IDs to the unnamed links)
TC = "\t".join
G1_CONV = [TC(["S", "A", "*", "LN:i:4"]), TC(["S", "B", "ACGT"]), TC(["S", "C", "*", "LN:i:4"]),
           TC(["L", "A", "+", "B", "+", "1M"]), TC(["L", "B", "+", "C", "-", "2M"]),
           TC(["L", "A", "+", "A", "-", "1M"]), TC(["C", "A", "+", "B", "+", "0", "2M"]),
           TC(["L", "C", "+", "A", "+", "1M", "ID:Z:x"])]
S(name="c02.g1conv", universe=G1_CONV, version="gfa1", rename_targets=("Z",),
  name_unnamed=("n1",), unname_ops=True, conv_ops=True)
S(name="c02.g1v3", universe=universe.G1_CORE, version="gfa1", vlevel=3,
  rename_targets=("Z",))


def run(ctx):
  ctx.rule = ("BFS over add/rm/disconnect/rename histories, one state per "
              "distinct canonical observation; non-trivial = state holding at "
              "least one reference")
  ctx.alphabet = {"G1": universe.G1, "G2": universe.G2,
                  "ops": ["add(any universe line)", "rm(id)",
                          "disconnect(unnamed line)", "rename(id -> fresh)",
                          "rename(id -> id in use)"]}
  ctx.assumptions = [
      "histories bounded by the depths in coverage.bfs over the stated "
      "universes; operations that raise are not part of a history (C08)",
      "observation through the public API only (reference fields, "
      "back-reference properties, Gfa.line, Gfa.lines)"]
  if ctx.quick:
    plan = [("c02.g1", 4), ("c02.g2", 4), ("c02.g1core", 5), ("c02.g2core", 5),
            ("c02.g1conv", 4)]
  else:
    plan = [("c02.g1", 5), ("c02.g2", 5), ("c02.g1core", 7), ("c02.g2core", 7),
            ("c02.g1v3", 5), ("c02.g1conv", 6)]
  if ctx.slice:
    plan = [(n, max(2, d - 2)) for n, d in plan[:2]]
  done = {}
  for name, d in plan:
    done[name] = explore.bfs(ctx, explore.SPECS[name], d)[0]
  # the same search from NON-initial states: the whole universe loaded
  if not ctx.slice:
    d2 = 3 if ctx.quick else 4
    for name in ("c02.g1", "c02.g2"):
      sp = explore.SPECS[name]
      done[name + "@full"] = explore.bfs(
          ctx, sp, d2, label=name + "@full",
          prefix=universe.full_prefix(sp.version))[0]
  ctx.bound_completed = done


def replay(w, ctx):
  return explore.replay_witness(w)
