"""C11 -- segment neighbourhoods match the specification's edge semantics.

Engine I: the whole (orientation pair) x (interval kind)^2 table of E lines
with the classified segment as sid1 / sid2 / both, L / C / G lines for all four
orientation pairs incl. self-links and parallel edges, every cell in three
arrival orders and (thorough) after a rename, after removing an unrelated line
and at validation levels 0 / 1 / 3.  The expectation comes from
gfamc.ref.edges (text level, anchored on the 800 hand-written at:Z: labels of
tests/testdata/gfa2_edges_classification.gfa)."""
import os
import gfapy
from ..ref import edges as R
from ..runner import (guard, timed_out, h, new_result, mkviolation, REPO,
                      fingerprint)

PROPERTY = "C11"
T = "\t".join
LABELS = os.path.join(REPO, "tests", "testdata",
                      "gfa2_edges_classification.gfa")

# ---------------------------------------------------------------------------
# observation of the implementation
# ---------------------------------------------------------------------------


def lkey(line):
  n = line.name
  if n is None or gfapy.is_placeholder(n):
    return str(line)
  return str(n)


def sname(x):
  return x if isinstance(x, str) else x.name


def sref(g, x):
  """Name of a segment returned by gfapy; marked if it is not the segment
  object the graph holds under that name (a string, a stale placeholder)."""
  if isinstance(x, str):
    return x + " (string, not a segment of the graph)"
  n = x.name
  return n if x is g.segment(n) else n + " (not the segment of the graph)"


def _try(fn):
  try:
    return fn()
  except gfapy.Error as e:
    return "<raises {}>".format(type(e).__name__)
  except Exception as e:  # foreign exception: still an observation
    return "<raises! {}>".format(type(e).__name__)


def compare(lines, g):
  """Compare the neighbourhood structure gfapy reports for `g` with what the
  reference derives from the text `lines`.  Returns a list of
  (clause, field, expected, observed)."""
  exp_s, exp_e = R.neighbourhoods(lines)
  out = []

  def chk(clause, field, exp, obs):
    if exp != obs:
      out.append((clause, field, exp, obs))

  obs_names = _try(lambda: sorted(s.name for s in g.segments))
  chk("segments", "gfa.segments", sorted(exp_s), obs_names)
  virt = _try(lambda: sorted(s.name for s in g.segments if s.virtual))
  chk("segments", "virtual segments", [], virt)
  if out:
    return out
  for name in sorted(exp_s):
    s = g.segment(name)
    es = exp_s[name]
    for c in R.SEG_COLLECTIONS:
      obs = _try(lambda: sorted(lkey(x) for x in getattr(s, c)))
      e = es[c]
      if obs != e:
        # a self-edge filed twice in one collection (both sides on the same
        # end) may be listed once or twice
        if isinstance(obs, list) and sorted(set(obs)) == sorted(set(e)) and \
            all(1 <= obs.count(k) <= e.count(k) for k in set(e)):
          continue
        out.append(("collection", name + "." + c, e, obs))
    dov = es["dovetails_L"] + es["dovetails_R"]
    cont = es["edges_to_contained"] + es["edges_to_containers"]
    for field, keys in (("dovetails", dov), ("containments", cont),
                        ("gaps", es["gaps_L"] + es["gaps_R"]),
                        ("edges", dov + cont + es["internals"])):
      obs = _try(lambda: sorted(set(lkey(x) for x in getattr(s, field))))
      chk("derived", name + "." + field, sorted(set(keys)), obs)
    for end in "LR":
      obs = _try(lambda: sorted(set(lkey(x) for x in s.dovetails_of_end(end))))
      chk("derived", name + ".dovetails_of_end(" + end + ")",
          sorted(set(es["dovetails_" + end])), obs)
      obs = _try(lambda: sorted(set(lkey(x) for x in s.gaps_of_end(end))))
      chk("derived", name + ".gaps_of_end(" + end + ")",
          sorted(set(es["gaps_" + end])), obs)
    for field, keys in (("neighbours_L", es["dovetails_L"]),
                        ("neighbours_R", es["dovetails_R"]),
                        ("neighbours", dov)):
      obs = _try(lambda: sorted(sref(g, x) for x in getattr(s, field)))
      chk("neighbours", name + "." + field, R.other_names(exp_e, name, keys),
          obs)
    obs = _try(lambda: sorted(sref(g, x) for x in s.containers))
    chk("containers", name + ".containers",
        sorted(exp_e[k]["from"] for k in set(es["edges_to_containers"])), obs)
    obs = _try(lambda: sorted(sref(g, x) for x in s.contained))
    chk("containers", name + ".contained",
        sorted(exp_e[k]["to"] for k in set(es["edges_to_contained"])), obs)
  # edges
  allobs = _try(lambda: {lkey(x): x for x in list(g.edges) + list(g.gaps)})
  if not isinstance(allobs, dict):
    out.append(("gfa-collection", "gfa.edges", sorted(exp_e), allobs))
    return out
  chk("gfa-collection", "gfa.edges+gaps", sorted(exp_e), sorted(allobs))
  chk("gfa-collection", "gfa.dovetails",
      sorted(k for k, v in exp_e.items() if v["kind"] == "dovetail"),
      _try(lambda: sorted(lkey(x) for x in g.dovetails)))
  chk("gfa-collection", "gfa.containments",
      sorted(k for k, v in exp_e.items() if v["kind"] == "containment"),
      _try(lambda: sorted(lkey(x) for x in g.containments)))
  for k in sorted(exp_e):
    if k not in allobs:
      continue
    ee, l = exp_e[k], allobs[k]
    if ee["rt"] == "G":
      continue
    tag = "{}[{}]".format(ee["rt"], ee["kind"])
    obs = _try(lambda: [bool(l.is_dovetail()), bool(l.is_containment()),
                        bool(l.is_internal())])
    chk("edge-kind", tag + ".is_dovetail/containment/internal",
        [ee["kind"] == "dovetail", ee["kind"] == "containment",
         ee["kind"] == "internal"], obs)
    s1, s2 = ee["sides"][0][0], ee["sides"][1][0]
    chk("other", tag + ".other(sid1)", s2,
        _try(lambda: sref(g, l.other(g.segment(s1)))))
    chk("other", tag + ".other(sid2)", s1,
        _try(lambda: sref(g, l.other(g.segment(s2)))))
    # the documented alternative form of the argument: a segment name
    chk("other-by-name", tag + ".other(<segment name>)", [s2, s1],
        [_try(lambda: sname(l.other(s1))), _try(lambda: sname(l.other(s2)))])
    if ee["kind"] == "containment":
      chk("ends", tag + ".from_segment", ee["from"],
          _try(lambda: sref(g, l.from_segment)))
      chk("ends", tag + ".to_segment", ee["to"],
          _try(lambda: sref(g, l.to_segment)))
    elif ee["kind"] == "dovetail":
      fe, te = ee["from"] + ee["from_end"], ee["to"] + ee["to_end"]
      chk("ends", tag + ".from_end", fe, _try(lambda: str(l.from_end)))
      chk("ends", tag + ".to_end", te, _try(lambda: str(l.to_end)))
      chk("ends", tag + ".from_segment", ee["from"],
          _try(lambda: sref(g, l.from_segment)))
      chk("ends", tag + ".to_segment", ee["to"],
          _try(lambda: sref(g, l.to_segment)))
      if fe != te:
        chk("other-end", tag + ".other_end(from_end)", te, _try(
            lambda: str(l.other_end(gfapy.SegmentEnd(
                g.segment(ee["from"]), ee["from_end"])))))
        chk("other-end", tag + ".other_end(to_end)", fe, _try(
            lambda: str(l.other_end(gfapy.SegmentEnd(
                g.segment(ee["to"]), ee["to_end"])))))
      else:
        chk("other-end", tag + ".other_end(the end)", fe, _try(
            lambda: str(l.other_end(gfapy.SegmentEnd(
                g.segment(ee["from"]), ee["from_end"])))))
      # an end that is not involved
      free = [(n, e) for n in (ee["from"], ee["to"]) for e in "LR"
              if n + e not in (fe, te)]
      for n, e in free[:1]:
        chk("other-end", tag + ".other_end(uninvolved end)",
            "<raises ArgumentError>", _try(
                lambda: str(l.other_end(gfapy.SegmentEnd(g.segment(n), e)))))
        chk("other-end", tag + ".other_end(uninvolved end, tolerant)", "None",
            _try(lambda: str(l.other_end(gfapy.SegmentEnd(g.segment(n), e),
                                         True))))
  return out


# ---------------------------------------------------------------------------
# cases
# ---------------------------------------------------------------------------

POSITIONS = [("0", "0"), ("0", "1"), ("0", "2"), ("0", "3$"), ("1", "1"),
             ("1", "2"), ("2", "2"), ("1", "3$"), ("2", "3$"), ("3$", "3$")]
ORIENTS = [("+", "+"), ("+", "-"), ("-", "+"), ("-", "-")]
ORDERS = ("segments-first", "edge-first", "edge-between")


def arrange(segs, edge_lines, rest, order):
  """segs: the segment lines of the edge under test (1 or 2); edge_lines: the
  line(s) under test."""
  if order == "segments-first":
    core = segs + edge_lines
  elif order == "edge-first":
    core = edge_lines + segs
  else:
    core = segs[:1] + edge_lines + segs[1:]
  return core + rest


def e_cases(quick):
  # "refused": a line that is refused after its first side was resolved
  # (its second side names an edge) -- the caller catches the error; "in-out":
  # a line over placeholders is added and removed again
  REF_E = ["refused", T(["E", "*", "a-", "u+", "0", "1", "0", "1", "*"])]
  REF_G = ["refused", T(["G", "*", "a+", "u-", "1", "*"])]
  INOUT = ["in-out", T(["O", "zz", "c+ a-"]), "zz"]
  posts = [None, ["rm", "e"], ["rename", "a", "z"], REF_E, INOUT] if quick else [
      None, ["rename", "a", "z"], ["rename", "b", "y"], ["rm", "u"],
      ["rm", "c"], ["rm", "e"], REF_E, REF_G, INOUT]
  vlevels = [1] if quick else [0, 1, 3]
  for vlevel in vlevels:
    for post in posts:
      for seq in ("*", "ACG"):
        sa, sb, sc = (T(["S", n, "3", seq]) for n in "abc")
        u = T(["E", "u", "b+", "c+", "1", "3$", "0", "2", "*"])
        for o1, o2 in ORIENTS:
          for p1 in POSITIONS:
            for p2 in POSITIONS:
              k1, k2 = R.interval_kind(*p1), R.interval_kind(*p2)
              for role in ("sid1", "sid2", "both"):
                n1, n2 = {"sid1": "ab", "sid2": "ba", "both": "aa"}[role]
                e = T(["E", "e", n1 + o1, n2 + o2, p1[0], p1[1], p2[0],
                       p2[1], "*"])
                if role == "both":
                  segs, rest = [sa], [sb, sc, u]
                else:
                  segs = [sa, sb] if role == "sid1" else [sb, sa]
                  rest = [sc, u]
                for order in ORDERS:
                  if role == "both" and order == "edge-between":
                    # the unrelated segment arrives first, the edge before
                    # its own segment
                    lines = [sb, e, sa, sc, u]
                  else:
                    lines = arrange(segs, [e], rest, order)
                  yield {"family": "E", "version": "gfa2", "vlevel": vlevel,
                         "cell": "{}{} {}/{} a={}".format(o1, o2, k1, k2,
                                                          role),
                         "order": order, "lines": lines, "post": post}


def gfa1_edge(rt, n1, o1, n2, o2, ov, pos="0", ident=None):
  f = [rt, n1, o1, n2, o2] + ([pos] if rt == "C" else []) + [ov]
  if ident:
    f.append("ID:Z:" + ident)
  return T(f)


TOPOLOGIES = (("A", "B"), ("B", "A"), ("A", "A"))


def lcg_cases(quick):
  REF_L = ["refused", T(["L", "A", "-", "u", "+", "*"])]
  REF_C = ["refused", T(["C", "A", "+", "u", "-", "0", "*"])]
  INOUT = ["in-out", T(["P", "zz", "C+,A+", "*"]), "zz"]   # no link C+ -> A+
  INOUT2 = ["in-out", T(["P", "zz", "C-,C+,A-", "*"]), "zz"]
  posts = [None, ["rm", "u"], REF_L, INOUT] if quick else [
      None, ["rename", "A", "Z"], ["rename", "B", "Y"], ["rm", "u"],
      ["rm", "C"], REF_L, REF_C, INOUT, INOUT2]
  vlevels = [1] if quick else [0, 1, 3]
  for vlevel in vlevels:
    for post in posts:
      for seq in (("*", "LN:i:4"), ("ACGT",)):
        sa, sb, sc = (T(("S", n) + seq) for n in "ABC")
        u = T(["L", "B", "+", "C", "+", "1M", "ID:Z:u"])
        for rt in "LC":
          for n1, n2 in TOPOLOGIES:
            for o1, o2 in ORIENTS:
              for copies in ("one*", "one", "two-named", "two-unnamed"):
                if copies == "one*":
                  es = [gfa1_edge(rt, n1, o1, n2, o2, "*")]
                elif copies == "one":
                  es = [gfa1_edge(rt, n1, o1, n2, o2, "1M", ident="e")]
                elif copies == "two-named":
                  es = [gfa1_edge(rt, n1, o1, n2, o2, "1M", "0", "e"),
                        gfa1_edge(rt, n1, o1, n2, o2, "2M", "1", "f")]
                else:
                  es = [gfa1_edge(rt, n1, o1, n2, o2, "1M", "0"),
                        gfa1_edge(rt, n1, o1, n2, o2, "2M", "1")]
                if n1 == n2:
                  segs, rest = [sa], [sb, sc, u]
                else:
                  segs = [sa, sb] if n1 == "A" else [sb, sa]
                  rest = [sc, u]
                for order in ORDERS:
                  if n1 == n2 and order == "edge-between":
                    lines = [sb] + es + [sa, sc, u]
                  else:
                    lines = arrange(segs, es, rest, order)
                  yield {"family": rt, "version": "gfa1", "vlevel": vlevel,
                         "cell": "{}{} {}->{} {}".format(o1, o2, n1, n2,
                                                        copies),
                         "order": order, "lines": lines, "post": post}
                  if post is None:
                    # the judged edge removed again (by instance)
                    yield {"family": rt, "version": "gfa1", "vlevel": vlevel,
                           "cell": "{}{} {}->{} {}".format(o1, o2, n1, n2,
                                                          copies),
                           "order": order, "lines": lines,
                           "post": ["rm-line", es[-1]]}
                    if rt == "L" and copies in ("one*", "one"):
                      # a path over the link arriving before it / after it
                      f = es[0].split("\t")
                      pl = T(["P", "q", f[1] + f[2] + "," + f[3] + f[4],
                              f[5]])
                      for pos in ("before", "after"):
                        l2 = [x for x in lines if x != es[0]]
                        l2 = l2 + ([pl, es[0]] if pos == "before"
                                   else [es[0], pl])
                        yield {"family": rt, "version": "gfa1",
                               "vlevel": vlevel,
                               "cell": "{}{} {}->{} {}".format(
                                   o1, o2, n1, n2, copies),
                               "order": order + "+path-" + pos,
                               "lines": l2, "post": None}
  # gaps (GFA2)
  REF_G = ["refused", T(["G", "*", "a+", "u-", "1", "*"])]
  REF_E = ["refused", T(["E", "*", "a-", "u+", "0", "1", "0", "1", "*"])]
  posts = [None, REF_G] if quick else [None, ["rename", "a", "z"],
                                       ["rename", "b", "y"], ["rm", "u"],
                                       ["rm", "c"], REF_G, REF_E]
  for vlevel in vlevels:
    for post in posts:
      sa, sb, sc = (T(["S", n, "3", "*"]) for n in "abc")
      u = T(["G", "u", "b+", "c-", "7", "*"])
      for n1, n2 in (("a", "b"), ("b", "a"), ("a", "a")):
        for o1, o2 in ORIENTS:
          for copies in ("one", "one-unnamed", "two-named", "two-unnamed"):
            if copies == "one":
              es = [T(["G", "g", n1 + o1, n2 + o2, "5", "*"])]
            elif copies == "one-unnamed":
              es = [T(["G", "*", n1 + o1, n2 + o2, "5", "*"])]
            elif copies == "two-named":
              es = [T(["G", "g", n1 + o1, n2 + o2, "5", "*"]),
                    T(["G", "h", n1 + o1, n2 + o2, "6", "2"])]
            else:
              es = [T(["G", "*", n1 + o1, n2 + o2, "5", "*"]),
                    T(["G", "*", n1 + o1, n2 + o2, "6", "2"])]
            if n1 == n2:
              segs, rest = [sa], [sb, sc, u]
            else:
              segs = [sa, sb] if n1 == "a" else [sb, sa]
              rest = [sc, u]
            for order in ORDERS:
              if n1 == n2 and order == "edge-between":
                lines = [sb] + es + [sa, sc, u]
              else:
                lines = arrange(segs, es, rest, order)
              yield {"family": "G", "version": "gfa2", "vlevel": vlevel,
                     "cell": "{}{} {}->{} {}".format(o1, o2, n1, n2, copies),
                     "order": order, "lines": lines, "post": post}


def mixed_cases(quick):
  """Two different edges in one graph: every ordered pair of GFA1 edges (L, C
  x topology x orientation pair), and every E cell (one position pair per
  interval kind) together with every gap orientation pair."""
  sa, sb = T(["S", "A", "ACGT"]), T(["S", "B", "ACGT"])
  one = [(rt, n1, o1, n2, o2) for rt in "LC" for n1, n2 in TOPOLOGIES
         for o1, o2 in ORIENTS]
  for i, x in enumerate(one):
    for j, y in enumerate(one):
      if i == j:
        continue
      ex = gfa1_edge(x[0], x[1], x[2], x[3], x[4], "1M", "0", "e")
      ey = gfa1_edge(y[0], y[1], y[2], y[3], y[4], "2M", "1", "f")
      for order in ("segments-first", "edge-first"):
        yield {"family": "mixed1", "version": "gfa1", "vlevel": 1,
               "cell": "{}{}{} {}->{} with {}{}{} {}->{}".format(
                   x[0], x[2], x[4], x[1], x[3], y[0], y[2], y[4], y[1],
                   y[3]),
               "order": order, "post": None,
               "lines": arrange([sa, sb], [ex, ey], [], order)}
  if quick:
    return
  sa, sb = T(["S", "a", "3", "*"]), T(["S", "b", "3", "*"])
  rep = {}
  for p in POSITIONS:
    rep.setdefault(R.interval_kind(*p), p)
  for o1, o2 in ORIENTS:
    for k1 in R.KINDS:
      for k2 in R.KINDS:
        p1, p2 = rep[k1], rep[k2]
        e = T(["E", "e", "a" + o1, "b" + o2, p1[0], p1[1], p2[0], p2[1],
               "*"])
        for g1, g2 in ORIENTS:
          for n1, n2 in (("a", "b"), ("b", "a")):
            gp = T(["G", "g", n1 + g1, n2 + g2, "5", "*"])
            for order in ("segments-first", "edge-first"):
              yield {"family": "mixed2", "version": "gfa2", "vlevel": 1,
                     "cell": "E {}{} {}/{} with G {}{} {}->{}".format(
                         o1, o2, k1, k2, g1, g2, n1, n2),
                     "order": order, "post": None,
                     "lines": arrange([sa, sb], [e, gp], [], order)}


# ---------------------------------------------------------------------------
# execution
# ---------------------------------------------------------------------------


def execute(case):
  """Build the graph, apply the post operation; returns (g, final text lines
  for the reference, error or None)."""
  g = gfapy.Gfa(version=case["version"], vlevel=case["vlevel"])
  lines = list(case["lines"])
  for l in lines:
    g.add_line(l)
  post = case.get("post")
  if post:
    if post[0] == "rename":
      g.segment(post[1]).name = post[2]
      lines = R.doc_rename(lines, post[1], post[2])
    elif post[0] == "refused":
      # the document stays as it is, whether gfapy refuses the line or not
      try:
        g.add_line(post[1])
      except gfapy.Error:
        pass
    elif post[0] == "in-out":
      g.add_line(post[1])
      g.rm(post[2])
    elif post[0] == "rm-line":
      # the judged edge itself, removed by instance (named or not)
      tgt = [l for l in g.lines if str(l) == post[1]]
      if tgt:
        g.rm(tgt[0])
        lines = [l for l in lines if l != post[1]] + \
            [l for l in lines if l == post[1]][1:]
    elif post[0] == "path-over":
      # a path over the judged link arrives before the link does: placeholder
      # link, replaced later (GFA1)
      pass
    else:
      g.rm(post[1])
      lines = R.doc_remove(lines, post[1])
  return g, lines


def judge(case):
  """-> (problems, state description).  problems: list of
  (clause, field, expected, observed)."""
  try:
    with guard():
      try:
        g, lines = execute(case)
      except gfapy.Error as e:
        return [("raises", "building the graph", "no error",
                 "{}: {}".format(type(e).__name__,
                                 str(e).split("\n")[0][:100]))], None
      except Exception as e:
        return [("raises", "building the graph", "no error",
                 "{}! {}".format(type(e).__name__, str(e)[:100]))], None
      probs = compare(lines, g)
      state = sorted(str(x) for x in g.lines)
  except BaseException as e:
    if timed_out():
      return [("timeout", "case", "terminates", "time budget exceeded")], None
    raise
  if timed_out():
    return [("timeout", "case", "terminates", "time budget exceeded")], None
  return probs, (state, lines)


def standalone(case, field):
  s = ["import gfapy",
       "g = gfapy.Gfa(version={!r}, vlevel={!r})".format(case["version"],
                                                         case["vlevel"])]
  for l in case["lines"]:
    s.append("g.add_line({!r})".format(l))
  post = case.get("post")
  if post:
    if post[0] == "rename":
      s.append("g.segment({!r}).name = {!r}".format(post[1], post[2]))
    elif post[0] == "refused":
      s.append("try:\n  g.add_line({!r})\nexcept gfapy.Error as e:\n  "
               "print(type(e).__name__)".format(post[1]))
    elif post[0] == "in-out":
      s.append("g.add_line({!r}); g.rm({!r})".format(post[1], post[2]))
    elif post[0] == "rm-line":
      s.append("g.rm([l for l in g.lines if str(l) == {!r}][0])".format(
          post[1]))
    else:
      s.append("g.rm({!r})".format(post[1]))
  s.append("for s in g.segments:")
  s.append("  for c in {!r}:".format(list(R.SEG_COLLECTIONS)))
  s.append("    print(s.name, c, [str(x) for x in getattr(s, c)])")
  s.append("# disagreement reported on: " + field)
  return "\n".join(s)


def violations_of(case, probs):
  out = []
  for clause, field, exp, obs in probs:
    key = {"family": case["family"], "cell": case["cell"],
           "order": case["order"], "post": " ".join(case["post"] or ["-"]),
           "vlevel": case["vlevel"], "field": field}
    if clause == "other-by-name":
      # independent of the cell: one minimal witness per record type
      key = {"field": field, "observed": str(obs) if "raises" in str(obs)
             else "wrong segment"}
    out.append(mkviolation(clause, key, case, exp, obs,
                           standalone(case, field)))
  return out


def work(cases):
  res = new_result()
  for case in cases:
    probs, st = judge(case)
    res["evaluations"] += 1
    res["transitions"] += len(case["lines"]) + (1 if case.get("post") else 0)
    res["traces"] += 1
    if st is not None:
      state, lines = st
      res["states"].add(h([case["version"], state]))
      segs, edges = R.neighbourhoods(lines)
      kinds = sorted(set(v["kind"] for v in edges.values()))
      if edges:
        res["nontrivial"].add(h([case["version"], state]))
      filed = sorted(set(c for v in edges.values() for _, c in v["sides"]))
      res["outcomes"].add("{}:{}".format(case["family"], ",".join(filed)))
    else:
      res["outcomes"].add("error")
    if probs:
      res["violations"].extend(violations_of(case, probs))
    elif case["order"] == "edge-first" and case["vlevel"] == 1 and \
        case["post"] is None and h(case["cell"])[0] in "01":
      res["samples"].append({"family": case["family"], "cell": case["cell"],
                             "order": case["order"],
                             "lines": [l.replace("\t", " ")
                                       for l in case["lines"]]})
  return res


def selftest():
  n, bad = R.selftest_labels(LABELS)
  if n != 800 or bad:
    raise RuntimeError("reference model does not reproduce the 800 at:Z: "
                       "labels of {}: {} checked, mismatches: {}".format(
                           LABELS, n, bad[:5]))
  # the table enumerated below covers every interval kind
  assert sorted(set(R.interval_kind(*p) for p in POSITIONS)) == \
      sorted(R.KINDS)
  return n


def chunks(xs, n):
  for i in range(0, len(xs), n):
    yield xs[i:i + n]


def run(ctx):
  n = selftest()
  ctx.rule = ("one case = one document added line by line in a given arrival "
              "order (+ optional rename / removal); non-trivial = the final "
              "document holds at least one edge or gap; outcome = family + "
              "set of collections in which something is filed")
  ctx.alphabet = {
      "E": {"orientations": ["".join(o) for o in ORIENTS],
            "intervals on a segment of length 3": ["/".join(p)
                                                   for p in POSITIONS],
            "interval kinds": [R.KIND_NAMES[k] for k in R.KINDS],
            "classified segment": ["sid1", "sid2", "both (self-edge)"],
            "sequence": ["*", "ACG"]},
      "L/C": {"topology": ["A->B", "B->A", "A->A"],
              "orientations": ["".join(o) for o in ORIENTS],
              "copies": ["one (*)", "one (1M, named)", "two parallel named",
                         "two parallel unnamed"],
              "segments": ["* LN:i:4", "ACGT"]},
      "G": {"topology": ["a->b", "b->a", "a->a"],
            "orientations": ["".join(o) for o in ORIENTS],
            "copies": ["one", "one unnamed", "two named", "two unnamed"]},
      "mixed": ["all ordered pairs of 24 GFA1 edges",
                "thorough: 196 E cells x 8 gaps"],
      "arrival orders": list(ORDERS),
      "post operations": ["none"] if ctx.quick else
      ["none", "rename classified segment", "rename other segment",
       "rm unrelated edge", "rm unrelated segment (cascade)",
       "rm the edge itself (E)"],
      "vlevel": [1] if ctx.quick else [0, 1, 3]}
  ctx.assumptions = [
      "reference model gfamc/ref/edges.py reproduces all {} at:Z: labels of "
      "tests/testdata/gfa2_edges_classification.gfa (checked at start of "
      "every run; a mismatch is a harness error)".format(n),
      "two whole intervals: sid1 is taken as the container (convention of "
      "those labels)",
      "a self-edge whose two sides are filed in the same collection may be "
      "listed there once or twice",
      "from_end / to_end / other_end are compared for dovetails only, "
      "from_segment / to_segment for dovetails and containments",
      "collections are compared as multisets (order within a collection is "
      "not part of the property)"]
  cases = list(e_cases(ctx.quick)) + list(lcg_cases(ctx.quick)) + \
      list(mixed_cases(ctx.quick))
  fam = {}
  for c in cases:
    fam[c["family"]] = fam.get(c["family"], 0) + 1
  seen, dup, per_class = set(), 0, {}
  for r in ctx.pmap(work, list(chunks(cases, 50)), chunksize=1):
    # further cases with an already reported key / class are counted, not
    # kept
    vs = r.pop("violations")
    r["violations"] = []
    ctx.merge(r)
    for v in vs:
      fp = fingerprint(v["clause"], v["key"])
      # keep the first 3 witnesses per (clause, family, field)
      cls = (v["clause"], v["key"].get("family"), v["key"].get("field"))
      if fp in seen or per_class.get(cls, 0) >= 3:
        dup += 1
      else:
        per_class[cls] = per_class.get(cls, 0) + 1
        seen.add(fp)
        ctx.violation(v)
  ctx.extra["violating_cases_with_an_already_reported_key"] = dup
  ctx.bound_completed = {"cases": len(cases), "per_family": fam,
                         "label_selftest": n}
  ctx.extra["e_table_cells"] = len(ORIENTS) * len(R.KINDS) ** 2


def replay(w, ctx):
  selftest()
  probs, _ = judge(w)
  return violations_of(w, probs)
