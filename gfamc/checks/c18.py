"""C18 -- validation levels only change when errors surface, never the result.

(1) every document of the C01 family builds the same observation and writes
    the same text at levels 0..3;
(2) monotonicity: whatever is accepted at level k is accepted at every lower
    level (single-point mutations of the corpus, lines and documents);
(3) every program  set(f,v); op1; op2  (op in get, field_to_s, str,
    validate_field, validate, none) on lines of every record type, stand-alone
    and connected, with valid and invalid values, at levels 0..3."""
import itertools
import gfapy
from .. import observe, corpus, enumstr
from ..runner import guard, HarnessTimeout, new_result, mkviolation, h
from . import c01

PROPERTY = "C18"
NAN = float("nan")

# (version, support lines, line, field, declared tag datatype or None,
#  valid values, invalid values)
FIELDS = [
    ("gfa1", [], "S\tA\t*", "xx", "i", [5, "5", "-3"], ["1_0", "x", 1.5, [1], "5\n", " 5"]),
    ("gfa1", [], "S\tA\t*", "sequence", None, ["ACG", "*"], ["A C", 5, "A\tC", ""]),
    ("gfa1", [], "S\tA\t*", "LN", None, [3, "3"], ["x", "3.0", 1.5]),
    ("gfa1", [], "S\tA\tACG", "LN", "cross", [3], [2, "4"]),
    ("gfa1", ["S\tA\t*", "S\tB\t*"], "L\tA\t+\tB\t+\t*", "xx", "Z", ["b c"], ["a\tb", 5, "é", ""]),
    ("gfa1", [], "L\tA\t+\tB\t+\t*", "from_orient", None, ["-"], ["x", 1, "+-"]),
    ("gfa1", [], "L\tA\t+\tB\t+\t*", "overlap", None, ["2M", "*"], ["2Q", "1,2", 5]),
    ("gfa1", ["S\tA\t*", "S\tB\t*"], "C\tA\t+\tB\t+\t1\t*", "pos", None, [0, "2"], [-1, "x", "1$", 1.5]),
    ("gfa1", ["S\tA\t*", "S\tB\t*", "L\tA\t+\tB\t+\t*"], "P\tp\tA+,B+\t*", "xx", "J",
     [[1], {"a": 1}, "[1]"], ["{", "1", 5, [NAN]]),
    ("gfa2", [], "S\ta\t4\t*", "slen", None, [5, "5"], ["x", 1.5, "1_0"]),
    ("gfa2", ["S\ta\t4\t*", "S\tb\t4\t*"], "E\te\ta+\tb+\t0\t1\t0\t1\t*", "xx", "B",
     [[1, 2], "c,1", [1.5]], ["c,128", [1, "a"], [], "c,", 5]),
    ("gfa2", [], "E\te\ta+\tb+\t0\t1\t0\t1\t*", "end1", None, [1, "4$", 7], [-1, "x", "$", 1.5]),
    ("gfa2", [], "E\te\ta+\tb+\t0\t1\t0\t1\t*", "alignment", None, ["2M", "*", "1,2"], ["2Q", "1,", 5, "2="]),
    ("gfa2", ["S\ta\t4\t*", "S\tb\t4\t*"], "G\tg\ta+\tb+\t1\t*", "disp", None, [2, "-3"], ["x", "1_0", 1.5]),
    ("gfa2", ["S\ta\t4\t*", "S\tb\t4\t*"], "G\tg\ta+\tb+\t1\t*", "var", None, ["*", 3], ["x", "1.5"]),
    ("gfa2", ["S\ta\t4\t*"], "F\ta\tx+\t0\t1\t0\t1\t*", "xx", "H", ["1A"], ["1a", "1AF", 5, "G0"]),
    # empty intervals (begin == end) are valid positions
    ("gfa2", ["S\ta\t4\t*"], "F\ta\tx+\t0\t1\t0\t1\t*", "s_end", None, [0, 2, "4$"], [-1, "x", "$", 1.5]),
    ("gfa2", ["S\ta\t4\t*"], "F\ta\tx+\t0\t1\t0\t1\t*", "f_beg", None, [1, 0], [-1, "x", 1.5]),
    ("gfa2", ["S\ta\t4\t*", "S\tb\t4\t*"], "O\to\ta+ b+", "xx", "f", [1.5, "1.5", "-2"], ["1.", "inf", "x", [1.5], NAN]),
    ("gfa2", ["S\ta\t4\t*"], "U\tu\ta", "xx", "A", ["x"], ["xy", "", 5, " "]),
    ("gfa2", [], "X\tf1\tf2", "xx", "i", [1], ["x", 1.5]),
    ("gfa1", [], "H\txz:Z:q", "xx", "Z", ["b c"], ["a\tb", 5]),
    # tags created at run time without a declared datatype (default datatype)
    ("gfa1", ["S\tA\t*"], "S\tB\t*", "zz", "auto", [1, 2, -7], []),
    ("gfa2", ["S\ta\t4\t*", "S\tb\t4\t*"], "E\te\ta+\tb+\t0\t1\t0\t1\t*", "zz", "auto",
     ["ab", "c d"], []),
    ("gfa1", [], "S\tB\t*", "zz", "auto", [[1, 2], [3]], []),
    ("gfa1", [], "S\tB\t*", "zz", "auto", [1.5, 2.5], []),
    ("gfa1", [], "S\tB\t*", "zz", "auto", [{"a": 1}, {"b": [2]}], []),
]
OPS = ["get", "field_to_s", "str", "validate_field", "validate", "none"]


def do_op(line, op, f):
  """returns 'ok' | 'flagged' | 'raise:<cls>' | 'foreign:<cls>'"""
  try:
    if op == "get":
      line.get(f)
    elif op == "field_to_s":
      line.field_to_s(f)
    elif op == "str":
      s = str(line)
      if "INVALID" in s:
        return "flagged"
    elif op == "validate_field":
      line.validate_field(f)
    elif op == "validate":
      line.validate()
    return "ok"
  except gfapy.Error as e:
    return "raise:" + type(e).__name__
  except HarnessTimeout:
    raise
  except Exception as e:
    return "foreign:" + type(e).__name__


def run_program(idx, vi, valid, connected, vlevel, prog):
  version, support, text, f, dt, valids, invalids = FIELDS[idx]
  v = (valids if valid else invalids)[vi]
  if connected:
    g = gfapy.Gfa(support + [text], version=version, vlevel=vlevel)
    line = [l for l in g.lines if str(l) == text][0]
  else:
    line = gfapy.Line(text, version=version, vlevel=vlevel)
  cross = dt == "cross"
  if dt is not None and not cross and dt != "auto":
    line.set_datatype(f, dt)
  before = str(line)
  probs = []
  try:
    line.set(f, v)
    setres = "ok"
  except gfapy.Error as e:
    setres = "raise:" + type(e).__name__
  except HarnessTimeout:
    raise
  except Exception as e:
    setres = "foreign:" + type(e).__name__
  trace = ["set:" + setres]
  if valid:
    if setres != "ok":
      probs.append(("valid-assignment-rejected", "set -> {} at level {}".format(
          setres, vlevel)))
      return trace, probs
  else:
    if vlevel >= 3 and setres == "ok" and not cross:
      probs.append(("invalid-assignment-not-reported-at-level-3",
                    "set({!r}, {!r}) returned".format(f, v)))
    if setres != "ok":
      # refused: the old value must still be there
      after = str(line)
      if after != before:
        probs.append(("refused-assignment-changed-line",
                      "{!r} -> {!r}".format(before, after)))
      return trace, probs
  reported = False
  for op in prog:
    if op == "none":
      continue
    r = do_op(line, op, f)
    trace.append(op + ":" + r)
    if r.startswith("foreign"):
      probs.append(("foreign-exception", "{} -> {}".format(op, r)))
    if valid:
      if r != "ok":
        probs.append(("valid-value-reported", "{} -> {} at level {}".format(
            op, r, vlevel)))
    else:
      bad = r != "ok"
      if cross and op != "validate":
        # the value is valid for its datatype; only the cross-field rule of
        # the record is broken, which validate() (not validate_field, not the
        # writer) is documented to check
        continue
      if op in ("validate_field", "validate") and not bad:
        probs.append(("invalid-value-passes-" + op,
                      "after {} at level {}".format(trace[:-1], vlevel)))
      if op == "field_to_s" and vlevel >= 2 and not bad:
        probs.append(("invalid-value-written-at-level>=2",
                      "field_to_s returned at level {}".format(vlevel)))
      if op == "str" and vlevel >= 2 and not bad:
        probs.append(("invalid-value-written-at-level>=2",
                      "str(line) not flagged at level {}".format(vlevel)))
  return trace, probs


# lifecycle programs on valid values only: a valid assignment is never
# rejected at any level, however the tag came into being
LIFE_OPS = ["set", "setattr", "delete", "get", "str", "validate"]
LIFE_PROGRAMS = [p for n in (1, 2, 3) for p in itertools.product(LIFE_OPS, repeat=n)
                 if p[0] in ("set", "setattr")]


def run_life(idx, vlevel, prog, mode):
  """mode: 'alone' | 'gfa' (explicit version, line last) | 'open-first'
  (version left open, the line arrives before its support lines)"""
  version, support, text, f, dt, valids, invalids = FIELDS[idx]
  vals = [v for v in valids]
  if mode == "alone":
    line = gfapy.Line(text, version=version, vlevel=vlevel)
  elif mode == "gfa":
    g = gfapy.Gfa(support + [text], version=version, vlevel=vlevel)
    line = [l for l in g.lines if str(l) == text][0]
  else:
    g = gfapy.Gfa([text] + support, vlevel=vlevel)
    line = [l for l in g.lines if str(l) == text][0]
  declared = dt is not None and dt not in ("cross", "auto")
  if declared:
    line.set_datatype(f, dt)
  trace = []
  probs = []
  k = 0
  for op in prog:
    v = vals[k % len(vals)]
    try:
      if op == "set":
        line.set(f, v); k += 1
      elif op == "setattr":
        setattr(line, f, v); k += 1
      elif op == "delete":
        if f in line.tagnames:
          line.delete(f)
          if declared:
            line.set_datatype(f, dt)
      elif op == "get":
        line.get(f)
      elif op == "str":
        if "INVALID" in str(line):
          raise gfapy.FormatError("flagged invalid")
      elif op == "validate":
        line.validate()
      trace.append(op + ":ok")
    except gfapy.Error as e:
      trace.append(op + ":" + type(e).__name__)
      probs.append(("valid-value-reported", "{} -> {} at level {} ({})".format(
          op, type(e).__name__, vlevel, mode)))
      break
    except HarnessTimeout:
      raise
    except Exception as e:
      trace.append(op + ":foreign:" + type(e).__name__)
      probs.append(("foreign-exception", "{} -> {}".format(op, type(e).__name__)))
      break
  return trace, probs


def invalid_in_open_gfa(idx, vi, vlevel):
  """the line that fixes the version of an open Gfa must be held to the Gfa's
  level like every other line"""
  version, support, text, f, dt, valids, invalids = FIELDS[idx]
  g = gfapy.Gfa([text] + support, vlevel=vlevel)
  line = [l for l in g.lines if str(l) == text][0]
  if dt is not None and dt not in ("cross", "auto"):
    line.set_datatype(f, dt)
  v = invalids[vi]
  probs = []
  try:
    line.set(f, v)
  except gfapy.Error:
    return probs
  if vlevel >= 3:
    probs.append(("invalid-assignment-not-reported-at-level-3",
                  "line arriving first in a Gfa of open version: set({!r}, {!r}) "
                  "returned".format(f, v)))
  if vlevel >= 2:
    r = do_op(line, "field_to_s", f)
    if r == "ok":
      probs.append(("invalid-value-written-at-level>=2",
                    "line arriving first in a Gfa of open version"))
  return probs


def work_life(item):
  idx = item
  res = new_result()
  found = {}
  version, support, text, f, dt, valids, invalids = FIELDS[idx]
  if dt == "cross":
    res["found"] = found
    return res
  istag = dt is not None
  modes = ["alone"] + (["gfa", "open-first"] if support else [])
  for mode in modes:
    for vlevel in (0, 1, 2, 3):
      progs = LIFE_PROGRAMS if istag else [p for p in LIFE_PROGRAMS if "delete" not in p]
      for prog in progs:
        res["evaluations"] += 1
        res["transitions"] += len(prog)
        try:
          with guard(3.0):
            trace, probs = run_life(idx, vlevel, prog, mode)
        except HarnessTimeout:
          trace, probs = ["timeout"], [("timeout", "")]
        except gfapy.Error as e:
          trace, probs = ["setup:" + type(e).__name__], []
        res["outcomes"].add(h(trace))
        res["states"].add(h((idx, mode, vlevel, prog)))
        for cl, det in probs:
          k = (cl, idx, "life")
          w = {"kind": "life", "idx": idx, "vlevel": vlevel, "prog": list(prog),
               "mode": mode, "clause": cl}
          size = (len(prog), vlevel, mode, prog)
          old = found.get(k)
          if old is None or size < old[0]:
            found[k] = (size, w, det)
      if mode == "open-first":
        for vi in range(len(invalids)):
          res["evaluations"] += 1
          try:
            with guard(3.0):
              probs = invalid_in_open_gfa(idx, vi, vlevel)
          except HarnessTimeout:
            probs = [("timeout", "")]
          except gfapy.Error:
            probs = []
          for cl, det in probs:
            k = (cl, idx, "open")
            w = {"kind": "open", "idx": idx, "vi": vi, "vlevel": vlevel, "clause": cl}
            size = (vlevel, vi)
            old = found.get(k)
            if old is None or size < old[0]:
              found[k] = (size, w, det)
  res["found"] = found
  return res


PROGRAMS = [p for p in itertools.product(OPS, repeat=2)
            if not (p[0] == "none" and p[1] != "none")]


def work_programs(item):
  idx, connected = item
  res = new_result()
  found = {}
  version, support, text, f, dt, valids, invalids = FIELDS[idx]
  if connected and not support:
    res["found"] = found
    return res
  for valid, vals in ((True, valids), (False, invalids)):
    for vi in range(len(vals)):
      for vlevel in (0, 1, 2, 3):
        for prog in PROGRAMS:
          res["evaluations"] += 1
          res["transitions"] += 1 + len([o for o in prog if o != "none"])
          try:
            with guard(3.0):
              trace, probs = run_program(idx, vi, valid, connected, vlevel, prog)
          except HarnessTimeout:
            trace, probs = ["timeout"], [("timeout", "")]
          except gfapy.Error as e:
            trace, probs = ["setup:" + type(e).__name__], []
          res["outcomes"].add(h(trace))
          res["states"].add(h((idx, connected, valid, vi, vlevel, trace)))
          if not valid:
            res["nontrivial"].add(h((idx, connected, vi, vlevel, prog)))
          for cl, det in probs:
            k = (cl, idx, valid, vi)
            w = {"kind": "program", "idx": idx, "vi": vi, "valid": valid,
                 "connected": connected, "vlevel": vlevel, "prog": list(prog),
                 "clause": cl}
            size = (len(prog) - prog.count("none"), vlevel, connected, prog)
            old = found.get(k)
            if old is None or size < old[0]:
              found[k] = (size, w, det)
  res["found"] = found
  return res


# ----------------------------------------------------------- (1) same graph
def canon_text(t, version):
  """a written line modulo the canonical spelling of numbers / JSON / B
  (lazily parsed fields keep their input spelling at level 0)"""
  try:
    return repr(c01.tokenize([t.replace("\tco:Z:GFAPY_virtual_line", "")],
                             version))
  except ValueError:
    return t


def canon_key(k, version):
  if "=" in k and not k.startswith("str:"):
    a, b = k.split("=", 1)
    return a + "=" + canon_text(b, version)
  return k


def canon_obs(g, version):
  o = observe.obs(g, keep_backref_order=False)
  lines = []
  for text, key, virt, own, refs, br in o["lines"]:
    lines.append((canon_text(text, version), canon_key(key, version), virt, own,
                  tuple((f, canon_key(t, version), oo) for f, t, oo in refs),
                  tuple(sorted((c, canon_key(m, version)) for c, m in br))))
  return (g.version, tuple(sorted(lines, key=repr)), tuple(o["names"]))


def work_levels(chunk):
  res = new_result()
  found = {}
  for family, version, lines in chunk:
    obs = []
    for vlevel in (0, 1, 2, 3):
      res["evaluations"] += 1
      res["transitions"] += 1
      try:
        with guard(5.0):
          g = gfapy.Gfa(list(lines), vlevel=vlevel, version=version)
          o = canon_obs(g, version)
      except HarnessTimeout:
        o = ("timeout",)
      except gfapy.Error as e:
        o = ("error", type(e).__name__)
      except Exception as e:
        o = ("foreign", type(e).__name__)
      obs.append(o)
    res["states"].add(h(repr(obs[1])))
    res["outcomes"].add("same" if len(set(map(repr, obs))) == 1 else "differ")
    if len(set(map(repr, obs))) != 1:
      k = ("level-dependent-result", family)
      w = {"kind": "levels", "lines": lines, "version": version,
           "family": family, "clause": "level-dependent-result"}
      size = (len("\n".join(lines)), lines)
      old = found.get(k)
      if old is None or size < old[0]:
        found[k] = (size, w, [repr(o)[:300] for o in obs])
  res["found"] = found
  return res


# --------------------------------------------------------- (2) monotonicity
MUT_ALPHA = ["\t", " ", "*", "+", "-", "0", "9", "$", ":", ",", "A", "{", "_"]


def accepted(fn):
  try:
    with guard(3.0):
      fn()
    return True
  except gfapy.Error:
    return False
  except HarnessTimeout:
    return False
  except Exception:
    return False


def work_monotone(item):
  version, kind, idx = item
  res = new_result()
  found = {}
  lines = corpus.GFA1_LINES if version == "gfa1" else corpus.GFA2_LINES
  doc = corpus.GFA1_DOC if version == "gfa1" else corpus.GFA2_DOC
  base = lines[idx] if kind == "line" else doc[idx]
  for _, _, m in enumstr.mutations(base, MUT_ALPHA):
    if "\n" in m:
      continue
    if kind == "line":
      if m == "":
        continue
      acc = [accepted(lambda: gfapy.Line(m, vlevel=k, version=version))
             for k in (0, 1, 2, 3)]
    else:
      d2 = list(doc); d2[idx] = m
      acc = [accepted(lambda: gfapy.Gfa(list(d2), vlevel=k, version=version))
             for k in (0, 1, 2, 3)]
    res["evaluations"] += 4
    res["transitions"] += 4
    res["outcomes"].add("acc:" + "".join("1" if a else "0" for a in acc))
    res["states"].add(h((kind, m)))
    mono = all(acc[j] or not acc[k] for k in range(4) for j in range(k))
    if not mono:
      k = ("accepted-at-higher-level-only", kind + ":" + base.split("\t")[0])
      w = {"kind": "monotone", "what": kind, "text": m if kind == "line"
           else "\n".join(d2), "version": version,
           "clause": "accepted-at-higher-level-only"}
      size = (len(w["text"]), w["text"])
      old = found.get(k)
      if old is None or size < old[0]:
        found[k] = (size, w, acc)
  res["found"] = found
  return res


# ---------------------------------------------------------------------------
# lines produced BY gfapy (merged segments, copies of multiply, converted
# lines, clones) are lines of a Gfa at level v like any other: an invalid
# value assigned to them is reported as the level demands

DERIVED_DOCS = {
    "gfa1-star": ("gfa1", ["S\tA\t*\tLN:i:4", "S\tB\t*\tLN:i:4", "S\tC\t*\tLN:i:4",
                           "L\tA\t+\tB\t+\t1M", "L\tB\t+\tC\t+\t1M",
                           "L\tC\t+\tC\t-\t1M"]),
    "gfa1-seq": ("gfa1", ["S\tA\tACGT", "S\tB\tGTTA", "S\tC\tAACC",
                          "L\tA\t+\tB\t+\t1M", "L\tB\t+\tC\t+\t1M",
                          "L\tC\t+\tC\t-\t1M", "C\tA\t+\tC\t+\t0\t2M",
                          "P\tp\tA+,B+\t1M"]),
    "gfa2-star": ("gfa2", ["S\ta\t4\t*", "S\tb\t4\t*", "S\tc\t4\t*",
                           "E\t*\ta+\tb+\t3\t4$\t0\t1\t1M",
                           "E\te2\tb+\tc+\t3\t4$\t0\t1\t1M",
                           "E\t*\tc+\tc-\t4$\t4$\t4$\t4$\t*"]),
    "gfa2-seq": ("gfa2", ["S\ta\t4\tACGT", "S\tb\t4\tGTTA", "S\tc\t4\tAACC",
                          "E\t*\ta+\tb+\t3\t4$\t0\t1\t1M",
                          "E\te2\tb+\tc+\t3\t4$\t0\t1\t1M",
                          "O\to\ta+ b+", "F\ta\tr+\t0\t2\t0\t2\t*"]),
}
DERIVED_OPS = ("merge", "multiply", "convert", "convert-lines", "clone-add")


def derived_lines(name, vlevel, op):
  """(Gfa that holds the derived lines, [derived lines])"""
  version, lines = DERIVED_DOCS[name]
  g = gfapy.Gfa(lines, version=version, vlevel=vlevel)
  before = set(id(l) for l in g.lines)
  if op == "merge":
    g.merge_linear_paths()
    return g, [l for l in g.lines if id(l) not in before]
  if op == "multiply":
    g.multiply(g.segment_names[-1], 3)
    return g, [l for l in g.lines if id(l) not in before]
  if op == "convert":
    c = g.to_gfa2() if version == "gfa1" else g.to_gfa1()
    return c, list(c.lines)
  if op == "convert-lines":
    out = []
    for l in g.lines:
      try:
        out.append(l.to_gfa2() if version == "gfa1" else l.to_gfa1())
      except gfapy.Error:
        pass
    return None, [l for l in out if l is not None]
  if op == "clone-add":
    s = g.segment(g.segment_names[0])
    c = s.clone()
    c.name = "q9"
    g.add_line(c)
    return g, [c]
  raise KeyError(op)


def derived_case(name, vlevel, op):
  probs = []
  g, ls = derived_lines(name, vlevel, op)
  if g is not None and g.vlevel != vlevel:
    probs.append(("derived-gfa-level", "{} of a Gfa at level {} gives a Gfa "
                  "at level {}".format(op, vlevel, g.vlevel)))
  for l in ls:
    if l.vlevel != vlevel:
      probs.append(("derived-line-level", "{}: line [{}] is at level {} in "
                    "a Gfa at level {}".format(op, str(l).replace("\t", " "),
                                               l.vlevel, vlevel)))
      break
  # behaviour, not just the attribute: an invalid tag value
  for l in ls:
    if l.record_type in ("#",):
      continue
    err = None
    try:
      l.set("xz", "a b")
      l.set_datatype("xz", "i")
      l.set("xz", "1_0")
    except gfapy.Error as e:
      err = e
    if vlevel >= 3 and err is None:
      probs.append(("invalid-assignment-not-reported-at-level-3",
                    "{}: [{}] accepted xz:i:1_0".format(
                        op, str(l).split("\t")[0])))
      break
    if vlevel == 2 and err is None:
      flagged = False
      try:
        flagged = "INVALID" in str(l)
      except gfapy.Error:
        flagged = True
      if not flagged:
        probs.append(("invalid-value-written-at-level>=2",
                      "{}: [{}] written without complaint".format(
                          op, str(l).replace("\t", " "))))
        break
    try:
      l.delete("xz")
    except gfapy.Error:
      pass
  # a copy and the line it was copied from are two lines: a new tag on the
  # copy says nothing about a tag of that name on the original (valid
  # assignments are never rejected, at any level)
  if op in ("multiply", "clone-add") and g is not None:
    for c in ls:
      if c.record_type != "S":
        continue
      others = [s for s in g.segments if s is not c and not s.virtual]
      if not others:
        continue
      o = others[0]
      try:
        c.set("xq", 12)
        o.set("xq", "hello")
        wo, wc = o.field_to_s("xq", tag=True), c.field_to_s("xq", tag=True)
        o.validate()
        c.validate()
      except gfapy.Error as e:
        probs.append(("valid-value-reported", "{}: xq = 12 on the copy, then "
                      "xq = 'hello' on another segment: {}".format(
                          op, type(e).__name__)))
        break
      if (wo, wc) != ("xq:Z:hello", "xq:i:12"):
        probs.append(("level-dependent-result", "{}: tags written {} / {}"
                      .format(op, wo, wc)))
        break
      for x in (o, c):
        x.delete("xq")
  return probs


def work_derived(item):
  res = new_result()
  found = {}
  name, op = item
  for vlevel in (0, 1, 2, 3):
    res["evaluations"] += 1
    res["transitions"] += 3
    try:
      with guard(10.0):
        probs = derived_case(name, vlevel, op)
    except HarnessTimeout:
      probs = [("timeout", "")]
    except gfapy.Error as e:
      probs = [("derived-operation-raises", "{} at level {}: {}".format(
          op, vlevel, type(e).__name__))]
    res["states"].add(h(("derived", name, op, vlevel)))
    res["outcomes"].add("derived:" + ("ok" if not probs else probs[0][0]))
    for cl, det in probs:
      k = (cl, "derived", op)
      w = {"kind": "derived", "name": name, "op": op, "vlevel": vlevel,
           "clause": cl}
      size = (vlevel, name)
      old = found.get(k)
      if old is None or size < old[0]:
        found[k] = (size, w, det)
  res["found"] = found
  return res


def chunks(lst, n):
  for i in range(0, len(lst), n):
    yield lst[i:i + n]


def vkey(w):
  if w["kind"] in ("life", "open"):
    version, support, text, f, dt, valids, invalids = FIELDS[w["idx"]]
    k = {"line": text, "field": f, "vlevel": str(w["vlevel"]), "kind": w["kind"]}
    if w["kind"] == "life":
      k["program"] = ",".join(w["prog"]); k["mode"] = w["mode"]
    else:
      k["value"] = repr(invalids[w["vi"]])
    return k
  if w["kind"] == "program":
    version, support, text, f, dt, valids, invalids = FIELDS[w["idx"]]
    v = (valids if w["valid"] else invalids)[w["vi"]]
    return {"line": text, "field": f, "value": repr(v),
            "connected": str(w["connected"]), "vlevel": str(w["vlevel"]),
            "program": ",".join(w["prog"])}
  if w["kind"] == "levels":
    return {"family": w["family"], "document": "\n".join(w["lines"])}
  if w["kind"] == "derived":
    return {"kind": "derived", "document": w["name"], "operation": w["op"],
            "vlevel": str(w["vlevel"])}
  return {"what": w["what"], "input": w["text"]}


def run(ctx):
  ctx.rule = ("(1) C01 document family built at levels 0..3 and compared; "
              "(2) accept/reject vector over levels for every single-point "
              "mutation of the corpus; (3) every program set;op;op over 6 "
              "operations for every (field, value) of the menu, stand-alone "
              "and connected, levels 0..3; non-trivial = program with an "
              "invalid value")
  ctx.alphabet = {"fields": [(f[2], f[3], f[4], [repr(v) for v in f[5]],
                              [repr(v) for v in f[6]]) for f in FIELDS],
                  "ops": OPS, "programs": len(PROGRAMS)}
  ctx.assumptions = [
      "documents: the C01 family; values: the stated menu per field",
      "texts are compared across levels modulo the canonical spelling of "
      "numbers / JSON / B arrays (C01's documented normalisation): lazily "
      "parsed fields keep their input spelling at level 0",
      "after an invalid assignment: a gfapy.Error at the assignment at level "
      "3, field_to_s raising / str flagged at level >= 2, validate_field and "
      "validate raising at every level; what get() does is not demanded"]
  found_all = {}
  def absorb(rs):
    for r in rs:
      f = r.pop("found")
      for k, (size, w, det) in f.items():
        old = found_all.get(k)
        if old is None or size < old[0]:
          found_all[k] = (size, w, det)
      ctx.merge(r)
  maxn = 3 if ctx.quick else 4
  docs = c01.tag_documents(all_pairs=not ctx.quick) + c01.subset_documents(maxn) + c01.special_documents()
  absorb(ctx.pmap(work_levels, list(chunks(docs, 25)), chunksize=1))
  mt = []
  for version, lines, doc in (("gfa1", corpus.GFA1_LINES, corpus.GFA1_DOC),
                              ("gfa2", corpus.GFA2_LINES, corpus.GFA2_DOC)):
    mt += [(version, "line", i) for i in range(len(lines))]
    mt += [(version, "doc", i) for i in range(len(doc))]
  absorb(ctx.pmap(work_monotone, mt, chunksize=1))
  absorb(ctx.pmap(work_programs, [(i, c) for i in range(len(FIELDS))
                                  for c in (False, True)], chunksize=1))
  absorb(ctx.pmap(work_life, list(range(len(FIELDS))), chunksize=1))
  absorb(ctx.pmap(work_derived, [(n, o) for n in sorted(DERIVED_DOCS)
                                 for o in DERIVED_OPS], chunksize=1))
  ctx.alphabet["derived_lines"] = {"documents": DERIVED_DOCS,
                                   "operations": list(DERIVED_OPS)}
  ctx.bound_completed = {"documents": len(docs), "program_length": 3,
                         "lifecycle_programs": len(LIFE_PROGRAMS)}
  ctx.sample({"program": ["set xx='1_0'", "get", "validate"], "line": "S\tA\t*"})
  ctx.sample({"document": docs[5][2]})
  for k, (size, w, det) in sorted(found_all.items(), key=lambda x: repr(x[0])):
    ctx.violation(mkviolation(w["clause"], vkey(w), w, "", det, ""))


def replay(w, ctx):
  out = []
  if w["kind"] == "derived":
    try:
      probs = derived_case(w["name"], w["vlevel"], w["op"])
    except gfapy.Error as e:
      probs = [("derived-operation-raises", type(e).__name__)]
    return [mkviolation(cl, vkey(w), w, "", det, "") for cl, det in probs
            if cl == w["clause"]]
  if w["kind"] == "life":
    try:
      trace, probs = run_life(w["idx"], w["vlevel"], tuple(w["prog"]), w["mode"])
    except gfapy.Error:
      return []
    return [mkviolation(cl, vkey(w), w, "", det, "") for cl, det in probs]
  if w["kind"] == "open":
    try:
      probs = invalid_in_open_gfa(w["idx"], w["vi"], w["vlevel"])
    except gfapy.Error:
      return []
    return [mkviolation(cl, vkey(w), w, "", det, "") for cl, det in probs]
  if w["kind"] == "program":
    try:
      trace, probs = run_program(w["idx"], w["vi"], w["valid"], w["connected"],
                                 w["vlevel"], tuple(w["prog"]))
    except gfapy.Error:
      return []
    for cl, det in probs:
      out.append(mkviolation(cl, vkey(w), w, "", det, ""))
  elif w["kind"] == "levels":
    r = work_levels([(w["family"], w["version"], w["lines"])])
    for k, (size, ww, det) in r["found"].items():
      out.append(mkviolation(ww["clause"], vkey(ww), ww, "", det, ""))
  else:
    txt = w["text"]
    if w["what"] == "line":
      acc = [accepted(lambda: gfapy.Line(txt, vlevel=k, version=w["version"]))
             for k in (0, 1, 2, 3)]
    else:
      acc = [accepted(lambda: gfapy.Gfa(txt.split("\n"), vlevel=k,
                                        version=w["version"]))
             for k in (0, 1, 2, 3)]
    if not all(acc[j] or not acc[k] for k in range(4) for j in range(k)):
      out.append(mkviolation(w["clause"], vkey(w), w, "", acc, ""))
  return out
