"""C15 -- segment multiplication makes faithful copies and splits the counts.

Engine I (bounded-exhaustive inputs).  Every case is one fresh Gfa built from
text, one call of `Gfa.multiply`, and a judgement of the written form by the
text-level reference model `gfamc.ref.multiply` (which never imports gfapy),
plus the C02 closure invariant and a re-parse of the written form.

Families (all enumerated completely within the stated bounds):
  F1  topology x factor x distribution policy (GFA1)
  F2  count tags: every subset of RC/FC/KC on the segment x on its edges
  F3  copy names: automatic / given / taken / repeated / own name, names that
      already end in *n, identifiers taken by other segments and by a path
  F4  GFA2 twins (E lines without and with edge identifiers)
  F5  parallel links with different overlaps, self-containment
"""
import itertools
import json
import os
import subprocess
import sys
import traceback

import gfapy
from .. import invariants
from ..ref import multiply as ref
from ..runner import guard, timed_out, h, new_result, mkviolation, \
    HarnessTimeout

PROPERTY = "C15"
T = "\t".join
FACTORS = (-1, 0, 1, 2, 3)
POLICIES = ("off", "auto", "equal", "L", "R")


# ---------------------------------------------------------------------------
# enumeration
# ---------------------------------------------------------------------------

def tagstr(names, extra=()):
  return ["{}:i:7".format(n) for n in names] + list(extra)


def link_line(p, q, ov="*"):
  """L line joining segment end p=(name, 'L'|'R') with end q."""
  (x, ex), (y, ey) = p, q
  return ["L", x, "+" if ex == "R" else "-", y, "+" if ey == "L" else "-", ov]


def end_pairs(names):
  ends = [(s, e) for s in names for e in "LR"]
  return list(itertools.combinations_with_replacement(ends, 2))


def containments(names, orients=(("+", "+"), ("+", "-"))):
  out = []
  for x, y in itertools.permutations(names, 2):
    for fo, to in orients:
      out.append(["C", x, fo, y, to, "0", "*"])
  return out


def g1_graph(names, links, cont, stags, etags, sextra=(), eextra=()):
  """Text lines of a GFA1 graph.  links: list of L field lists, cont: None
  or C field list."""
  ls = [T(["S", n, "*"] + tagstr(stags, sextra)) for n in names]
  ls += [T(l + tagstr(etags, eextra)) for l in links]
  if cont is not None:
    ls.append(T(cont + tagstr(etags, eextra)))
  return ls


def calls(factors=FACTORS, policies=POLICIES):
  """(factor, policy) pairs: every policy for k >= 2; for the factors that do
  not reach the distribution code the default and one policy."""
  out = []
  for k in factors:
    if k >= 2:
      out += [(k, p) for p in policies]
    elif k == 1:
      out += [(k, "off"), (k, "auto")]
    else:
      out += [(k, "off")]
  return out


def mk(fam, v, lines, m, k, dist, nm="auto", names=None, arg="name"):
  return {"fam": fam, "v": v, "lines": lines, "m": m, "k": k, "dist": dist,
          "nm": nm, "names": names, "arg": arg}


def unit(fam, v, lines, cs):
  """One graph and the calls to try on it (a work unit for a worker)."""
  return (fam, v, lines, cs)


def expand(u):
  fam, v, lines, cs = u
  return [mk(fam, v, lines, *c) for c in cs]


def family_F1(quick):
  """Every GFA1 graph on n <= 3 segments, <= 3 links over all unordered end
  pairs (self-links, hairpins, two links between the same two segments on
  different ends), <= 1 containment (ordered pair, contained segment in both
  orientations; forward only when n = 3 in the quick tier and in the slice
  n = 3 & 3 links), RC:i:7 on every record.  The quick tier leaves out the
  slice n = 3 & 3 links & 1 containment and tries only the factors 2 and 3 on
  n = 3; the thorough tier multiplies every segment, except in that slice,
  where it multiplies A (the family is closed under renaming)."""
  for n in (1, 2, 3):
    names = ["A", "B", "C"][:n]
    pairs = end_pairs(names)
    for nl in range(0, 4):
      full = (n == 3 and nl == 3)
      conts = [None] + containments(
          names, (("+", "+"),) if ((quick and n == 3) or full) else
          (("+", "+"), ("+", "-")))
      for combo in itertools.combinations(pairs, nl):
        links = [link_line(p, q) for p, q in combo]
        for cont in conts:
          if quick and full and cont is not None:
            continue
          lines = g1_graph(names, links, cont, ["RC"], ["RC"])
          segs = names if not (quick or (full and cont is not None)) \
              else ["A"]
          fs = (2, 3) if (quick and n == 3) else FACTORS
          yield unit("F1", "gfa1", lines,
                     [(m, k, p) for m in segs for k, p in calls(fs)])


def subsets(xs):
  for r in range(len(xs) + 1):
    for c in itertools.combinations(xs, r):
      yield list(c)


def family_F2(quick):
  """Count tags: every subset of {RC, FC, KC} on the segments x every subset
  on the edges, plus a B array and a Z tag (must be copied unchanged and must
  not be shared between the copies); n <= 2 segments, <= 1 link over all end
  pairs, <= 1 containment in all four orientation pairs (quick tier: exactly
  one edge, policy off; thorough: policies off, L, R)."""
  names = ["A", "B"]
  pairs = end_pairs(names)
  conts = [None] + containments(
      names, (("+", "+"), ("+", "-"), ("-", "+"), ("-", "-")))
  extra = ("ab:B:C,1,2", "xx:Z:t")
  for nl in (0, 1):
    for combo in itertools.combinations(pairs, nl):
      links = [link_line(p, q) for p, q in combo]
      for cont in conts:
        if not links and cont is None:
          continue
        if quick and links and cont is not None:
          continue
        for st in subsets(["RC", "FC", "KC"]):
          for et in subsets(["RC", "FC", "KC"]):
            lines = g1_graph(names, links, cont, st, et, extra, extra)
            yield unit("F2", "gfa1", lines,
                       [("A", k, p) for k in (2, 3)
                        for p in (("off",) if quick else ("off", "R", "L"))])


def family_F3(quick):
  """Copy names.  Multiplied segment m in {A, A*2, A*3, x*2*2}; up to two
  other segments drawn from names the automatic scheme would like to use; an
  optional path whose NAME is such an identifier; factor 2, 3; name modes
  automatic / given (fresh) / taken (an existing segment) / repeated / own
  name; segment passed by name or as a line object."""
  for m in ("A", "A*2", "A*3", "x*2*2"):
    if m.startswith("A"):
      pool = [x for x in ("B", "A", "A*2", "A*3", "A*4") if x != m]
    else:
      pool = ["B", "x*2", "x*2*3", "x*3"]
    for r in (0, 1, 2):
      for others in itertools.combinations(pool, r):
        pnames = [None]
        if others:
          pnames += [x for x in pool if x not in others and x != "B"][:3]
        for pn in pnames:
          lines = [T(["S", m, "*", "RC:i:7"])]
          lines += [T(["S", o, "*"]) for o in others]
          if others:
            lines.append(T(["L", m, "+", others[0], "+", "*", "RC:i:7"]))
          if pn is not None:
            lines.append(T(["P", pn, m + "+," + others[0] + "+", "*"]))
          cs = []
          for k in (2, 3):
            modes = [("auto", None), ("given", ["X", "Y"][:k - 1]),
                     ("own", ["X", m][-(k - 1):])]
            if others:
              modes.append(("taken", ["X", others[0]][-(k - 1):]))
            if pn is not None:
              modes.append(("taken-path", ["X", pn][-(k - 1):]))
            if k == 3:
              modes.append(("dup", ["X", "X"]))
            for nm, names in modes:
              for dist, arg in ((None, "name"), ("auto", "line")) if quick \
                  else ((None, "name"), (None, "line"), ("auto", "name"),
                        ("auto", "line")):
                cs.append((m, k, dist, nm, names, arg))
          yield unit("F3", "gfa1", lines, cs)
  # a dangling reference (placeholder segment) whose name is the name the
  # automatic scheme would choose, or a requested copy name
  for m, dang in (("A", "A*2"), ("A", "A*3"), ("A*2", "A*3"), ("A", "X")):
    lines = [T(["S", m, "*", "RC:i:7"]), T(["S", "B", "*"]),
             T(["L", m, "+", "B", "+", "*", "RC:i:7"]),
             T(["L", "B", "-", dang, "+", "*"])]
    cs = []
    for k in (2, 3):
      for nm, names in (("auto", None), ("taken-placeholder", ["Y", dang][-(k - 1):])):
        for dist, arg in ((None, "name"), ("auto", "line")):
          cs.append((m, k, dist, nm, names, arg))
    yield unit("F3", "gfa1", lines, cs)


G2LEN = {"A": 6, "B": 8, "C": 4}


def e_line(p, q, eid="*"):
  """GFA2 dovetail (2 bases) joining end p with end q; both '+' when the ends
  differ in type (R with L), second segment reversed when they are equal."""
  (x, ex), (y, ey) = p, q
  def iv(s, e):
    n = G2LEN[s]
    return ["0", "2"] if e == "L" else [str(n - 2), "{}$".format(n)]
  oy = "+" if ex != ey else "-"
  return ["E", eid, x + "+", y + oy] + iv(x, ex) + iv(y, ey) + ["*"]


def g2_containments(names):
  out = []
  # (container, contained): the contained segment is the shorter one
  for x, y in (("A", "C"), ("B", "A"), ("B", "C")):
    if x in names and y in names:
      for o in "+-":
        out.append(["E", "*", x + "+", y + o, "1", str(1 + G2LEN[y]), "0",
                    "{}$".format(G2LEN[y]), "*"])
  return out


def family_F4(quick):
  """GFA2 twins: segments A(6) B(8) C(4), dovetails of 2 bases over all end
  pairs (self-links and hairpins included), <= 2 edges (<= 1 when n = 3 in
  the quick tier), <= 1 containment; edges unnamed; plus the same family on
  n <= 2 with named edges (e1, e2, ...)."""
  for named in (False, True):
    for n in (1, 2, 3):
      if named and n == 3:
        continue
      names = ["A", "B", "C"][:n]
      pairs = end_pairs(names)
      conts = [None] + g2_containments(names)
      maxl = 1 if (quick and n == 3) else 2
      for nl in range(0, maxl + 1):
        for combo in itertools.combinations(pairs, nl):
          for cont in conts:
            es = [e_line(p, q, "e{}".format(i + 1) if named else "*")
                  for i, (p, q) in enumerate(combo)]
            if cont is not None:
              c = list(cont)
              if named:
                c[1] = "c1"
              es.append(c)
            if named and not es:
              continue
            lines = [T(["S", s, str(G2LEN[s]), "*", "RC:i:7"]) for s in names]
            lines += [T(e + ["RC:i:7"]) for e in es]
            segs = ["A"] if (quick or named or n == 3) else names
            yield unit("F4n" if named else "F4", "gfa2", lines,
                       [(m, k, p) for m in segs for k, p in calls()
                        if not (named and k < 2)])


def family_F5(quick):
  """Outside the `*`-overlap alphabet: two links on the SAME end pair with
  different overlaps (1M, 2M) -- gfapy refuses two links on one end pair when
  one overlap is `*` -- and a containment of a segment in itself."""
  names = ["A", "B"]
  for p, q in end_pairs(names):
    par = [link_line(p, q, "1M"), link_line(p, q, "2M")]
    for extra in [None] + [x for x in end_pairs(names) if x != (p, q)]:
      links = par + ([link_line(*extra)] if extra else [])
      lines = g1_graph(names, links, None, ["RC"], ["RC"])
      yield unit("F5", "gfa1", lines,
                 [("A", k, pol) for k, pol in calls((0, 2, 3))])
  # GFA2: unnamed E lines that are identical in every field are still
  # distinct edges (parallel edges); each must be divided and copied
  for p, q in end_pairs(names):
    for ncopies in (2, 3):
      for tags in ([], ["RC:i:12"]):
        es = [e_line(p, q, "*") + tags for _ in range(ncopies)]
        lines = [T(["S", x, str(G2LEN[x]), "*", "RC:i:7"]) for x in names]
        lines += [T(e) for e in es]
        yield unit("F5", "gfa2", lines,
                   [("A", k, pol) for k, pol in calls((0, 2, 3), ("off", "R"))])
  # parallel links written in OPPOSITE directions, overlaps with I / D (the
  # duplicate search complements the overlap of every copy it connects)
  flip = {"+": "-", "-": "+"}
  for p, q in end_pairs(names):
    a = link_line(p, q, "3M")
    b0 = link_line(p, q, "2M1D1M2I")
    b = ["L", b0[3], flip[b0[4]], b0[1], flip[b0[2]],
         ref.cigar_complement("2M1D1M2I")]
    for links in ([a, b], [b, a], [b]):
      lines = g1_graph(names, links, None, ["RC"], ["RC"])
      yield unit("F5c", "gfa1", lines,
                 [("A", k, pol) for k, pol in calls((0, 2, 3), ("off", "R"))])
  # GFA1 links / containments that carry an identifier (ID tag): the copies
  # cannot keep it
  for p, q in end_pairs(names):
    for cont in (None, ["C", "A", "+", "B", "+", "0", "*", "ID:Z:c1"],
                 ["C", "B", "-", "A", "+", "0", "*", "ID:Z:c1"]):
      lk = link_line(p, q) + ["RC:i:7", "ID:Z:l1"]
      lines = [T(["S", x, "*", "RC:i:7"]) for x in names] + [T(lk)]
      if cont is not None:
        lines.append(T(cont))
      yield unit("F5id", "gfa1", lines,
                 [("A", k, pol) for k, pol in calls((0, 2, 3), ("off", "R"))])
  selfc = ["C", "A", "+", "A", "+", "0", "*"]
  for nl in (0, 1):
    for combo in itertools.combinations(end_pairs(names), nl):
      links = [link_line(a, b) for a, b in combo]
      lines = g1_graph(names, links, selfc, ["RC"], ["RC"])
      yield unit("F5", "gfa1", lines,
                 [("A", k, pol) for k, pol in calls((0, 2, 3), ("off", "R"))])


FAMILIES = (family_F1, family_F2, family_F3, family_F4, family_F5)


def all_units(quick):
  for f in FAMILIES:
    for u in f(quick):
      yield u


def all_cases(quick):
  for u in all_units(quick):
    for c in expand(u):
      yield c


# ---------------------------------------------------------------------------
# execution and judgement of one case
# ---------------------------------------------------------------------------

def call_str(c):
  return "multiply({},{},distribute={},names={},arg={})".format(
      c["m"], c["k"], c["dist"], c["nm"] if c["names"] is None
      else "{}:{}".format(c["nm"], ",".join(c["names"])), c["arg"])


def input_str(c):
  return c["v"] + "|" + "|".join(l.replace("\t", " ") for l in c["lines"]) \
      + "||" + call_str(c)


def standalone(c):
  kw = []
  if c["names"] is not None:
    kw.append("copy_names={!r}".format(c["names"]))
  if c["dist"] is not None:
    kw.append("distribute={!r}".format(c["dist"]))
  seg = repr(c["m"]) if c["arg"] == "name" else "g.segment({!r})".format(c["m"])
  return ("import gfapy\n"
          "g = gfapy.Gfa({!r}, version={!r})\n"
          "print(str(g)); print('--')\n"
          "try:\n"
          "  g.multiply({}, {}{})\n"
          "except Exception as e:\n"
          "  print('raised', type(e).__name__, str(e).split('\\n')[0])\n"
          "print(str(g))\n").format(c["lines"], c["v"], seg, c["k"],
                                    "".join(", " + x for x in kw))


def callsite(e):
  """innermost gfapy frame 'file:function' of an exception."""
  tb = traceback.extract_tb(e.__traceback__)
  site = "?"
  for fr in tb:
    if "/gfapy/" in fr.filename:
      site = "{}:{}".format(fr.filename.split("/gfapy/")[-1], fr.name)
  return site


def text_of(g):
  s = str(g)
  return s.split("\n") if s else []


_BEFORE = {}


def run_case(c):
  """Returns (problems [(clause, kind, detail)], info dict)."""
  info = {"exc": None, "end": None, "after": None, "skip": None}
  v = c["v"]
  try:
    with guard():
      try:
        g = gfapy.Gfa(c["lines"], version=v)
      except gfapy.NotFoundError:
        # graph with a dangling reference: built line by line (no final
        # validation); the placeholder is part of the written form
        g = gfapy.Gfa(version=v)
        for l_ in c["lines"]:
          g.add_line(l_)
      ck = (v, tuple(c["lines"]))
      before = _BEFORE.get(ck)
      if before is None:
        # written form of the graph before the call: computed once per graph
        # (every case builds its own fresh Gfa from the same text)
        before = text_of(g)
        if len(_BEFORE) > 64:
          _BEFORE.clear()
        _BEFORE[ck] = before
  except HarnessTimeout:
    info["skip"] = "timeout-build"
    return [("timeout", "build", "building the graph exceeded the budget")], \
        info
  except Exception as e:
    info["skip"] = "build-refused:" + type(e).__name__
    return [], info
  if sorted(l_ for l_ in before if "GFAPY_virtual_line" not in l_) != \
      sorted(c["lines"]):
    # the Gfa does not write back the text it was built from (C01's
    # business): multiplication is judged against the graph as it stands
    info["built"] = "altered"
  m, k = c["m"], c["k"]
  kw = {}
  if c["names"] is not None:
    kw["copy_names"] = list(c["names"])
  if c["dist"] is not None:
    kw["distribute"] = c["dist"]
  seg = m if c["arg"] == "name" else g.segment(m)
  err = None
  try:
    with guard():
      ret = g.multiply(seg, k, **kw)
  except HarnessTimeout:
    return [("timeout", "multiply", "multiply exceeded the time budget")], info
  except BaseException as e:      # noqa
    err = e
  if timed_out():
    return [("timeout", "multiply", "multiply exceeded the time budget")], info
  try:
    after = text_of(g)
  except BaseException as e:
    return [("unwritable", type(e).__name__, "str(gfa) raised {}".format(
        type(e).__name__))], info
  info["after"] = after
  probs = []
  refusal_expected = (k < 0) or c["nm"] in ("taken", "taken-path", "taken-placeholder", "dup", "own")
  if err is not None:
    info["exc"] = type(err).__name__
    site = callsite(err)
    msg = str(err).split("\n")[0][:100]
    if not isinstance(err, gfapy.Error):
      probs.append(("foreign-exception", "{}@{}".format(
          type(err).__name__, site), "{}: {}".format(type(err).__name__, msg)))
    elif not refusal_expected:
      probs.append(("raises", "{}@{}".format(type(err).__name__, site),
                    "legal multiplication refused: {}: {}".format(
                        type(err).__name__, msg)))
    if k < 0:
      probs += ref.judge_unchanged(before, after, "refused-but-changed")
    elif refusal_expected:
      existing = set(x.split("\t")[1] for x in before)
      probs += ref.judge_rest_untouched(
          before, after, v, {m}, {m} | (set(c["names"] or ()) - existing))
      if not probs:
        p = ref.judge_unchanged(before, after, "refused-not-atomic")
        probs += p
    if probs and after != before:
      # tell the reader in which state the exception left the graph
      cl, kd, dt = probs[0]
      probs[0] = (cl, kd, dt + " [the graph is left half multiplied]")
  else:
    if ret is not g:
      probs.append(("return-value", "ret", "multiply did not return the Gfa"))
    if refusal_expected:
      probs.append(("not-refused", "neg" if k < 0 else c["nm"],
                    "no exception for {}".format(
                        "a negative factor" if k < 0 else
                        "copy names {} ({})".format(c["names"], c["nm"]))))
    elif k == 1:
      probs += ref.judge_unchanged(before, after, "factor1-changed")
    elif k == 0:
      probs += ref.judge_rm(before, after, v, m)
    else:
      p, end, fam = ref.judge_multiply(before, after, v, m, k, c["names"],
                                       c["dist"])
      info["end"] = end
      probs += p
  # invariant + re-parse in every state the call left behind, except after an
  # unexpected exception (already reported)
  if err is None or refusal_expected:
    try:
      with guard():
        inv = invariants.check_closed_symmetric(g)
    except BaseException as e:
      inv = [("invariant-error", type(e).__name__)]
    for cl, d in inv:
      probs.append(("c02-" + cl, "invariant", d))
    try:
      with guard():
        # (an unchanged text is the input, which has just been parsed)
        again = after if after == before else \
            text_of(gfapy.Gfa(after, version=v, vlevel=1))
      if sorted(again) != sorted(after):
        probs.append(("reparse", "differs", "re-parsed text differs"))
    except BaseException as e:
      probs.append(("reparse", type(e).__name__, "written form does not "
                    "parse: {}: {}".format(type(e).__name__,
                                           str(e).split("\n")[0][:80])))
    if err is None and k >= 2 and not probs and c["fam"] == "F2":
      probs += aliasing(g, after)
    if err is None and k >= 2 and not probs and c["fam"] in ("F1", "F2", "F4"):
      probs += tag_tables(g, m)
  return probs, info


def tag_tables(g, m):
  """The copies are lines of their own: a new tag on a copy says nothing
  about a tag of that name on the original (nor on another copy)."""
  probs = []
  try:
    o = g.segment(m)
    copies = [s for s in g.segments if s is not o and
              str(s.name).startswith(str(m) + "*")]
    if not copies:
      return probs
    c = copies[0]
    c.set("zq", 12)
    o.set("zq", "s")
    wo, wc = o.field_to_s("zq", tag=True), c.field_to_s("zq", tag=True)
    c.delete("zq")
    o.delete("zq")
    if (wo, wc) != ("zq:Z:s", "zq:i:12"):
      probs.append(("copy-shares-tag-table", "S", "zq = 12 on the copy and "
                    "zq = 's' on the original are written {} / {}".format(
                        wc, wo)))
  except gfapy.Error as e:
    probs.append(("copy-shares-tag-table", "S", "zq = 12 on a copy, then "
                  "zq = 's' on the original: {}".format(type(e).__name__)))
  return probs


def aliasing(g, after):
  """A copy must not share the (mutable) value of a tag with another line:
  editing the array of one line in place changes exactly that line."""
  probs = []
  for l in list(g.lines):
    try:
      val = l.get("ab")
    except BaseException:
      val = None
    if not isinstance(val, list):
      continue
    val.append(99)
    now = text_of(g)
    changed = sum(1 for a, b in zip(after, now) if a != b)
    val.pop()
    if changed != 1 or len(now) != len(after):
      probs.append(("copy-shares-tag-value", l.record_type, "appending to the "
                    "ab:B array of one {} line changed {} lines".format(
                        l.record_type, changed)))
      break
  return probs


# ---------------------------------------------------------------------------
# descriptors, dominance (keeps only minimal witnesses per clause/kind)
# ---------------------------------------------------------------------------

def descriptor(c):
  """Shape of a case for the dominance order.  Segment names are abstracted
  (multiplied segment M, the others N1, N2.. in order of appearance; path and
  edge identifiers P1.., E1..) so that the same failure on differently named
  graphs is one witness."""
  stripped = set()
  stags, etags = set(), set()
  ren = {c["m"]: "M"}
  gfa1 = c["v"] == "gfa1"
  for l in c["lines"]:
    f = l.split("\t")
    if f[0] == "S":
      ren.setdefault(f[1], "N{}".format(len(ren)))
  def rn(x):
    if x and x[-1] in "+-" and x[:-1] in ren:
      return ren[x[:-1]] + x[-1]
    return ren.get(x, x)
  for l in c["lines"]:
    f = l.split("\t")
    npos = {"S": 2 if gfa1 else 3, "L": 5, "C": 6, "E": 8, "P": 3}[f[0]]
    q = f[:1 + npos]
    if f[0] == "P":
      q[1] = "P"
      q[2] = ",".join(rn(x) for x in q[2].split(","))
    elif f[0] == "E":
      q[1] = "*" if q[1] == "*" else "E"
      q[2], q[3] = rn(q[2]), rn(q[3])
    else:
      q = [rn(x) for x in q]
      if f[0] == "L":
        q[5] = "*"          # overlaps abstracted (F5 uses 1M / 2M)
    stripped.add(" ".join(q))
    (stags if f[0] == "S" else etags).update(f[1 + npos:])
  return (c["v"], "M", frozenset(stripped), frozenset(stags),
          frozenset(etags), c["k"], c["dist"], c["nm"], c["arg"])


def dominates(a, b):
  """a is at most as complex as b (and could stand in for it as witness)."""
  return (a[0] == b[0] and a[1] == b[1] and a[2] <= b[2] and a[3] <= b[3]
          and a[4] <= b[4] and (a[5] == b[5] or (a[5] == 2 and b[5] == 3))
          and (a[6] == b[6] or a[6] in (None, "off")
               or (a[6] in ("L", "R") and b[6] in ("auto", "equal")))
          and (a[7] == b[7] or a[7] == "auto")
          and (a[8] == b[8] or a[8] == "name"))


def size(d):
  return (len(d[2]), len(d[3]) + len(d[4]), d[5], d[6] not in (None, "off"),
          d[7] != "auto", d[8] != "name")


def minimal(items):
  """items: list of (group, descriptor, payload); keeps per group the
  non-dominated descriptors (deterministic)."""
  out = {}
  for grp, d, payload in sorted(items, key=lambda x: (x[0], size(x[1]),
                                                      repr(x[2]["input"]))):
    keep = out.setdefault(grp, [])
    if not any(dominates(kd, d) for kd, _ in keep):
      keep.append((d, payload))
  return [(grp, d, p) for grp, lst in sorted(out.items()) for d, p in lst]


def run_chunk(units):
  cases = [c for u in units for c in expand(u)]
  r = new_result()
  r["viol_items"] = []
  r["cand_samples"] = []
  r["counts"] = {}
  r["skips"] = {}
  for c in cases:
    probs, info = run_case(c)
    if info["skip"]:
      r["skips"][info["skip"]] = r["skips"].get(info["skip"], 0) + 1
      if not probs:
        continue
    r["evaluations"] += 1
    r["transitions"] += 1
    if info["exc"] is None or c["k"] < 0 or \
        c["nm"] in ("taken", "taken-path", "taken-placeholder", "dup", "own"):
      # the outcome was compared with the reference model's prediction
      # (not the case after an exception on a legal call, which is reported
      # as such)
      r["traces"] += 1
    after = info["after"] or []
    r["states"].add(h([sorted(after), info["exc"]]))
    nedges = sum(1 for l in c["lines"]
                 if l[0] in "LCE" and c["m"] in _sides(l, c["v"]))
    if c["k"] >= 2 and nedges:
      r["nontrivial"].add(h(input_str(c)))
    oc = "{}|k={}|{}|{}|exc={}|end={}|dl={}".format(
        c["fam"], c["k"], c["dist"], c["nm"], info["exc"], info["end"],
        len(after) - len(c["lines"]))
    r["outcomes"].add(oc)
    fk = c["fam"]
    r["counts"][fk] = r["counts"].get(fk, 0) + 1
    if not probs and c["k"] >= 2 and nedges >= 2 and \
        int(h(input_str(c)), 16) % 1009 == 0:
      r["cand_samples"].append({"input": input_str(c), "after": after,
                                "distribution_end": info["end"]})
    seen = set()
    for cl, kind, detail in probs:
      if (cl, kind) in seen:
        continue
      seen.add((cl, kind))
      r["viol_items"].append(((cl, kind), descriptor(c), {
          "input": input_str(c), "case": c, "detail": detail,
          "after": after}))
  total = len(r["viol_items"])
  r["n_viol_cases"] = total
  per = {}
  for grp, _d, _p in r["viol_items"]:
    per["/".join(grp)] = per.get("/".join(grp), 0) + 1
  r["viol_per_group"] = per
  r["viol_items"] = minimal(r["viol_items"])
  return r


def _sides(line, v):
  f = line.split("\t")
  if v == "gfa1":
    return (f[1], f[3])
  return (f[2][:-1], f[3][:-1])


def to_violation(grp, payload):
  c = payload["case"]
  cl, kind = grp
  return mkviolation(
      cl, {"kind": kind, "input": payload["input"]}, c,
      "outcome allowed by the reference model (gfamc/ref/multiply.py) for "
      + call_str(c),
      {"detail": payload["detail"], "after": payload["after"]},
      standalone(c))


# ---------------------------------------------------------------------------

def chunks(it, n):
  buf = []
  for x in it:
    buf.append(x)
    if len(buf) == n:
      yield buf
      buf = []
  if buf:
    yield buf


def run(ctx):
  ctx.rule = ("one case = one fresh Gfa + one multiply call; non-trivial = "
              "factor >= 2 and the multiplied segment has at least one "
              "dovetail or containment; states = distinct (written form after "
              "the call, exception class)")
  ctx.alphabet = {
      "F1": family_F1.__doc__, "F2": family_F2.__doc__,
      "F3": family_F3.__doc__, "F4": family_F4.__doc__,
      "F5": family_F5.__doc__,
      "factors": list(FACTORS), "distribute": list(POLICIES) + [None],
      "calls_per_graph": "all 5 policies for factor 2 and 3; off+auto for "
                         "factor 1; off for factor 0 and -1",
      "segment": "quick: A (the families are closed under renaming of the "
                 "segments); thorough: every segment except in the F1 slice "
                 "n=3 & 3 links & 1 containment"}
  ctx.assumptions = [
      "copy_names, when given, has factor-1 entries (documented precondition)",
      "count tags hold 7; quotient floor(7/k), ceil(7/k) also accepted "
      "(documentation: 'divided')",
      "self-edge of the multiplied segment: any set of images under renaming "
      "to members of the copy family in which every member takes part at "
      "every end at which the original did is accepted",
      "policy auto: any end or none accepted (documentation leaves the choice "
      "open); policy equal: the documented end",
      "copy names that are taken / repeated / the segment's own name: a "
      "gfapy.Error is demanded and (clause refused-not-atomic) an unchanged "
      "graph",
      "paths through the multiplied segment (F3 only): nothing demanded of the "
      "P line",
      "vlevel 1 (default)"]
  from .. import runner
  n, fails = ref.selftest(os.path.join(runner.REPO, "tests", "testdata"))
  if fails or n == 0:
    raise RuntimeError("reference model self-test failed: {} {}".format(
        n, fails[:3]))
  ctx.extra["reference_selftest"] = (
      "{} stored results of tests/testdata/links_distri.* accepted by the "
      "reference model, 2 corruptions of each rejected".format(n))
  cross = hashseed_start()
  items = []
  cand = []
  counts, skips, per = {}, {}, {}
  ncases = 0
  for r in ctx.pimap(run_chunk, chunks(all_units(ctx.quick), 8),
                     chunksize=1):
    items += r.pop("viol_items")
    cand += r.pop("cand_samples")
    ncases += r.pop("n_viol_cases")
    for k, v in r.pop("counts").items():
      counts[k] = counts.get(k, 0) + v
    for k, v in r.pop("skips").items():
      skips[k] = skips.get(k, 0) + v
    for k, v in r.pop("viol_per_group").items():
      per[k] = per.get(k, 0) + v
    ctx.merge(r)
  # which explored cases are printed depends on the seed only
  cand.sort(key=lambda s: h(s["input"] + str(ctx.seed)))
  ctx.samples = cand[:8]
  for grp, d, payload in minimal(items):
    ctx.violation(to_violation(grp, payload))
  ctx.extra["cases_per_family"] = dict(sorted(counts.items()))
  ctx.extra["skipped_cases"] = dict(sorted(skips.items()))
  ctx.extra["violating_case_clause_pairs"] = ncases
  ctx.extra["violating_cases_per_clause_kind"] = dict(sorted(per.items()))
  ctx.extra["minimal_witnesses"] = ctx.n_violations
  if skips:
    ctx.cap("cases skipped because the input graph was refused or altered "
            "on construction: {}".format(skips))
  ctx.extra["hashseed_crosschecks"] = hashseed_finish(ctx, cross)
  ctx.bound_completed = {"segments": 3, "links": 3, "containments": 1,
                         "factors": [-1, 3], "tier": ctx.tier}


# ---------------------------------------------------------------------------
# hash-seed cross-check: a fixed slice re-executed under PYTHONHASHSEED 1, 2
# ---------------------------------------------------------------------------

def slice_cases():
  out = []
  cases = lambda f: [c for u in f(True) for c in expand(u)]
  out += cases(family_F1)[::211]
  out += cases(family_F3)[::23]
  out += cases(family_F4)[::29]
  out += cases(family_F5)[::13]
  return out


def slice_digest():
  acc = []
  for c in slice_cases():
    probs, info = run_case(c)
    acc.append([info["after"], info["exc"], sorted((a, b) for a, b, _ in probs)])
  return h(acc), len(acc)


def hashseed_start():
  from .. import runner
  procs = {}
  for seed in ("0", "1", "2"):
    env = dict(os.environ, PYTHONHASHSEED=seed, PYTHONDONTWRITEBYTECODE="1",
               GFAMC_REPO=runner.REPO, PYTHONPATH=runner.REPO)
    procs[seed] = subprocess.Popen(
        [sys.executable, "-m", "gfamc.checks.c15"], cwd=runner.VERIF, env=env,
        stdout=subprocess.PIPE, stderr=subprocess.PIPE, text=True)
  return procs


def hashseed_finish(ctx, procs):
  res = {}
  for seed, p in sorted(procs.items()):
    try:
      out, err = p.communicate(timeout=900)
    except subprocess.TimeoutExpired:
      p.kill()
      out, err = "", "timeout"
    res[seed] = out.strip() or ("error: " + err[-300:])
  if len(set(res.values())) != 1:
    ctx.violation(mkviolation(
        "hashseed-dependent", {"kind": "slice", "input": "slice"},
        {"slice": True}, "same outcomes under PYTHONHASHSEED 0/1/2", res,
        "PYTHONHASHSEED=0|1|2 python -m gfamc.checks.c15"))
  return {"cases": res["0"].split(" ")[-1], "digests": res}


def replay(w, ctx):
  if w.get("slice"):
    return []
  probs, info = run_case(w)
  out = []
  seen = set()
  for cl, kind, detail in probs:
    if (cl, kind) in seen:
      continue
    seen.add((cl, kind))
    out.append(to_violation((cl, kind), {
        "input": input_str(w), "case": w, "detail": detail,
        "after": info["after"]}))
  return out


if __name__ == "__main__":
  from .. import runner
  if runner.REPO not in sys.path:
    sys.path.insert(0, runner.REPO)
  d, n = slice_digest()
  print(d, n)
