"""Engine S: all arrival orders of a document, through every entry point.

For a document of n lines all n! orders are executed (no partial-order
reduction, no sampling).  An order is built through one of the entry points

  list : gfapy.Gfa(list_of_strings, ...)
  inc  : g = gfapy.Gfa(...); g.add_line(s) for every s; g.process_line_queue();
         g.validate() (vlevel >= 1)      -- the Gfa is returned even on failure
  file : gfapy.Gfa.from_file(path, ...) on a file in a private scratch
         directory (created and removed by the check)
  objs : like list, but every line is first turned into a gfapy.Line instance
         (this is the only way the GFA1Specific / GFA2Specific admission tables
         are reached)

Work is split into chunks = (document, configuration, first line of the
order); every chunk recomputes the baseline (the identity order) itself, so
chunks are independent and the result does not depend on the pool size.
"""
import os, sys, json, shutil, tempfile, itertools, math, subprocess
import gfapy
from .runner import guard, timed_out, HarnessTimeout, REPO, VERIF

ENTRIES = ("list", "inc", "file", "objs")
BUILD_BUDGET_S = 10.0


class Scratch:
  """Private scratch directory under /tmp, removed on exit."""

  def __init__(self, prefix):
    self.prefix = prefix
    self.path = None

  def __enter__(self):
    self.path = tempfile.mkdtemp(prefix=self.prefix, dir="/tmp")
    return self.path

  def __exit__(self, *a):
    if self.path:
      shutil.rmtree(self.path, ignore_errors=True)
    return False


def n_orders(n):
  return math.factorial(n)


def chunks_of(n, split_from=6):
  """Chunk descriptors for a document of n lines: [None] (all orders in one
  chunk) for short documents, else one chunk per first line."""
  if n < split_from:
    return [None]
  return list(range(n))


def orders(n, first=None):
  """All permutations of range(n) (lexicographic), or those starting with
  `first`."""
  if first is None:
    return itertools.permutations(range(n))
  rest = [i for i in range(n) if i != first]
  return ((first,) + p for p in itertools.permutations(rest))


class Built:
  """Result of one build: the Gfa (or None), the exception (or None), the
  stage at which it was raised, and for `inc` the version after every
  add_line."""
  __slots__ = ("g", "err", "stage", "versions", "refused")

  def __init__(self):
    self.g = None
    self.err = None
    self.stage = None
    self.versions = None
    self.refused = None

  @property
  def outcome(self):
    if self.err is None:
      return "ok:{}".format(self.g.version)
    return err_class(self.err)


def err_class(e):
  if isinstance(e, HarnessTimeout):
    return "timeout"
  if isinstance(e, gfapy.Error):
    return "err:" + type(e).__name__
  return "foreign:" + type(e).__name__


_file_counter = [0]


def build(entry, lines, version=None, vlevel=1, dialect="standard",
          scratch=None, track_versions=False):
  """Execute one arrival order through one entry point."""
  b = Built()
  kw = dict(version=version, vlevel=vlevel, dialect=dialect)
  path = None
  try:
    with guard(BUILD_BUDGET_S):
      if entry == "list":
        b.stage = "Gfa(list)"
        b.g = gfapy.Gfa(list(lines), **kw)
      elif entry == "objs":
        b.stage = "Line()"
        objs = [gfapy.Line(l, vlevel=vlevel, dialect=dialect) for l in lines]
        b.stage = "Gfa(list)"
        b.g = gfapy.Gfa(objs, **kw)
      elif entry == "clones":
        # Line instances which are clones of parsed lines
        b.stage = "Line().clone()"
        objs = [gfapy.Line(l, vlevel=vlevel, dialect=dialect).clone()
                for l in lines]
        b.stage = "Gfa(list)"
        b.g = gfapy.Gfa(objs, **kw)
      elif entry == "carry":
        # line by line; a refused line (gfapy.Error) is dropped by the caller,
        # who carries on with the next one
        b.stage = "Gfa()"
        b.g = gfapy.Gfa(**kw)
        b.versions = []
        b.refused = []
        for i, l in enumerate(lines):
          b.stage = "add_line#{}".format(i)
          try:
            b.g.add_line(l)
          except gfapy.Error:
            b.refused.append(i)
          b.versions.append(b.g.version)
      elif entry == "inc":
        b.stage = "Gfa()"
        b.g = gfapy.Gfa(**kw)
        if track_versions:
          b.versions = []
        for i, l in enumerate(lines):
          b.stage = "add_line#{}".format(i)
          b.g.add_line(l)
          if track_versions:
            b.versions.append(b.g.version)
        b.stage = "process_line_queue"
        b.g.process_line_queue()
        if track_versions:
          b.versions.append(b.g.version)
        if vlevel >= 1:
          b.stage = "validate"
          b.g.validate()
      elif entry == "file":
        if scratch is None:
          raise RuntimeError("file entry point needs a scratch directory")
        _file_counter[0] += 1
        path = os.path.join(scratch, "{}_{}.gfa".format(os.getpid(),
                                                        _file_counter[0]))
        with open(path, "w") as f:
          for l in lines:
            f.write(l + "\n")
        b.stage = "from_file"
        b.g = gfapy.Gfa.from_file(path, **kw)
      else:
        raise ValueError("unknown entry point " + repr(entry))
  except HarnessTimeout as e:
    b.err = e
  except Exception as e:  # gfapy.Error or foreign; judged by the check
    b.err = e
  finally:
    if path is not None:
      try:
        os.unlink(path)
      except OSError:
        pass
  if b.err is None and timed_out():
    b.err = HarnessTimeout()
  if b.err is not None and entry != "inc":
    b.g = None
  return b


def standalone(entry, lines, version=None, vlevel=1, dialect="standard",
               tail="print(g.version); print(str(g))"):
  """Plain `import gfapy` script executing one arrival order."""
  kw = "version={!r}, vlevel={!r}, dialect={!r}".format(version, vlevel,
                                                        dialect)
  out = ["import gfapy", "lines = ["]
  out += ["  {!r},".format(l) for l in lines]
  out.append("]")
  if entry == "list":
    out.append("g = gfapy.Gfa(lines, {})".format(kw))
  elif entry == "objs":
    out.append("objs = [gfapy.Line(l, vlevel={!r}, dialect={!r}) for l in "
               "lines]".format(vlevel, dialect))
    out.append("g = gfapy.Gfa(objs, {})".format(kw))
  elif entry == "clones":
    out.append("objs = [gfapy.Line(l, vlevel={!r}, dialect={!r}).clone() for "
               "l in lines]".format(vlevel, dialect))
    out.append("g = gfapy.Gfa(objs, {})".format(kw))
  elif entry == "carry":
    out.append("g = gfapy.Gfa({})".format(kw))
    out.append("for l in lines:")
    out.append("  try: g.add_line(l)")
    out.append("  except gfapy.Error as e: print('refused', repr(l), "
               "type(e).__name__)")
  elif entry == "inc":
    out.append("g = gfapy.Gfa({})".format(kw))
    out.append("for l in lines: g.add_line(l)")
    out.append("g.process_line_queue()")
    if vlevel >= 1:
      out.append("g.validate()")
  elif entry == "file":
    out.append("import tempfile, os")
    out.append("fd, p = tempfile.mkstemp(suffix='.gfa'); os.close(fd)")
    out.append("open(p, 'w').write(''.join(l + '\\n' for l in lines))")
    out.append("try: g = gfapy.Gfa.from_file(p, {})".format(kw))
    out.append("finally: os.unlink(p)")
  if tail:
    out.append(tail)
  return "\n".join(out)


def fmt(lines):
  """One-line rendering of a document / order for keys and samples."""
  return " | ".join(l.replace("\t", " ") for l in lines)


# ---------------------------------------------------------------------------
# hash-seed cross-check (DESIGN 2.5): a fixed slice of the exploration is
# re-executed in fresh interpreters with other PYTHONHASHSEED values; the
# check module provides slice_cases() -> {case: digest}
# ---------------------------------------------------------------------------
def spawn_slices(modname, seeds=(1, 2)):
  code = ("import sys, json; sys.path.insert(0, {!r}); sys.path.insert(0, {!r});"
          " import gfapy; from gfamc.checks import {} as m;"
          " print(json.dumps(m.slice_cases(), sort_keys=True))").format(
              VERIF, REPO, modname)
  procs = []
  for sd in seeds:
    env = dict(os.environ, PYTHONHASHSEED=str(sd), PYTHONDONTWRITEBYTECODE="1")
    procs.append((sd, subprocess.Popen([sys.executable, "-c", code],
                                       stdout=subprocess.PIPE,
                                       stderr=subprocess.PIPE, text=True,
                                       env=env, cwd=VERIF)))
  return procs


def collect_slices(procs, own):
  """Returns (summary dict, list of (seed, case, own digest, other digest))."""
  diffs = []
  summary = {"seeds": [], "cases": len(own), "differences": 0}
  for sd, p in procs:
    out, err = p.communicate(timeout=900)
    if p.returncode != 0:
      raise RuntimeError("hash-seed slice (seed {}) failed: {}".format(
          sd, err[-500:]))
    other = json.loads(out.strip().split("\n")[-1])
    summary["seeds"].append(sd)
    for case in sorted(set(own) | set(other)):
      if own.get(case) != other.get(case):
        diffs.append((sd, case, own.get(case), other.get(case)))
  summary["differences"] = len(diffs)
  return summary, diffs
