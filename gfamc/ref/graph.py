"""Reference model of the graph-level semantics of a GFA document (C14, C16).

Text level only: a document is the list of its written lines.  Never imports
gfapy.  Written from the GFA1 / GFA2 specifications as profiled by gfapy's
documentation (doc/tutorial/graph_operations.rst, references.rst):

* a GFA1 ``L`` line is a dovetail between two segment ENDS:
  from ``X +`` -> (X, R);  from ``X -`` -> (X, L);
  to   ``Y +`` -> (Y, L);  to   ``Y -`` -> (Y, R);
  a ``C`` line is a containment; GFA1 has no internal alignments;
* a GFA2 ``E`` line is classified by the kind of its two intervals
  (whole / prefix / suffix / internal, ``$`` marks the last position):
  containment if one interval is the whole segment; dovetail if the
  intervals are prefix|suffix in the combination allowed by the two
  orientations (same orientation: pfx+sfx, opposite: pfx+pfx or sfx+sfx);
  the end of a segment taking part in a dovetail is L for a prefix, R for a
  suffix; everything else is an internal alignment;
* connected components: classes of "joined by a chain of dovetails";
* dead end: a segment end on which no dovetail is incident;
* linear chain: maximal sequence of >= 2 distinct segments joined end to end
  by dovetails that are the only dovetail on BOTH joined ends (paths or
  cycles of the graph of such edges);
* spelled sequence of a chain: first member oriented by the traversal, every
  successor oriented by the traversal and trimmed by the overlap length of
  the joining dovetail (`*` = 0, sum of the M/= operations otherwise).
"""
import re
import itertools
import collections

INV = {"L": "R", "R": "L", "+": "-", "-": "+"}

# IUPAC nucleotide codes and their complements (written from the IUPAC table:
# R=AG Y=CT, K=GT M=AC, S=CG and W=AT are their own complements, B=CGT V=ACG,
# D=AGT H=ACT, N any); case is preserved
_WCC = {}
for _a, _b in (("A", "T"), ("C", "G"), ("R", "Y"), ("K", "M"), ("S", "S"),
               ("W", "W"), ("B", "V"), ("D", "H"), ("N", "N")):
  for _x, _y in ((_a, _b), (_b, _a)):
    _WCC[_x] = _y
    _WCC[_x.lower()] = _y.lower()


def rc(seq):
  """Reverse complement (None = unknown sequence stays unknown)."""
  if seq is None:
    return None
  return "".join(_WCC[c] for c in reversed(seq))


def overlap_len(ovl):
  """Length by which a successor is trimmed.  `*` -> 0; CIGAR made only of
  M / = operations -> sum of the lengths; anything else -> None (outside the
  property's quantifier)."""
  if ovl == "*":
    return 0
  ops = re.findall(r"(\d+)([MIDNSHPX=])", ovl)
  if not ops or "".join(a + b for a, b in ops) != ovl:
    return None
  if any(c not in "M=" for _, c in ops):
    return None
  return sum(int(n) for n, _ in ops)


Seg = collections.namedtuple("Seg", "name seq length ln idx text")
# kind: 'D' dovetail, 'C' containment, 'I' internal.  a, b: segment ends
# (name, 'L'|'R') for dovetails, (name, None) otherwise.
Edge = collections.namedtuple("Edge", "kind a b ovl idx text bad")


class Doc:
  def __init__(self, version):
    self.version = version
    self.lines = []
    self.segs = collections.OrderedDict()
    self.edges = []
    self.mentions = {}       # line idx -> set of segment names mentioned
    self.problems = []       # text-level inconsistencies (bad `$`, ...)

  @property
  def dovetails(self):
    return [e for e in self.edges if e.kind == "D"]


def _tags(fields):
  out = {}
  for f in fields:
    m = re.fullmatch(r"([A-Za-z][A-Za-z0-9]):([AifZJHB]):(.*)", f, re.S)
    if m:
      out[m.group(1)] = (m.group(2), m.group(3))
  return out


def _split_oriented(x):
  return x[:-1], x[-1]


def _pos(p):
  """GFA2 position -> (value, has_dollar)."""
  if p.endswith("$"):
    return int(p[:-1]), True
  return int(p), False


def interval_kind(beg, end, slen=None):
  """(kind, problems).  kind in whole|pfx|sfx|internal.  The `$` sentinel
  decides 'last'; if slen is given its use is also checked."""
  (b, bd), (e, ed) = _pos(beg), _pos(end)
  probs = []
  if slen is not None:
    for v, d, w in ((b, bd, beg), (e, ed, end)):
      if d and v != slen:
        probs.append("$ after non-last position {}".format(w))
      if not d and v == slen:
        probs.append("last position {} without $".format(w))
      if v > slen:
        probs.append("position {} beyond segment length {}".format(w, slen))
  if b > e:
    probs.append("begin {} > end {}".format(beg, end))
  # (a zero-length segment, 0$..0$, cannot occur in the enumerated families)
  if b == 0 and not bd:
    if e == 0 and not ed:
      kind = "pfx"          # empty prefix
    elif ed:
      kind = "whole"
    else:
      kind = "pfx"
  elif bd:
    kind = "sfx"            # empty suffix
    if not ed:
      probs.append("begin {} is last but end {} is not".format(beg, end))
  elif ed:
    kind = "sfx"
  else:
    kind = "internal"
  return kind, probs


def classify_e(o1, k1, o2, k2):
  """-> ('C'|'D'|'I', end-of-sid1, end-of-sid2)."""
  if k1 == "whole" or k2 == "whole":
    return "C", None, None
  if k1 in ("pfx", "sfx") and k2 in ("pfx", "sfx"):
    if (o1 == o2) == (k1 != k2):
      return "D", "L" if k1 == "pfx" else "R", "L" if k2 == "pfx" else "R"
  return "I", None, None


def parse(text, version=None):
  """Parse written GFA text.  version: 'gfa1' | 'gfa2' | None (guess from
  the record types / the number of S fields)."""
  lines = [l for l in text.split("\n") if l != ""]
  if version is None:
    version = "gfa1"
    for l in lines:
      f = l.split("\t")
      if f[0] in "EGFOU" or (f[0] == "S" and len(f) > 3 and
                             re.fullmatch(r"\d+", f[2])):
        version = "gfa2"
        break
      if f[0] in "LCP":
        break
  d = Doc(version)
  d.lines = lines
  # segments first: E lines need the segment lengths
  for idx, l in enumerate(lines):
    f = l.split("\t")
    if f[0] != "S":
      continue
    if version == "gfa1":
      name, seq = f[1], f[2]
      tg = _tags(f[3:])
      ln = int(tg["LN"][1]) if "LN" in tg else None
      seq = None if seq == "*" else seq
      length = ln if ln is not None else (len(seq) if seq is not None else None)
      if ln is not None and seq is not None and ln != len(seq):
        d.problems.append("{}: LN {} but sequence of length {}".format(
            name, ln, len(seq)))
    else:
      name, ln, seq = f[1], int(f[2]), f[3]
      seq = None if seq == "*" else seq
      length = ln
      if seq is not None and ln != len(seq):
        d.problems.append("{}: slen {} but sequence of length {}".format(
            name, ln, len(seq)))
    if name in d.segs:
      d.problems.append("segment {} defined twice".format(name))
    d.segs[name] = Seg(name, seq, length, ln, idx, l)
    d.mentions[idx] = {name}
  for idx, l in enumerate(lines):
    f = l.split("\t")
    rt = f[0]
    if rt == "S":
      continue
    if rt == "L" and version == "gfa1":
      a = (f[1], "R" if f[2] == "+" else "L")
      b = (f[3], "L" if f[4] == "+" else "R")
      d.edges.append(Edge("D", a, b, f[5], idx, l, ()))
      d.mentions[idx] = {f[1], f[3]}
    elif rt == "C" and version == "gfa1":
      d.edges.append(Edge("C", (f[1], None), (f[3], None), f[6], idx, l, ()))
      d.mentions[idx] = {f[1], f[3]}
    elif rt == "P" and version == "gfa1":
      d.mentions[idx] = set(x[:-1] for x in f[2].split(","))
    elif rt == "E":
      (s1, o1), (s2, o2) = _split_oriented(f[2]), _split_oriented(f[3])
      l1 = d.segs[s1].length if s1 in d.segs else None
      l2 = d.segs[s2].length if s2 in d.segs else None
      k1, p1 = interval_kind(f[4], f[5], l1)
      k2, p2 = interval_kind(f[6], f[7], l2)
      kind, e1, e2 = classify_e(o1, k1, o2, k2)
      bad = tuple(p1 + p2)
      d.edges.append(Edge(kind, (s1, e1), (s2, e2), f[8], idx, l, bad))
      d.mentions[idx] = {s1, s2}
      for p in bad:
        d.problems.append("{}: {}".format(l.replace("\t", " "), p))
    elif rt in ("G",):
      d.mentions[idx] = {f[2][:-1], f[3][:-1]}
    elif rt == "F":
      d.mentions[idx] = {f[1]}
    elif rt in ("O", "U"):
      # items may be segments, edges or groups: recorded raw, resolved by
      # touched() below
      items = f[2].split(" ")
      if rt == "O":
        items = [x[:-1] for x in items]
      d.mentions[idx] = set(items)
    else:
      d.mentions[idx] = set()
  return d


# ---------------------------------------------------------------------------
# C16: components and counters

def components(doc):
  """Partition of the DEFINED segments into classes of 'joined by a chain of
  dovetails' (union-find).  Returns frozenset of frozensets of names."""
  parent = {n: n for n in doc.segs}

  def find(x):
    while parent[x] != x:
      parent[x] = parent[parent[x]]
      x = parent[x]
    return x
  for e in doc.dovetails:
    a, b = e.a[0], e.b[0]
    if a in parent and b in parent:
      ra, rb = find(a), find(b)
      if ra != rb:
        parent[ra] = rb
  cls = collections.defaultdict(set)
  for n in doc.segs:
    cls[find(n)].add(n)
  return frozenset(frozenset(c) for c in cls.values())


def component_of(doc, name):
  for c in components(doc):
    if name in c:
      return c
  return None


def end_degrees(doc):
  """(name, end) -> number of dovetail RECORDS incident on that end (a
  hairpin is one record)."""
  deg = collections.Counter()
  for e in doc.dovetails:
    for x in {e.a, e.b}:
      deg[x] += 1
  return deg


def counters(doc):
  deg = end_degrees(doc)
  return {
      "n_dovetails": sum(1 for e in doc.edges if e.kind == "D"),
      "n_containments": sum(1 for e in doc.edges if e.kind == "C"),
      "n_internals": sum(1 for e in doc.edges if e.kind == "I"),
      "n_dead_ends": sum(1 for n in doc.segs for x in "LR"
                         if deg[(n, x)] == 0),
  }


def undefined_segments(doc):
  out = set()
  for e in doc.edges:
    for x in (e.a, e.b):
      if x[0] not in doc.segs:
        out.add(x[0])
  return out


# ---------------------------------------------------------------------------
# C14: chains

def chain_edges(doc):
  """Dovetails joining two DIFFERENT segments that are the only dovetail on
  both joined ends."""
  deg = end_degrees(doc)
  return [e for e in doc.dovetails
          if e.a[0] != e.b[0] and deg[e.a] == 1 and deg[e.b] == 1]


class Chain:
  """members: frozenset of names; cyclic: bool; adj: end -> (other end,
  edge)"""
  def __init__(self, members, cyclic, adj):
    self.members = frozenset(members)
    self.cyclic = cyclic
    self.adj = adj

  def __repr__(self):
    return "Chain({}{})".format(sorted(self.members),
                                ",cyclic" if self.cyclic else "")


def chains(doc):
  ce = chain_edges(doc)
  adj = {}
  for e in ce:
    adj[e.a] = (e.b, e)
    adj[e.b] = (e.a, e)
  parent = {}

  def find(x):
    parent.setdefault(x, x)
    while parent[x] != x:
      parent[x] = parent[parent[x]]
      x = parent[x]
    return x
  for e in ce:
    ra, rb = find(e.a[0]), find(e.b[0])
    if ra != rb:
      parent[ra] = rb
  groups = collections.defaultdict(set)
  for n in list(parent):
    groups[find(n)].add(n)
  out = []
  for members in groups.values():
    nedges = sum(1 for e in ce if e.a[0] in members)
    cyclic = (nedges == len(members))
    out.append(Chain(members, cyclic,
                     {k: v for k, v in adj.items() if k[0] in members}))
  out.sort(key=lambda c: sorted(c.members))
  return out


def check_path(doc, chain_list, path):
  """path: list of (name, exit_end) as chosen by the implementation.
  Returns (chain, problems).  A legal choice walks one reference chain
  completely, each step over the chain edge that leaves through the exit end
  of the current member and enters the next member through the end opposite
  to ITS exit end; a non-cyclic chain is walked from one terminal to the
  other."""
  names = [p[0] for p in path]
  probs = []
  ch = None
  for c in chain_list:
    if names and names[0] in c.members:
      ch = c
  if ch is None:
    return None, ["path {} starts at a segment that is in no chain".format(
        fmt_path(path))]
  if sorted(names) != sorted(ch.members):
    probs.append("path {} does not list the members {} exactly once".format(
        fmt_path(path), sorted(ch.members)))
    return ch, probs
  for (x, ex), (y, ey) in zip(path, path[1:]):
    nxt = ch.adj.get((x, ex))
    if nxt is None or nxt[0] != (y, INV[ey]):
      probs.append("step {}{} -> {}{} is not over a chain edge".format(
          x, ex, y, ey))
  if not ch.cyclic and not probs:
    first, last = path[0], path[-1]
    if (first[0], INV[first[1]]) in ch.adj or (last[0], last[1]) in ch.adj:
      probs.append("path {} does not run from terminal to terminal".format(
          fmt_path(path)))
  return ch, probs


def fmt_path(path):
  return "[" + ",".join("{}{}".format(n, e) for n, e in path) + "]"


def canon_chain_set(paths_or_chains):
  """Set of chains modulo reversal / rotation = set of member sets plus the
  set of undirected steps."""
  return sorted(sorted(c) for c in paths_or_chains)


def spell(doc, chain, path):
  """(sequence or None, length or None) of the chain walked along path."""
  seqs, total, known_len = [], 0, True
  for i, (x, ex) in enumerate(path):
    s = doc.segs[x]
    cut = 0
    if i > 0:
      px, pex = path[i - 1]
      cut = overlap_len(chain.adj[(px, pex)][1].ovl)
      if cut is None:
        return None, None
    if s.seq is None:
      seqs.append(None)
    else:
      o = s.seq if ex == "R" else rc(s.seq)
      seqs.append(o[cut:])
    if s.length is None:
      known_len = False
    else:
      total += s.length - cut
  seq = None if any(x is None for x in seqs) else "".join(seqs)
  return seq, (total if known_len else None)


def link_key(a, b, ovl):
  """A dovetail modulo complement: unordered pair of ends + overlap (the
  overlaps in scope, `*` and M-only CIGARs, are their own complement)."""
  return (tuple(sorted([a, b])), ovl)


def predict_merge(doc, paths):
  """Prediction of merge_linear_paths given the implementation's CHOICE of
  direction / rotation `paths` (one per chain).  Returns (pred, problems).

  pred = {"merged": [ {"id": "#i", "members": [...], "default_name": str,
                       "seq": str|None, "length": int|None} ],
          "links": Counter of link_key over ends whose segment is either an
          untouched segment name or "#i",
          "kept_segments": [names], "untouched": [line texts],
          "partition": frozenset of frozensets over names / "#i"}
  """
  cl = chains(doc)
  problems = []
  used = {}
  for p in paths:
    ch, pr = check_path(doc, cl, p)
    problems += pr
    if ch is not None:
      if id(ch) in used:
        problems.append("chain {} returned twice".format(sorted(ch.members)))
      used[id(ch)] = (ch, p)
  for ch in cl:
    if id(ch) not in used:
      problems.append("chain {} not found".format(sorted(ch.members)))
  if problems:
    return None, problems
  endmap = {}     # old end -> new end
  segmap = {}     # old name -> "#i"
  merged = []
  chain_edge_idx = set()
  for i, (ch, p) in enumerate(used[id(c)] for c in cl):
    mid = "#{}".format(i)
    seq, length = spell(doc, ch, p)
    merged.append({"id": mid, "members": [x for x, _ in p],
                   "default_name": "_".join(x for x, _ in p),
                   "seq": seq, "length": length})
    for x in ch.members:
      segmap[x] = mid
    first, last = p[0], p[-1]
    endmap[(first[0], INV[first[1]])] = (mid, "L")
    endmap[(last[0], last[1])] = (mid, "R")
    # edges consumed: the steps of the walk (for a cycle the closing edge
    # stays, as a link from the merged segment to itself)
    for (x, ex) in p[:-1]:
      chain_edge_idx.add(ch.adj[(x, ex)][1].idx)
  links = collections.Counter()
  for e in doc.dovetails:
    if e.idx in chain_edge_idx:
      continue
    a = endmap.get(e.a, e.a)
    b = endmap.get(e.b, e.b)
    # every dovetail incident to a chain member other than a walked step
    # sits on an outer end, hence is mapped; anything else is untouched
    links[link_key(a, b, e.ovl)] += 1
  touched = set(segmap)
  untouched = []
  for idx, l in enumerate(doc.lines):
    m = doc.mentions.get(idx, set())
    if not (m & touched):
      untouched.append(l)
  part = frozenset(frozenset(segmap.get(n, n) for n in c)
                   for c in components(doc))
  return {"merged": merged, "links": links,
          "kept_segments": [n for n in doc.segs if n not in touched],
          "untouched": untouched, "partition": part,
          "removed_segments": sorted(touched)}, []


def compare_merge(doc, pred, after):
  """Compare the written document after the merge with the prediction.
  Returns list of (clause, detail).  Demands no more than the property:
  the name of a merged segment is free (any identifier not in use), tags
  other than LN are ignored, LN may be absent."""
  out = []
  if after.problems:
    out.append(("written-inconsistent", "; ".join(after.problems[:3])))
  old = set(doc.segs)
  new_names = [n for n in after.segs if n not in old]
  gone = [n for n in pred["removed_segments"] if n in after.segs]
  if gone:
    out.append(("member-kept", "chain members still present: {}".format(gone)))
  lost = [n for n in pred["kept_segments"] if n not in after.segs]
  if lost:
    out.append(("segment-lost", "segments outside every chain disappeared: "
                "{}".format(lost)))
  if len(new_names) != len(pred["merged"]):
    out.append(("merged-count", "{} chains but {} new segments {}".format(
        len(pred["merged"]), len(new_names), new_names)))
    return out
  # untouched lines textually unchanged (multiset)
  have = collections.Counter(after.lines)
  need = collections.Counter(pred["untouched"])
  miss = need - have
  if miss:
    out.append(("untouched-changed", "lines not touching a chain are no "
                "longer written as they were: {}".format(
                    [x.replace("\t", " ") for x in sorted(miss)][:4])))
  # the written document stays closed: no record mentions a segment that
  # is not defined any more
  for idx, l in enumerate(after.lines):
    if l.split("\t")[0] in ("L", "C", "P", "E", "F", "G"):
      undefined = sorted(n for n in after.mentions.get(idx, ())
                         if n not in after.segs)
      if undefined:
        out.append(("dangling-mention", "{} mentions {} which is not "
                    "defined".format(l.replace("\t", " "), undefined)))
        break
  # find an assignment of new names to chains under which everything agrees
  best = None
  for perm in itertools.permutations(new_names):
    name_of = {m["id"]: n for m, n in zip(pred["merged"], perm)}
    probs = _compare_under(doc, pred, after, name_of)
    if best is None or len(probs) < len(best):
      best = probs
    if not probs:
      break
  return out + best


def _compare_under(doc, pred, after, name_of):
  probs = []
  for m in pred["merged"]:
    s = after.segs[name_of[m["id"]]]
    if s.seq != m["seq"]:
      probs.append(("sequence", "{}: spelled {!r}, written {!r}".format(
          s.name, m["seq"] or "*", s.seq or "*")))
    if m["length"] is not None and s.ln is not None and s.ln != m["length"]:
      probs.append(("length", "{}: length {} but written length {}".format(
          s.name, m["length"], s.ln)))
    if s.seq is not None and s.ln is not None and s.ln != len(s.seq):
      probs.append(("length", "{}: written length {} but sequence of "
                    "length {}".format(s.name, s.ln, len(s.seq))))
  want = collections.Counter()
  for (ends, ovl), k in pred["links"].items():
    ends = tuple(sorted((name_of.get(n, n), x) for n, x in ends))
    want[(ends, ovl)] += k
  got = collections.Counter()
  for e in after.edges:
    if e.kind == "D":
      got[link_key(e.a, e.b, e.ovl)] += 1
  if want != got:
    probs.append(("links", "missing {} unexpected {}".format(
        _fmt_links(want - got), _fmt_links(got - want))))
  want_part = frozenset(frozenset(name_of.get(n, n) for n in c)
                        for c in pred["partition"])
  if components(after) != want_part:
    probs.append(("components-text", "written components {} are not the "
                  "contraction {}".format(fmt_part(components(after)),
                                          fmt_part(want_part))))
  return probs


def _fmt_links(c):
  return sorted("{}{}~{}{}:{}".format(a[0], a[1], b[0], b[1], ovl) +
                ("" if k == 1 else "x{}".format(k))
                for ((a, b), ovl), k in c.items())


def fmt_part(p):
  return sorted(sorted(c) for c in p)


# ---------------------------------------------------------------------------
# shape classes used in violation keys (known-findings matching)

def outer_ends(ch):
  return set((n, x) for n in ch.members for x in "LR" if (n, x) not in ch.adj)


def shape_class(doc, paths=None):
  """Canonical class of a graph with respect to merging: the '+'-joined,
  sorted list of the features below, or 'plain' if none applies.

    hairpin-on-chain-end   a hairpin dovetail (one segment end joined with
        itself) sits on an outer end of a reference chain
    placeholder-before-sequence   (needs the walk) some chain, walked as the
        implementation chose, has a member without sequence before a member
        with a sequence
    gfa2-reattached-edge   (GFA2, needs the walk) some dovetail other than a
        walked step is incident to a chain end and would need new positions
        on the merged segment, i.e. it is not on the left end of a first
        member that is walked forwards
  """
  feats = set()
  cl = chains(doc)
  for ch in cl:
    outer = outer_ends(ch)
    for e in doc.dovetails:
      if e.a == e.b and e.a in outer:
        feats.add("hairpin-on-chain-end")
  if paths:
    for p in paths:
      ch, pr = check_path(doc, cl, p)
      if ch is None or pr:
        continue
      seen_star = False
      for n, _ in p:
        if doc.segs[n].seq is None:
          seen_star = True
        elif seen_star:
          feats.add("placeholder-before-sequence")
      if doc.version == "gfa2":
        walked = set(ch.adj[(x, ex)][1].idx for x, ex in p[:-1])
        keep = (p[0][0], "L") if p[0][1] == "R" else None
        for e in doc.dovetails:
          if e.idx in walked:
            continue
          for x in (e.a, e.b):
            if x[0] in ch.members and x != keep:
              feats.add("gfa2-reattached-edge")
  return "+".join(sorted(feats)) if feats else "plain"
