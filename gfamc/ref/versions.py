"""Reference model for GFA version inference (C13).  Never imports gfapy.

A *kind* is a class of lines that carries the same version information.  For
a multiset of kinds the model computes (a) a consistent instantiation (distinct
identifiers, references closed where the multiset allows it), (b) the set of
GFA versions every kind allows, and (c) the outcome every arrival order must
have, given the `version` and `dialect` parameters:

  content  = intersection of ALLOWS[k] over the kinds
  param    = content & {version}            (version given)  or content
  VersionError in every order   iff  param is empty, or the dialect is rgfa
                                     (a subset of GFA1) and param == {gfa2}
  accepted as v in every order  iff  the remaining set is {v} and the
                                     instantiation is otherwise valid
  version-neutral (H without VN, comments, nothing): only order independence
"""
import itertools
from . import closure

T = "\t".join
V1, V2 = "gfa1", "gfa2"
BOTH = frozenset([V1, V2])

KINDS = ["H1", "H2", "H0", "H3", "S1", "S2", "L", "C", "P", "E", "F", "G",
         "O", "U", "X", "#"]

DESCRIPTION = {
    "H1": "H VN:Z:1.0", "H2": "H VN:Z:2.0", "H0": "H without VN",
    "H3": "H VN:Z:3.0 (unsupported)", "S1": "S in GFA1 syntax",
    "S2": "S in GFA2 syntax", "L": "link", "C": "containment", "P": "path",
    "E": "edge", "F": "fragment", "G": "gap", "O": "ordered group",
    "U": "unordered group", "X": "custom record X", "#": "comment"}

# versions in which a line of this kind can occur (GFA1 / GFA2 specifications;
# custom record types exist in GFA2 only; 3.0 is no GFA version)
ALLOWS = {
    "H1": frozenset([V1]), "H2": frozenset([V2]), "H0": BOTH,
    "H3": frozenset(), "S1": frozenset([V1]), "S2": frozenset([V2]),
    "L": frozenset([V1]), "C": frozenset([V1]), "P": frozenset([V1]),
    "E": frozenset([V2]), "F": frozenset([V2]), "G": frozenset([V2]),
    "O": frozenset([V2]), "U": frozenset([V2]), "X": frozenset([V2]),
    "#": BOTH}

# kinds that decide the version on arrival / that have to wait for a decision
DECIDERS = {"H1", "H2", "H3", "S1", "S2", "E", "F", "G", "O", "U"}
WAITING = {"L", "C", "P", "X"}
RGFA_FORBIDDEN = {"H1", "H2", "H0", "H3", "P", "C"}   # rGFA: S and L only


def multisets(kmax, kmin=0):
  """All multisets of at most kmax kinds, as sorted tuples of kind names."""
  for k in range(kmin, kmax + 1):
    for c in itertools.combinations_with_replacement(range(len(KINDS)), k):
      yield tuple(KINDS[i] for i in c)


def content_versions(kinds):
  s = BOTH
  for k in kinds:
    s = s & ALLOWS[k]
  return s


_ORIENT4 = [("+", "+"), ("+", "-"), ("-", "+"), ("-", "-")]


def instantiate(kinds, dialect="standard"):
  """Lines for a multiset of kinds (same order as `kinds`), every line
  distinct, identifiers unique, references resolved inside the document
  wherever the multiset contains something to refer to."""
  rgfa = dialect == "rgfa"
  n1 = sum(1 for k in kinds if k == "S1")
  n2 = sum(1 for k in kinds if k == "S2")
  s1 = ["A{}".format(i + 1) for i in range(n1)]
  s2 = ["a{}".format(i + 1) for i in range(n2)]
  pool1 = s1 or s2          # what GFA1 records refer to
  pool2 = s2 or s1          # what GFA2 records refer to
  seen = {}
  lines = []
  nh = 0

  def xy(pool, k):
    if not pool:
      return "z1", "z2"            # defined nowhere: cannot be closed
    return pool[0], pool[-1]

  for kind in kinds:
    k = seen.get(kind, 0)
    seen[kind] = k + 1
    if kind in ("H1", "H2", "H0", "H3"):
      tag = "h{}:i:{}".format("abcdefgh"[nh], nh)
      nh += 1
      vn = {"H1": ["VN:Z:1.0"], "H2": ["VN:Z:2.0"], "H3": ["VN:Z:3.0"],
            "H0": []}[kind]
      lines.append(T(["H"] + vn + [tag]))
    elif kind == "S1":
      f = ["S", s1[k], "*"]
      if not rgfa:
        # syntax sniffing has to skip the tags, whatever their datatype
        f += [['xj:J:{"a": [1, 2]}', "xh:H:1A"], ["xx:Z:t"], [],
              ["xb:B:C,1,2", "xf:f:1.5", "xa:A:x", "xi:i:-3"]][k % 4]
      if rgfa:
        f += ["SN:Z:chr1", "SO:i:{}".format(10 * k), "SR:i:0"]
      lines.append(T(f))
    elif kind == "S2":
      f = ["S", s2[k], "4", "*"]
      if not rgfa:
        f += [['xj:J:{"a": [1, 2]}', "xh:H:1A"], ["xx:Z:t"], [],
              ["xb:B:C,1,2", "xf:f:1.5", "xa:A:x", "xi:i:-3"]][k % 4]
      if rgfa:
        f += ["SN:Z:chr1", "SO:i:{}".format(100 + 10 * k), "SR:i:0"]
      lines.append(T(f))
    elif kind in ("L", "C"):
      x, y = xy(pool1, 0)
      if x != y:
        var = [(x, a, y, b) for a, b in _ORIENT4] + [(x, "+", x, "+")]
      else:
        var = [(x, "+", x, "+"), (x, "+", x, "-"), (x, "-", x, "+")]
      if kind == "C":
        # containments are not identified by their ends: vary the position
        var = var + [(x, "+", y, "+")] * 5
      if k < len(var) and pool1:
        a, ao, b, bo = var[k]
      elif pool1:
        a, ao, b, bo = x, "+", "z{}".format(k), "+"      # cannot be closed
      else:
        a, ao, b, bo = "z1", _ORIENT4[k % 4][0], "z2", _ORIENT4[k % 4][1]
        if k >= 4:
          b = "z{}".format(k)
      if kind == "L":
        lines.append(T(["L", a, ao, b, bo, "0M" if rgfa else "*"]))
      else:
        lines.append(T(["C", a, ao, b, bo, str(k), "*"]))
    elif kind == "P":
      x, y = xy(pool1, 0)
      lines.append(T(["P", "p{}".format(k + 1), "{}+,{}+".format(x, y), "*"]))
    elif kind == "E":
      x, y = xy(pool2, 0)
      lines.append(T(["E", "e{}".format(k + 1), x + "+", y + "+", "2", "4$",
                      "0", "2", "*"]))
    elif kind == "F":
      x, y = xy(pool2, 0)
      lines.append(T(["F", x, "f{}+".format(k + 1), "0", "2", "0", "2", "*"]))
    elif kind == "G":
      x, y = xy(pool2, 0)
      lines.append(T(["G", "g{}".format(k + 1), x + "+", y + "+", "10", "*"]))
    elif kind == "O":
      x, y = xy(pool2, 0)
      items = x + "+" if x == y else "{}+ {}+".format(x, y)
      lines.append(T(["O", "o{}".format(k + 1), items]))
    elif kind == "U":
      x, y = xy(pool2, 0)
      items = x if x == y else "{} {}".format(x, y)
      lines.append(T(["U", "u{}".format(k + 1), items]))
    elif kind == "X":
      lines.append(T(["X", "c{}".format(k + 1), "xx:i:{}".format(k + 1)]))
    elif kind == "#":
      lines.append("# comment {}".format(k + 1))
    else:
      raise ValueError(kind)
  return lines


def expected(kinds, version=None, dialect="standard", lines=None):
  """What every arrival order of this multiset must produce.

  Returns a dict:
    must     'version-error' | 'accept' | 'no-version-error' | 'neutral'
    version  the version an accepted order must report (None if open)
    tolerate outcome classes accepted besides the demanded one
    allowed  the version sets of the computation (for the evidence)
  """
  content = content_versions(kinds)
  param = content & (frozenset([version]) if version else BOTH)
  if lines is None:
    lines = instantiate(kinds, dialect)
  d = closure.Doc(lines)
  closed = d.closed() and not d.dup_ids
  info = {"content": sorted(content), "with_parameter": sorted(param),
          "closed": closed}
  if not param:
    return {"must": "version-error", "version": None, "tolerate": [],
            "allowed": info}
  if dialect == "rgfa":
    if param == frozenset([V2]):
      # enforced by the final validation; a document whose references are
      # not closed is refused there for that reason first
      return {"must": "version-error", "version": None,
              "tolerate": [] if closed else ["err:NotFoundError"],
              "allowed": info}
    if param == BOTH:
      return {"must": "neutral", "version": None, "tolerate": [],
              "allowed": info}
    ok = closed and not (set(kinds) & RGFA_FORBIDDEN)
    return {"must": "accept" if ok else "no-version-error", "version": V1,
            "tolerate": [], "allowed": info}
  if param == BOTH:
    return {"must": "neutral", "version": None, "tolerate": [],
            "allowed": info}
  v = next(iter(param))
  return {"must": "accept" if closed else "no-version-error", "version": v,
          "tolerate": [], "allowed": info}


def queue_exercised(kinds_in_order, version=None):
  """Non-triviality rule: with the version not given, a kind that has to wait
  for a decision arrives before the first deciding kind (so the line queue
  is used and replayed), or no deciding kind arrives at all."""
  if version is not None:
    return False
  waiting = False
  for k in kinds_in_order:
    if k in WAITING:
      waiting = True
    elif k in DECIDERS:
      return waiting
  return waiting
