"""Reference model for C15: the record-level effect of
`Gfa.multiply(segment, factor, copy_names=..., distribute=...)`, predicted
and judged from the TEXT of the graph only.  Never imports gfapy.

Records handled: GFA1 S / L / C (and P, H as opaque records), GFA2 S / E
(dovetails and containments; other record types are opaque).  The module is
written from the GFA1/GFA2 specifications as profiled by gfapy's documentation:

* L line `L f fo t to ov`: the from-segment takes part with its R end when
  `fo` is `+` (L end when `-`), the to-segment with its L end when `to` is `+`
  (R end when `-`).  `L f fo t to ov` and `L t ~to f ~fo compl(ov)` are the same
  link (complement form).
* E line `E eid s1 s2 b1 e1 b2 e2 aln`: the interval of a segment that starts at
  0 touches its L end, one that ends at `len$` touches its R end; an interval
  that does both is the whole segment (contained).  Swapping the two sides
  (with the alignment complemented) is the same edge.

What is judged (see `judge`):
  k >= 2, no distribution
    * k segments: the original plus k-1 fresh, distinct names (the requested
      ones if given); each equal to the original except for the name and the
      count tags RC/FC/KC, which hold floor(v/k) (ceil(v/k) is accepted too:
      the documentation only says "divided");
    * every edge (dovetail / containment) of the original to another segment
      is present once per copy, same neighbour, orientations, overlap,
      positions, tags, counts divided as above;
    * a self-edge of the original (both sides are the multiplied segment):
      ACCEPTED READING = every copy takes part, at each end / side at which the
      original took part, in at least one edge which is an image of the
      self-edge under a renaming of the multiplied segment to members of the
      copy family (own self-link per copy, links between copies, or the full
      cross product are all accepted);
    * no invented edge: every edge that involves a member of the family maps
      back, by renaming family members to the original name, to an edge of the
      original with the same tags (counts divided); no edge twice;
    * every record that does not mention the multiplied segment is textually
      unchanged.
  k >= 2 with distribution on end X
    * edges which do not touch end X: as above;
    * every former neighbour end on X is still linked to >= 1 member;
    * nothing invented (as above);
    * (policies L, R, equal) if end X had >= 2 distinct neighbour ends the
      links were actually shared out: not every member kept every link.
  factor 1: text unchanged; factor 0: text minus every record that mentions
  the segment; factor < 0: refused, text unchanged.
"""
import re
import collections

COUNT_TAGS = ("KC", "RC", "FC")
POLICIES = ("off", "auto", "equal", "L", "R")


_NPOS = {"gfa1": {"H": 0, "S": 2, "L": 5, "C": 6, "P": 3},
         "gfa2": {"H": 0, "S": 3, "E": 8}}
_TAG = re.compile(r"([A-Za-z][A-Za-z0-9]):([AifZJHB]):(.*)", re.S)


class Rec:
  """One record: record type, positional fields, tags [(name, type, value)].
  Record types without an entry in _NPOS are opaque (all fields positional)."""
  __slots__ = ("text", "rt", "pos", "tags")

  def __init__(self, text, version):
    self.text = text
    f = text.split("\t")
    self.rt = f[0]
    n = _NPOS[version].get(self.rt)
    if n is None:
      self.pos = f[1:]
      self.tags = []
    else:
      self.pos = f[1:1 + n]
      self.tags = []
      for t in f[1 + n:]:
        m = _TAG.fullmatch(t)
        self.tags.append(m.groups() if m else ("??", "?", t))


def parse(lines, version):
  """List of Rec.  `version` in ('gfa1', 'gfa2')."""
  return [Rec(l, version) for l in lines if l != ""]


def _strip_orient(x):
  return x[:-1] if x and x[-1] in "+-" else x


def mentions(rec, version):
  """Set of identifiers a record refers to or defines (text level)."""
  rt = rec.rt
  if rt == "S":
    return {rec.pos[0]}
  if version == "gfa1":
    if rt in ("L", "C"):
      return {rec.pos[0], rec.pos[2]}
    if rt == "P":
      return {rec.pos[0]} | {_strip_orient(x) for x in rec.pos[1].split(",")}
    return set()
  if rt == "E":
    return {rec.pos[0], _strip_orient(rec.pos[1]), _strip_orient(rec.pos[2])} \
        - {"*"}
  if rt == "G":
    return {rec.pos[0], _strip_orient(rec.pos[1]), _strip_orient(rec.pos[2])} \
        - {"*"}
  if rt == "F":
    return {rec.pos[0], _strip_orient(rec.pos[1])}
  if rt in ("O", "U"):
    return {rec.pos[0]} | {_strip_orient(x) for x in rec.pos[1].split(" ")} \
        - {"*"}
  return set()


def is_edge(rec, version):
  return rec.rt in (("L", "C") if version == "gfa1" else ("E",))


def edge_sides(rec, version):
  """(name0, name1) of the two segment references of an edge record."""
  if version == "gfa1":
    return rec.pos[0], rec.pos[2]
  return _strip_orient(rec.pos[1]), _strip_orient(rec.pos[2])


def _flip(o):
  return "-" if o == "+" else "+"


def cigar_complement(ov):
  if ov == "*":
    return ov
  ops = re.findall(r"(\d+)([MIDNSHPX=])", ov)
  if "".join(a + b for a, b in ops) != ov:
    return ov    # trace or unknown: left alone
  sw = {"I": "D", "D": "I", "S": "D", "N": "I"}
  return "".join(a + sw.get(b, b) for a, b in reversed(ops))


def rename_sides(rec, version, mapping):
  """Positional fields of an edge with side i renamed through mapping[i]
  (mapping: (f0, f1), functions name->name)."""
  p = list(rec.pos)
  if version == "gfa1":
    p[0] = mapping[0](p[0])
    p[2] = mapping[1](p[2])
  else:
    p[1] = mapping[0](p[1][:-1]) + p[1][-1]
    p[2] = mapping[1](p[2][:-1]) + p[2][-1]
  return p


def canon_pos(rt, p, version):
  """Canonical positional tuple of an edge modulo the complement / swapped
  form (identity of the edge, tags not included)."""
  if version == "gfa1":
    if rt == "L":
      a = (p[0], p[1], p[2], p[3], p[4])
      b = (p[2], _flip(p[3]), p[0], _flip(p[1]), cigar_complement(p[4]))
      return ("L",) + min(a, b)
    return (rt,) + tuple(p)
  # the edge identifier is not part of the identity used here: a copy of a
  # named edge cannot keep the name (identifiers are unique)
  a = ("",) + tuple(p[1:])
  b = ("", p[2], p[1], p[5], p[6], p[3], p[4], cigar_complement(p[7]))
  return ("E",) + min(a, b)


def seg_lengths(recs, version):
  out = {}
  if version == "gfa2":
    for r in recs:
      if r.rt == "S":
        out[r.pos[0]] = r.pos[1]
  return out


def _e_interval_end(b, e):
  """'L', 'R', 'W' (whole) or 'I' (internal) for a GFA2 interval."""
  first = (b == "0")
  last = e.endswith("$")
  if first and last:
    return "W"
  if first:
    return "L"
  if last:
    return "R"
  return "I"


def incidences(rec, version):
  """[(name, end)] for the two sides of an edge: end in 'L','R' for a
  dovetail side, 'W'/'I'/'c0'/'c1' otherwise (sides of a containment are
  distinguished by position)."""
  if version == "gfa1":
    if rec.rt == "L":
      return [(rec.pos[0], "R" if rec.pos[1] == "+" else "L"),
              (rec.pos[2], "L" if rec.pos[3] == "+" else "R")]
    return [(rec.pos[0], "c0"), (rec.pos[2], "c1")]
  s1, s2 = edge_sides(rec, version)
  k1 = _e_interval_end(rec.pos[3], rec.pos[4])
  k2 = _e_interval_end(rec.pos[5], rec.pos[6])
  if k1 in "LR" and k2 in "LR":
    return [(s1, k1), (s2, k2)]
  # containment or internal: sides distinguished by their interval kind and
  # position
  return [(s1, "c0" + k1), (s2, "c1" + k2)]


def is_dovetail(rec, version):
  return all(e in ("L", "R") for _n, e in incidences(rec, version))


def _ekind(rec, version, family):
  """dovetail | containment, + '/self-edge' when both sides are in family."""
  sides = edge_sides(rec, version)
  k = "dovetail" if is_dovetail(rec, version) else "containment"
  if sides[0] in family and sides[1] in family:
    k += "/self-edge"
  return k


def allowed_counts(v, k):
  """Accepted values of a count tag after division by k."""
  v = int(v)
  return {str(v // k), str(-((-v) // k))}


def tags_match(orig_tags, got_tags, k):
  """Same tag names and types; equal values except count tags, which must be
  one of the accepted quotients.  Order of tags is not demanded.  Returns a
  problem string or None."""
  o = {t[0]: t for t in orig_tags}
  g = {t[0]: t for t in got_tags}
  if len(g) != len(got_tags):
    return "a tag name occurs twice"
  if set(o) != set(g):
    return "tag names {} instead of {}".format(sorted(g), sorted(o))
  for n, (_, ty, val) in sorted(o.items()):
    gty, gval = g[n][1], g[n][2]
    if n in COUNT_TAGS and ty == "i" and k is not None:
      if gty != "i" or gval not in allowed_counts(val, k):
        return "{} = {}:{} , expected {}/{} = one of {}".format(
            n, gty, gval, val, k, sorted(allowed_counts(val, k)))
    elif (gty, gval) != (ty, val):
      return "{} = {}:{} instead of {}:{}".format(n, gty, gval, ty, val)
  return None


# ---------------------------------------------------------------------------


def predict_rm(lines, version, m):
  """Multiset (Counter) of the lines left after removing segment m: every
  record that mentions m goes (S, edges, GFA1 paths; the families enumerated
  by C15 hold no other dependants)."""
  recs = parse(lines, version)
  return collections.Counter(r.text for r in recs
                             if m not in mentions(r, version))


def end_link_counts(lines, version, m):
  """{'L': (distinct links, incidences), 'R': ...} of dovetails on each end
  of m (a hairpin is one link but two incidences on its end)."""
  recs = parse(lines, version)
  out = {"L": [0, 0], "R": [0, 0]}
  for r in recs:
    if is_edge(r, version) and is_dovetail(r, version):
      ends = [e for n, e in incidences(r, version) if n == m]
      for e in set(ends):
        out[e][0] += 1
      for e in ends:
        out[e][1] += 1
  return out


def allowed_distribution_ends(lines, version, m, k, policy):
  """Set of ends (None, 'L', 'R') on which the documentation allows the
  links to be distributed under `policy`.

  off/None: none.  L / R: that end.  equal: 'an end is selected (if any), for
  which the number of links is equal to the factor (if none, links are not
  distributed; if both, then R is used)' -- a hairpin may be counted as one
  link or as two on its end, both readings are accepted.  auto: 'an end is
  selected automatically, trying to maximize the number of links which can be
  deleted' -- any choice including none is accepted."""
  if policy in (None, "off"):
    return {None}
  if policy in ("L", "R"):
    return {policy}
  if policy == "auto":
    return {None, "L", "R"}
  assert policy == "equal"
  c = end_link_counts(lines, version, m)
  out = set()
  for conv in (0, 1):
    if c["R"][conv] == k:
      out.add("R")
    elif c["L"][conv] == k:
      out.add("L")
    else:
      out.add(None)
  return out


def judge_unchanged(before, after, what):
  """Text (as a list of lines, order included) unchanged."""
  if list(before) != list(after):
    return [(what, "text", "text changed: -{} +{}".format(
        sorted((collections.Counter(before) - collections.Counter(after))
               .elements()),
        sorted((collections.Counter(after) - collections.Counter(before))
               .elements())))]
  return []


def judge_rm(before, after, version, m):
  exp = predict_rm(before, version, m)
  got = collections.Counter(l for l in after if l != "")
  if exp != got:
    return [("factor0-not-rm", "text", "missing {} / unexpected {}".format(
        sorted((exp - got).elements()), sorted((got - exp).elements())))]
  return []


def judge_rest_untouched(before, after, version, family_before, family_after):
  """Records that mention no member of the family: same multiset of lines,
  textually."""
  rb = collections.Counter(
      r.text for r in parse(before, version)
      if not (mentions(r, version) & family_before))
  ra = collections.Counter(
      r.text for r in parse(after, version)
      if not (mentions(r, version) & family_after))
  if rb != ra:
    return [("rest-changed", "text", "records not involving the segment: missing {} "
             "/ unexpected {}".format(sorted((rb - ra).elements()),
                                      sorted((ra - rb).elements())))]
  return []


def judge_multiply(before, after, version, m, k, copy_names, policy):
  """Problems [(clause, detail)] of the outcome `after` of a SUCCESSFUL
  multiply(m, k >= 2).  For policies whose end is left open by the
  documentation the outcome is accepted if it is consistent with any
  allowed end.  Also returns the end the outcome is consistent with."""
  rb = parse(before, version)
  ra = parse(after, version)
  probs = []
  names_b = [r.pos[0] for r in rb if r.rt == "S"]
  names_a = [r.pos[0] for r in ra if r.rt == "S"]
  dup = [n for n, c in collections.Counter(names_a).items() if c > 1]
  if dup:
    probs.append(("copy-name-collides", "segment", "segment name(s) {} written twice"
                  .format(sorted(dup))))
  if version == "gfa2":
    ids = names_a + [r.pos[0] for r in ra if r.rt == "E" and r.pos[0] != "*"]
    dupid = [n for n, c in collections.Counter(ids).items() if c > 1
             and n not in dup]
    if dupid:
      probs.append(("identifier-collides", "edge", "identifier(s) {} written "
                    "twice".format(sorted(dupid))))
  else:
    # GFA1: the ID tag of a link / containment is its identifier
    ids = names_a + [r.pos[0] for r in ra if r.rt == "P"] + \
        [t[2] for r in ra if r.rt in ("L", "C") for t in r.tags if t[0] == "ID"]
    dupid = [n for n, c in collections.Counter(ids).items() if c > 1
             and n not in dup]
    if dupid:
      probs.append(("identifier-collides", "edge", "identifier(s) {} written "
                    "twice".format(sorted(dupid))))
  gone = set(names_b) - set(names_a)
  if gone:
    probs.append(("segment-lost", "segment", "segments {} disappeared".format(
        sorted(gone))))
  new = [n for n in names_a if n not in set(names_b)]
  # identifiers in use before (any record type)
  used = set()
  for r in rb:
    used |= mentions(r, version)
  if len(set(new)) != k - 1:
    probs.append(("copy-count", "segment", "{} new segment(s) {} instead of {}".format(
        len(set(new)), sorted(set(new)), k - 1)))
  if copy_names is not None and set(new) != set(copy_names):
    probs.append(("copy-names", "segment", "new segments {} instead of the requested {}"
                  .format(sorted(set(new)), sorted(copy_names))))
  family = {m} | set(new)
  probs += judge_rest_untouched(before, after, version, {m}, family)
  # --- segments
  orig = [r for r in rb if r.rt == "S" and r.pos[0] == m][0]
  for r in ra:
    if r.rt == "S" and r.pos[0] in family:
      if r.pos[1:] != orig.pos[1:]:
        probs.append(("copy-differs", "segment/fields", "segment {}: fields {} instead of {}"
                      .format(r.pos[0], r.pos[1:], orig.pos[1:])))
      t = tags_match(orig.tags, r.tags, k)
      if t:
        clause = "count-division" if "expected" in t else "copy-differs"
        who = "original" if r.pos[0] == m else "copy"
        probs.append((clause, "segment/" + who, "segment {} ({}): {}".format(
            r.pos[0], who, t)))
  # --- edges: nothing invented
  oedges = {}           # canonical positional -> Rec (edges of the original)
  mult = collections.Counter()   # identical parallel edges are distinct edges
  for r in rb:
    if is_edge(r, version) and m in edge_sides(r, version):
      oedges[canon_pos(r.rt, r.pos, version)] = r
      mult[canon_pos(r.rt, r.pos, version)] += 1
  tom = lambda n: m if n in family else n
  images = collections.defaultdict(list)   # canon of original -> after recs
  seen = collections.Counter()
  pre_of = {}
  for r in ra:
    if not is_edge(r, version):
      continue
    if not (set(edge_sides(r, version)) & family):
      continue
    seen[canon_pos(r.rt, r.pos, version)] += 1
    pre = canon_pos(r.rt, rename_sides(r, version, (tom, tom)), version)
    pre_of[canon_pos(r.rt, r.pos, version)] = pre
    o = oedges.get(pre)
    if o is None:
      probs.append(("invented-edge", _ekind(r, version, family),
                    "{!r} is not a copy of an edge of the original".format(
                        r.text)))
      continue
    images[pre].append(r)
    # like the GFA2 edge identifier, the GFA1 ID tag is not part of what a
    # copy has to reproduce (identifiers are unique; uniqueness is demanded
    # above)
    noid = lambda ts: [x for x in ts if not (version == "gfa1" and x[0] == "ID")]
    t = tags_match(noid(o.tags), noid(r.tags), k)
    if t:
      clause = "count-division" if "expected" in t else "edge-copy-differs"
      probs.append((clause, _ekind(o, version, {m}) + "/" + (
          "original" if m in edge_sides(r, version) else "copy"),
          "{!r}: {}".format(r.text, t)))
  for c, n in sorted(seen.items()):
    if n > max(1, mult.get(pre_of.get(c), 1)):
      probs.append(("duplicate-edge", c[0], "{} written {} times".format(c, n)))
  # --- completeness, per allowed distribution end
  allowed = allowed_distribution_ends(before, version, m, k, policy)
  best = None
  for end in sorted(allowed, key=lambda x: (x is not None, x)):
    p = _completeness(oedges, images, version, m, family, k, end,
                      demand_shared=(policy in ("L", "R", "equal")), mult=mult)
    if best is None or len(p) < len(best[1]):
      best = (end, p)
    if not p:
      break
  probs += best[1]
  return probs, best[0], family


def _completeness(oedges, images, version, m, family, k, end, demand_shared,
                  mult=None):
  mult = mult or {}
  probs = []
  dist_neigh = collections.defaultdict(list)   # neighbour end -> [canon]
  full = 0
  present = 0
  for c, o in sorted(oedges.items()):
    inc = incidences(o, version)
    ends_m = [e for n, e in inc if n == m]
    selfe = len(ends_m) == 2
    touched = end is not None and is_dovetail(o, version) and end in ends_m
    imgs = images.get(c, [])
    if touched:
      # neighbour end(s) seen from the distributed end
      if selfe:
        other = ends_m[1] if ends_m[0] == end else ends_m[0]
        dist_neigh[("<self>", other)].append(c)
      else:
        nb = [(n, e) for n, e in inc if n != m][0]
        dist_neigh[nb].append(c)
      full += k * mult.get(c, 1)
      present += len(imgs)
      continue
    # not distributed: complete
    if not selfe:
      for x in sorted(family):
        ren = lambda n, x=x: x if n == m else n
        want = canon_pos(o.rt, rename_sides(o, version, (ren, ren)), version)
        n = sum(1 for r in imgs if canon_pos(r.rt, r.pos, version) == want)
        if n < mult.get(c, 1):
          who = "original" if x == m else "copy"
          probs.append(("edge-not-copied", _ekind(o, version, {m}) + "/" + who,
                        "{!r} has no counterpart on {} ({})".format(
                            o.text, x, who)))
    else:
      need = set(ends_m)
      for x in sorted(family):
        got = set()
        for r in imgs:
          for n, e in incidences(r, version):
            if n == x:
              got.add(e)
        if need - got:
          who = "original" if x == m else "copy"
          probs.append(("self-edge-not-copied",
                        _ekind(o, version, {m}) + "/" + who,
                        "self-edge {!r}: {} ({}) takes part at {} only, the "
                        "original did at {}".format(o.text, x, who,
                                                    sorted(got), sorted(need))))
  for nb, cs in sorted(dist_neigh.items()):
    if not any(images.get(c) for c in cs):
      probs.append(("neighbour-stranded",
                    "self-link" if nb[0] == "<self>" else "other-segment",
                    "distribution on end {}: former neighbour {} is linked to "
                    "no copy any more".format(
                        end, "(the segment itself, end {})".format(nb[1])
                        if nb[0] == "<self>" else "{}:{}".format(*nb))))
  if demand_shared and end is not None and len(dist_neigh) >= 2 \
      and present >= full:
    probs.append(("not-distributed", "end", "distribution on end {}: every "
                  "copy kept every one of the {} links".format(
                      end, len(dist_neigh))))
  return probs


# ---------------------------------------------------------------------------
# binding of the model to data the repository's suite vouches for
# ---------------------------------------------------------------------------

SELFTEST_PAIRS = [
    # (input, stored result, factor, policy) -- tests/test_api_multiplication.py
    ("l1", "l1.m2", 2, "auto"), ("l2", "l2.m2", 2, "auto"),
    ("l2", "l2.m2.no_ld", 2, "off"), ("l2", "l2.m3", 3, "auto"),
    ("l2", "l2.m3.no_ld", 3, "off"), ("l3", "l3.m2", 2, "auto"),
    ("l3", "l3.m2.no_ld", 2, "off"), ("l2", "l2.m2", 2, "equal"),
    ("l3", "l3.m2.no_ld", 2, "equal"), ("l2", "l2.m2.no_ld", 2, "L"),
    ("l2", "l2.m2", 2, "R"),
]


def selftest(testdata_dir):
  """The stored results of the repository's multiplication tests must be
  accepted by judge_multiply, and simple corruptions of them must be
  rejected.  Returns (number of stored pairs accepted, list of failures)."""
  import os
  fails = []
  n = 0
  for sfx, version in (("gfa", "gfa1"), ("gfa2", "gfa2")):
    for a, b, k, pol in SELFTEST_PAIRS:
      fa = os.path.join(testdata_dir, "links_distri.{}.{}".format(a, sfx))
      fb = os.path.join(testdata_dir, "links_distri.{}.{}".format(b, sfx))
      if not (os.path.exists(fa) and os.path.exists(fb)):
        continue
      before = [l for l in open(fa).read().split("\n") if l]
      after = [l for l in open(fb).read().split("\n") if l]
      # the stored results were made with track_origin: drop the or tag
      after = ["\t".join(f for f in l.split("\t") if not f.startswith("or:Z:"))
               for l in after]
      probs, end, fam = judge_multiply(before, after, version, "1", k, None,
                                       pol)
      n += 1
      if probs:
        fails.append((a, b, sfx, pol, probs[:2]))
      # corruption 1: a copy of the segment removed together with its links
      cut = [l for l in after if "1*2" not in l]
      if not judge_multiply(before, cut, version, "1", k, None, pol)[0]:
        fails.append((a, b, sfx, pol, "corruption (copy removed) accepted"))
      # corruption 2: a link of the original moved to a new segment ZZ
      edge = "L" if version == "gfa1" else "E"
      other = [r.pos[0] for r in parse(after, version)
               if r.rt == "S" and r.pos[0] not in fam][0]
      bad = list(after)
      for i, l in enumerate(bad):
        if l.startswith(edge + "\t") and other in l:
          bad[i] = l.replace(other, "ZZ")
          break
      bad.insert(1, [l for l in after if l.startswith("S\t" + other + "\t")][0]
                 .replace(other, "ZZ"))
      if not judge_multiply(before, bad, version, "1", k, None, pol)[0]:
        fails.append((a, b, sfx, pol, "corruption (invented link) accepted"))
  return n, fails
