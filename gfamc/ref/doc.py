"""Text-level reference model of a GFA document under mutation.  Never imports
gfapy.  A document is a list of records (lists of field strings) sharing one
identifier namespace; operations are add, rm (documented cascade), rename
(textual substitution wherever the identifier is mentioned) and tag edits."""
import re
from . import grammar


def inv(o):
  return "+" if o == "-" else "-"


def cigar_complement(s):
  if s == "*":
    return s
  ops = re.findall(r"([0-9]+)([MIDNSHPX=])", s)
  sw = {"I": "D", "D": "I", "S": "D", "N": "I"}
  return "".join(n + sw.get(c, c) for n, c in reversed(ops))


def link_forms(f):
  """both (from, fo, to, to_o, ov) forms of a link record"""
  a = (f[1], f[2], f[3], f[4], f[5])
  b = (f[3], inv(f[4]), f[1], inv(f[2]), cigar_complement(f[5]))
  return a, b


def canon_link(f):
  return min(link_forms(f))


def split_o(item):
  return item[:-1], item[-1]


class Illegal(Exception):
  """the step is not legal in the text model (not explored / must be refused)"""


class Doc:
  def __init__(self, version):
    self.version = version
    self.recs = []          # list of field lists, in arrival order

  def copy(self):
    d = Doc(self.version)
    d.recs = [list(r) for r in self.recs]
    return d

  # ------------------------------------------------------------ identifiers
  def ident(self, r):
    rt = r[0]
    if self.version == "gfa1":
      if rt in ("S", "P"):
        return r[1]
      if rt in ("L", "C"):
        n = 6 if rt == "L" else 7
        for t in r[n:]:
          if t.startswith("ID:Z:"):
            # `*` is the placeholder, not an identifier, also in a Z tag
            return None if t[5:] == "*" else t[5:]
      return None
    if rt in ("S", "E", "G", "O", "U"):
      return None if r[1] == "*" else r[1]
    return None

  def names(self):
    return [self.ident(r) for r in self.recs if self.ident(r) is not None]

  def find(self, name):
    for r in self.recs:
      if self.ident(r) == name:
        return r
    return None

  # --------------------------------------------------------------- mentions
  def mentions(self, r):
    """list of (identifier, expected record types) the record mentions"""
    rt = r[0]
    if self.version == "gfa1":
      if rt in ("L", "C"):
        return [(r[1], "S"), (r[3], "S")]
      if rt == "P":
        return [(split_o(x)[0], "S") for x in r[2].split(",")]
      return []
    if rt in ("E", "G"):
      return [(split_o(r[2])[0], "S"), (split_o(r[3])[0], "S")]
    if rt == "F":
      return [(r[1], "S")]
    if rt == "O":
      return [(split_o(x)[0], "SEGO") for x in r[2].split(" ") if x]
    if rt == "U":
      return [(x, "SEGOU") for x in r[2].split(" ") if x]
    return []

  def mentioned(self):
    out = set()
    for r in self.recs:
      for n, _ in self.mentions(r):
        out.add(n)
    return out

  def undefined(self):
    d = set(self.names())
    return set(n for n in self.mentioned() if n not in d)

  # path -> required links (GFA1)
  def path_pairs(self, r):
    segs = [split_o(x) for x in r[2].split(",")]
    ovs = r[3].split(",")
    if len(segs) == 1:
      return []
    undef = len(ovs) == 1 and ovs[0] == "*"
    circular = (not undef) and len(ovs) == len(segs)
    pairs = []
    for i in range(len(segs)):
      j = i + 1
      if j == len(segs):
        if circular:
          j = 0
        else:
          break
      pairs.append((segs[i], segs[j], "*" if undef else ovs[i]))
    return pairs

  def link_matches(self, l, pair):
    (a, ao), (b, bo), ov = pair
    for form in link_forms(l):
      if form[:4] == (a, ao, b, bo):
        if form[4] == "*" or ov == "*" or form[4] == ov:
          return True
    return False

  def required_links_missing(self):
    """canonical (from,fo,to,to_o) of path steps no link record supports"""
    out = set()
    links = [r for r in self.recs if r[0] == "L"]
    for r in self.recs:
      if r[0] == "P" and self.version == "gfa1":
        for pair in self.path_pairs(r):
          if not any(self.link_matches(l, pair) for l in links):
            (a, ao), (b, bo), ov = pair
            out.add(min((a, ao, b, bo), (b, inv(bo), a, inv(ao))))
    return out

  # ---------------------------------------------------------------- legality
  def degenerate(self):
    """a group whose last item was dropped (left open by the property)"""
    return any(r[0] in ("O", "U") and self.version == "gfa2" and not r[2]
               for r in self.recs)

  def well_typed(self):
    for r in self.recs:
      for n, types in self.mentions(r):
        t = self.find(n)
        if t is not None and t[0] not in types:
          return False
    return True

  def add(self, text):
    f = text.split("\t")
    ok, why = grammar.line_ok(f, self.version)
    if not ok:
      raise Illegal("ungrammatical: " + str(why))
    if f[0] == "H" or f[0].startswith("#"):
      self.recs.append(f)
      return
    name = self.ident(f)
    if f[0] == "L":
      for r in self.recs:
        if r[0] == "L" and canon_link(r)[:4] == canon_link(f)[:4]:
          a, b = canon_link(r)[4], canon_link(f)[4]
          if a == b or a == "*" or b == "*":
            raise Illegal("equal or complement link (merge left open)")
    if name is not None:
      prev = self.find(name)
      if prev is not None:
        if prev[0] == f[0] and f[0] in ("O", "U"):
          raise Illegal("multi-line group (C17)")
        raise Illegal("identifier in use")
    self.recs.append(f)
    if not self.well_typed():
      self.recs.pop()
      raise Illegal("ill-typed reference")

  def _dependants(self, r):
    """records that must go when r goes (one step)"""
    rt = r[0]
    name = self.ident(r)
    out = []
    if self.version == "gfa1":
      if rt == "S":
        for x in self.recs:
          if x is r:
            continue
          if x[0] in ("L", "C") and name in (x[1], x[3]):
            out.append(x)
          if x[0] == "P" and any(n == name for n, _ in self.mentions(x)):
            out.append(x)
      elif rt == "L":
        for x in self.recs:
          if x[0] == "P" and any(self.link_matches(r, p)
                                 for p in self.path_pairs(x)):
            # the path only depends on this link if no other link supports
            # the step -- gfapy binds the path to ONE link object; which one
            # is left open when there are parallel candidates
            out.append(x)
      return out
    if rt == "S":
      for x in self.recs:
        if x is r:
          continue
        if x[0] in ("E", "G", "F", "O", "U") and \
            any(n == name for n, _ in self.mentions(x)):
          out.append(x)
    elif rt in ("E", "O", "U") and name is not None:
      for x in self.recs:
        if x is r:
          continue
        if x[0] in ("O", "U") and any(n == name for n, _ in self.mentions(x)):
          out.append(x)
    return out

  def rm_record(self, r):
    gone = []
    stack = [r]
    while stack:
      x = stack.pop()
      if any(x is g for g in gone):
        continue
      gone.append(x)
      stack.extend(self._dependants(x))
    # a removed gap is dropped from the sets that list it
    gap_names = [self.ident(g) for g in gone if g[0] == "G" and self.ident(g)]
    self.recs = [x for x in self.recs if not any(x is g for g in gone)]
    for x in self.recs:
      if x[0] == "U" and gap_names:
        items = [i for i in x[2].split(" ") if i not in gap_names]
        x[2] = " ".join(items)
      if x[0] == "O" and gap_names:
        items = [i for i in x[2].split(" ") if split_o(i)[0] not in gap_names]
        x[2] = " ".join(items)
    return gone

  def rm(self, name):
    r = self.find(name)
    if r is None:
      raise Illegal("no such identifier")
    return self.rm_record(r)

  def find_text(self, text):
    for r in self.recs:
      if "\t".join(r) == text:
        return r
    raise Illegal("no such record")

  def rename(self, old, new):
    r = self.find(old)
    if r is None:
      raise Illegal("no such identifier")
    if new in self.names() or new in self.mentioned():
      raise Illegal("target identifier in use or mentioned")
    for x in self.recs:
      self._subst(x, old, new)
    # the definition itself
    rt = r[0]
    if self.version == "gfa1" and rt in ("L", "C"):
      for i, t in enumerate(r):
        if t == "ID:Z:" + old:
          r[i] = "ID:Z:" + new
    else:
      r[1] = new

  def _subst(self, x, old, new):
    rt = x[0]
    if self.version == "gfa1":
      if rt in ("L", "C"):
        for i in (1, 3):
          if x[i] == old:
            x[i] = new
      elif rt == "P":
        x[2] = ",".join((new if split_o(e)[0] == old else split_o(e)[0]) +
                        split_o(e)[1] for e in x[2].split(","))
      return
    if rt in ("E", "G"):
      for i in (2, 3):
        if split_o(x[i])[0] == old:
          x[i] = new + split_o(x[i])[1]
    elif rt == "F":
      if x[1] == old:
        x[1] = new
    elif rt == "O":
      x[2] = " ".join((new if split_o(e)[0] == old else split_o(e)[0]) +
                      split_o(e)[1] for e in x[2].split(" "))
    elif rt == "U":
      x[2] = " ".join(new if e == old else e for e in x[2].split(" "))

  def set_tag(self, r, tag):
    n = tag.split(":")[0]
    for i, t in enumerate(r):
      if i > 0 and grammar.split_tag(t) and t.split(":")[0] == n:
        r[i] = tag
        return
    r.append(tag)

  def del_tag(self, r, name):
    r[:] = [t for i, t in enumerate(r)
            if not (i > 0 and grammar.split_tag(t) and t.split(":")[0] == name)]

  # ------------------------------------------------------------- comparison
  def canon_records(self):
    out = []
    for r in self.recs:
      out.append(canon_record(r, self.version))
    return sorted(out, key=repr)

  def text(self):
    return ["\t".join(r) for r in self.recs]


def canon_record(f, version):
  rt = f[0]
  if rt.startswith("#"):
    return ("#", "\t".join(f))
  if rt not in grammar.RECORDS[version]:
    return ("custom", tuple(f))
  npos = len(grammar.RECORDS[version][rt][0])
  pos = tuple(f[1:1 + npos])
  tags = tuple(sorted(f[1 + npos:]))
  if rt == "L":
    pos = canon_link(f)
  if rt == "H":
    return ("H", tags)
  return (rt, pos, tags)
