"""Reference model for GFA2 groups (C17).  Works on the TEXT of a document;
never imports gfapy.

The GFA2 specification describes O and U groups in two sentences, so several
readings of an item list are defensible.  The model computes the answer under
EVERY reading listed here and demands from the implementation only an outcome
that is acceptable under at least one of them (`combine`); where one reading
has no answer at all the verdict is "lenient" and only the validity of
whatever is returned is checked (`check_walk`).

Readings of an E line
  A  adjacency (DESIGN.md C17): `e+` joins {sid1, sid2}, `e-` joins
     {inv(sid1), inv(sid2)}, in either order;
  D  direction by field order: `e+` leads from sid1 to sid2, `e-` from
     inv(sid2) to inv(sid1).  Every D walk is an A walk.
  Whatever the direction of an edge is, it is one direction: an A walk that
  crosses an edge both ways (`a+ e1+ b+ e1+ a+`) is a walk under no directed
  reading, so an error is as acceptable as that walk ("either").

Captured walk of an O group: the minimal alternating walk segment / edge /
segment ... in which the elements of the item list occur in order, with
  - between two consecutive segments exactly one (edge, direction) supplied --
    none or several fitting is an error ("hard");
  - between two consecutive edges their shared junction supplied -- no shared
    segment is an error ("hard");
  - a segment next to an edge being an end of that edge; when it is NOT
    incident to the edge, the specification does not say what is meant, and
    the model abstains ("soft" failure -> lenient);
  - a leading edge supplying its two segments in either order (reading A);
  - a nested path inlined, reversed with every element inverted when it is
    referenced with `-`.  Readings of "inlined":
      T  the ITEMS of the nested group are inlined;
      C  its CAPTURED WALK is inlined, every element counting as mentioned;
      H  its captured walk is inlined, but an end segment that the nested
         group only implied (its first / last item is an edge) stays implied:
         a neighbouring segment item may name it, as after a plain edge item.
    They differ at the seams only (`O o1 e1+` / `O p o1+ b+`: T, H -> a+ e1+ b+;
    C -> error).  Which of several acceptable walks a nested path resolves to
    (start side of a leading edge) is a further free choice; each choice counts
    as a reading.

Induced set of a U group: every segment mentioned directly, through an edge
(both of its segments), through the captured walk of an O group or through a
nested set; plus every edge both of whose segments are inside.  A gap listed
in a set is not covered by the specification: with and without its two
segments are both accepted (and so is an error).

Several O (or U) lines with one identifier: items concatenated in arrival
order, tags united, a tag given two different values -> the later line is
refused (MergeConflict) and the document is unchanged.
"""
import itertools


class RefError(Exception):
  pass


class MergeConflict(RefError):
  pass


class Unsupported(RefError):
  """Input outside what the model covers (never raised inside the bounds the
  check enumerates)."""


def inv(o):
  return "-" if o == "+" else "+"


def oinv(x):
  return (x[0], inv(x[1]))


def osplit(s):
  return (s[:-1], s[-1])


def ostr(x):
  return x[0] + x[1]


class Group:
  def __init__(self, rt, name):
    self.rt = rt
    self.name = name
    self.items = []        # O: [(name, orient)]; U: [name]
    self.tags = {}         # tagname -> (type, text)
    self.nlines = 0


class Doc:
  """A GFA2 document as a namespace of records, built line by line."""

  def __init__(self, lines=()):
    self.kind = {}     # identifier -> 'S' 'E' 'G' 'O' 'U'
    self.edge = {}     # eid -> ((seg, o), (seg, o))
    self.gap = {}      # gid -> (seg, seg)
    self.group = {}    # id -> Group
    self.order = []    # identifiers in order of first definition
    for l in lines:
      self.add(l)

  def add(self, text):
    f = text.split("\t")
    rt = f[0]
    if rt == "H" or rt == "#":
      return
    if rt == "S":
      self._define(f[1], "S")
    elif rt == "E":
      self._define(f[1], "E")
      self.edge[f[1]] = (osplit(f[2]), osplit(f[3]))
    elif rt == "G":
      self._define(f[1], "G")
      self.gap[f[1]] = (osplit(f[2])[0], osplit(f[3])[0])
    elif rt in ("O", "U"):
      name = f[1]
      items = f[2].split(" ")
      if rt == "O":
        items = [osplit(x) for x in items]
      tags = {}
      for t in f[3:]:
        tn, ty, val = t.split(":", 2)
        if tn in tags:
          raise Unsupported("tag twice in one line")
        tags[tn] = (ty, val)
      prev = self.kind.get(name)
      if prev is None:
        self._define(name, rt)
        self.group[name] = Group(rt, name)
      elif prev != rt:
        raise Unsupported("identifier reused by another record type")
      g = self.group[name]
      for tn, v in tags.items():
        if tn in g.tags and g.tags[tn] != v:
          raise MergeConflict("tag {} defined as {} and as {}".format(
              tn, ":".join(g.tags[tn]), ":".join(v)))
      g.items = g.items + items
      g.tags.update(tags)
      g.nlines += 1
    else:
      raise Unsupported("record type " + rt)

  def _define(self, name, rt):
    if name in self.kind:
      raise Unsupported("identifier defined twice: " + name)
    self.kind[name] = rt
    self.order.append(name)

  def copy_state(self):
    return (dict(self.kind),
            {k: (g.rt, list(g.items), dict(g.tags)) for k, g in
             self.group.items()})


# --------------------------------------------------------------------------
# adjacency reading of E lines

def joins(doc, e, d):
  s1, s2 = doc.edge[e]
  return (s1, s2) if d == "+" else (oinv(s1), oinv(s2))


def joins_directed(doc, e, d):
  """Reading D (direction by field order): e+ leads from sid1 to sid2, e-
  from inv(sid2) to inv(sid1).  Returns (from, to)."""
  s1, s2 = doc.edge[e]
  return (s1, s2) if d == "+" else (oinv(s2), oinv(s1))


def fitting(doc, x, y, directed=False):
  """All (edge, direction) that join the oriented segments x and y (reading
  A), or that lead from x to y (reading D)."""
  want = sorted((x, y))
  out = []
  for e in sorted(doc.edge):
    for d in "+-":
      if directed:
        if joins_directed(doc, e, d) == (x, y):
          out.append((e, d))
      elif sorted(joins(doc, e, d)) == want:
        out.append((e, d))
  return out


# --------------------------------------------------------------------------
# strict minimal walks over a flat sequence of oriented segments and edges

HARD, SOFT = "hard", "soft"
PE = "#pe"   # pseudo-element (PE, bool): sets the "last segment is implied" flag


def _run(doc, walk, pe, rest, directed):
  """Deterministic continuation.  walk: list of (name, o); pe: the last
  element of `walk` was supplied by an edge item and not yet mentioned.
  Returns (walk or None, failure kind or None)."""
  for el in rest:
    if el[0] == PE:
      pe = el[1]
      continue
    k = doc.kind.get(el[0])
    if k == "S":
      if pe:
        if el != walk[-1]:
          # the other end of the edge (wrong side): hard; a segment that is
          # not an end of the preceding edge at all: the specification is
          # silent (soft)
          e = walk[-2]
          return None, (HARD if el in joins(doc, e[0], e[1]) else SOFT)
        pe = False
      else:
        fit = fitting(doc, walk[-1], el, directed)
        if len(fit) != 1:
          return None, HARD      # no edge, or ambiguous
        walk = walk + [fit[0], el]
    elif k == "E":
      if directed:
        j = joins_directed(doc, el[0], el[1])
        ok = walk[-1] == j[0]
        other = j[1]
      else:
        j = joins(doc, el[0], el[1])
        ok = walk[-1] in j
        other = j[1] if walk[-1] == j[0] else j[0]
      if not ok:
        # after an edge: consecutive edges share no junction (hard);
        # after a segment which is the far end of the edge (reading D): hard;
        # after a segment which is no end of the edge at all: soft
        inc = walk[-1] in joins(doc, el[0], el[1])
        return None, (HARD if pe or inc else SOFT)
      walk = walk + [el, other]
      pe = True
    else:
      raise Unsupported("flat element of kind {}".format(k))
  return walk, None


def strict_walks(doc, flat, directed=False):
  """(set of walks as tuples, some start side failed softly)"""
  walks = set()
  soft = False
  if not flat:
    return walks, soft
  first = flat[0]
  k = doc.kind.get(first[0])
  starts = []
  if k == "S":
    starts.append(([first], False))
  elif k == "E":
    if directed:
      j = joins_directed(doc, first[0], first[1])
      starts.append(([j[0], first, j[1]], True))
    else:
      j = joins(doc, first[0], first[1])
      starts.append(([j[0], first, j[1]], True))
      if j[0] != j[1]:
        starts.append(([j[1], first, j[0]], True))
  else:
    raise Unsupported("flat element of kind {}".format(k))
  for w, pe in starts:
    res, why = _run(doc, w, pe, flat[1:], directed)
    if res is not None:
      walks.add(tuple(res))
    elif why == SOFT:
      soft = True
  return walks, soft


def consistent(w):
  """No edge is crossed in both directions.  The adjacency reading leaves the
  direction of an edge open, but whatever it is, it is ONE direction: a walk
  x e+ y ... y e+ x (or x e+ y ... inv(x) e- inv(y)) is a walk under no
  directed reading of the E line."""
  seen = set()
  for i in range(1, len(w) - 1, 2):
    e, d = w[i]
    a, b = w[i - 1], w[i + 1]
    if d == "-":
      a, b = oinv(b), oinv(a)
    if a == b:
      continue
    if (e, b, a) in seen:
      return False
    seen.add((e, a, b))
  return True


def _classify(walks, soft):
  """("walks", W): one of W is demanded; ("either", W): the adjacency reading
  gives W but every member crosses an edge in both directions, so an error is
  as acceptable as a member of W; ("lenient", why); ("error", why)."""
  if walks:
    if any(consistent(w) for w in walks):
      return ("walks", frozenset(walks))
    return ("either", frozenset(walks))
  if soft:
    return ("lenient", "segment / edge not incident to its neighbour")
  return ("error", "non-contiguous or ambiguous")


def reverse_walk(w):
  return tuple(oinv(x) for x in reversed(w))


# --------------------------------------------------------------------------
# flattening of nested ordered groups

def undefined_ids(doc, name, seen=None):
  """Identifiers reachable from group `name` that no line defines."""
  seen = set() if seen is None else seen
  out = []
  if name in seen:
    return out
  seen.add(name)
  g = doc.group[name]
  for it in g.items:
    n = it[0] if g.rt == "O" else it
    k = doc.kind.get(n)
    if k is None:
      out.append(n)
    elif k in "OU":
      out.extend(undefined_ids(doc, n, seen))
  return out


def is_cyclic(doc, name, stack=()):
  if name in stack:
    return True
  g = doc.group.get(name)
  if g is None:
    return False
  for it in g.items:
    n = it[0] if g.rt == "O" else it
    if doc.kind.get(n) in ("O", "U") and is_cyclic(doc, n, stack + (name,)):
      return True
  return False


def flatten_items(doc, name):
  """Reading T: the explicit segments and edges an O group mentions, nested
  groups replaced by their own items (reversed and inverted for `-`)."""
  out = []
  for it in doc.group[name].items:
    k = doc.kind.get(it[0])
    if k == "O":
      sub = flatten_items(doc, it[0])
      if it[1] == "-":
        sub = [oinv(x) for x in reversed(sub)]
      out.extend(sub)
    elif k in ("S", "E"):
      out.append(it)
    else:
      raise Unsupported("item of kind {} in an ordered group".format(k))
  return out


def walks_T(doc, name, directed=False):
  return _classify(*strict_walks(doc, flatten_items(doc, name), directed))


def end_implied(doc, name, end):
  """Is the first (end=0) / last (end=-1) segment of the walk of O group
  `name` supplied by an edge item rather than mentioned?"""
  it = doc.group[name].items[end]
  k = doc.kind.get(it[0])
  if k == "E":
    return True
  if k == "O":
    return end_implied(doc, it[0], end if it[1] == "+" else (-1 - end))
  return False


def walks_C(doc, name, hybrid=False, directed=False):
  """Reading C: nested groups replaced by their captured walk.
  Reading H (hybrid=True): the same, but a last segment of the inlined walk
  that was only implied by an edge item of the nested group stays "implied":
  a following segment item may name it, as it may after a plain edge item."""
  parts = []        # list of lists of alternatives (each a tuple of elements)
  for it in doc.group[name].items:
    k = doc.kind.get(it[0])
    if k == "O":
      sub = walks_C(doc, it[0], hybrid, directed)
      if sub[0] == "lenient":
        return sub
      if sub[0] == "error":
        return ("error", "nested path invalid")
      alts = sorted(sub[1])
      if it[1] == "-":
        alts = [reverse_walk(w) for w in alts]
      if hybrid:
        imp = end_implied(doc, it[0], -1 if it[1] == "+" else 0)
        alts = [w + ((PE, imp),) for w in alts]
      if sub[0] == "either":
        alts = alts + [None]        # the nested path may also be an error
      parts.append(alts)
    elif k in ("S", "E"):
      parts.append([(it,)])
    else:
      raise Unsupported("item of kind {} in an ordered group".format(k))
  # Which of its acceptable walks a nested path resolves to is not demanded
  # (start side of a leading edge), so every choice is a reading of its own:
  # what is acceptable under any of them is acceptable.
  verdicts = []
  for choice in itertools.product(*parts):
    if any(part is None for part in choice):
      verdicts.append(("error", "nested path invalid"))
      continue
    flat = [x for part in choice for x in part]
    verdicts.append(_classify(*strict_walks(doc, flat, directed)))
  return combine(verdicts)


def combine(verdicts):
  """Acceptable outcomes under ANY of the readings."""
  for v in verdicts:
    if v[0] == "lenient":
      return v
  walks = set()
  err_ok = False
  for v in verdicts:
    if v[0] in ("walks", "either"):
      walks |= v[1]
    if v[0] in ("error", "either"):
      err_ok = True
  if not walks:
    return ("error", "non-contiguous or ambiguous")
  return ("either" if err_ok else "walks", frozenset(walks))


def captured(doc, name):
  """Verdict of the model for the captured path of O group `name`:
     ("unresolved", ids)   an item is not defined: an error is expected
     ("walks", frozenset)  one of exactly these walks is expected
     ("error", why)        an error is expected
     ("either", frozenset) an error or one of these walks (readings differ, or
                           the only walks cross an edge in both directions)
     ("lenient", why)      the specification is silent; only validity of
                           whatever is returned is demanded"""
  if is_cyclic(doc, name):
    return ("lenient", "cyclic group definition")
  und = undefined_ids(doc, name)
  if und:
    return ("unresolved", tuple(sorted(set(und))))
  return combine([f(doc, name, directed=d) for d in (False, True)
                  for f in (walks_T, walks_C, walks_H)])


def walks_H(doc, name, directed=False):
  return walks_C(doc, name, True, directed)


def _brief(v):
  if v[0] in ("walks", "either"):
    return "|".join(" ".join(ostr(x) for x in w) for w in sorted(v[1]))
  return v[0]


def check_walk(doc, name, walk):
  """Clause (i): is `walk` (list of (name, orient)) a valid alternating walk
  in which the explicit elements of the group occur in order?  Returns a list
  of problems (empty = valid)."""
  probs = []
  if len(walk) % 2 == 0:
    probs.append("length {} is even".format(len(walk)))
  for i, x in enumerate(walk):
    want = "S" if i % 2 == 0 else "E"
    if doc.kind.get(x[0]) != want:
      probs.append("position {} is {}, expected {}".format(
          i, doc.kind.get(x[0]), want))
    if x[1] not in "+-" or len(x[1]) != 1:
      probs.append("position {} has orientation {!r}".format(i, x[1]))
  if probs:
    return probs
  for i in range(1, len(walk) - 1, 2):
    e = walk[i]
    if sorted(joins(doc, e[0], e[1])) != sorted((walk[i - 1], walk[i + 1])):
      probs.append("{} does not join {} and {}".format(
          ostr(e), ostr(walk[i - 1]), ostr(walk[i + 1])))
  flat = flatten_items(doc, name)
  pos = 0
  for x in flat:
    while pos < len(walk) and walk[pos] != x:
      pos += 1
    if pos == len(walk):
      probs.append("items do not occur in order: {} missing after the "
                   "preceding items".format(ostr(x)))
      break
    pos += 1
  return probs


# --------------------------------------------------------------------------
# induced set of an unordered group

def induced(doc, name, _stack=()):
  """("unresolved", ids) | ("lenient", why) |
     ("sets", [ (frozenset segs, frozenset edges), ... ])  acceptable answers
  """
  if is_cyclic(doc, name):
    return ("lenient", "cyclic group definition")
  und = undefined_ids(doc, name)
  if und:
    return ("unresolved", tuple(sorted(set(und))))
  alts = _induced_segments(doc, name)
  if alts[0] != "segs":
    return alts
  out = []
  for segs in alts[1]:
    edges = frozenset(e for e, (s1, s2) in doc.edge.items()
                      if s1[0] in segs and s2[0] in segs)
    if (segs, edges) not in out:
      out.append((segs, edges))
  return ("sets", out)


def _induced_segments(doc, name):
  g = doc.group[name]
  alts = [frozenset()]
  for n in g.items:
    k = doc.kind[n]
    if k == "S":
      add = [frozenset([n])]
    elif k == "E":
      s1, s2 = doc.edge[n]
      add = [frozenset([s1[0], s2[0]])]
    elif k == "G":
      # not covered by the specification: nothing, or the gap's two segments
      add = [frozenset(), frozenset(doc.gap[n])]
    elif k == "O":
      v = captured(doc, n)
      if v[0] != "walks":
        return ("lenient", "nested path has no defined captured walk ({})"
                .format(v[0]))
      ss = set(frozenset(x[0] for x in w[0::2]) for w in v[1])
      add = sorted(ss, key=sorted)
    elif k == "U":
      sub = _induced_segments(doc, n)
      if sub[0] != "segs":
        return sub
      add = sub[1]
    else:
      raise Unsupported("item of kind {} in a set".format(k))
    nxt = []
    for a in alts:
      for b in add:
        if a | b not in nxt:
          nxt.append(a | b)
    alts = nxt
  return ("segs", alts)


def mentions_gap(doc, name, seen=None):
  seen = set() if seen is None else seen
  if name in seen:
    return False
  seen.add(name)
  g = doc.group[name]
  for it in g.items:
    n = it[0] if g.rt == "O" else it
    k = doc.kind.get(n)
    if k == "G":
      return True
    if k in ("O", "U") and mentions_gap(doc, n, seen):
      return True
  return False


# --------------------------------------------------------------------------
# self-test on the worked examples of gfapy's own suite and documentation
# (tests/test_api_references_groups.py, doc/tutorial/references.rst): data the
# repository already vouches for.

def selftest():
  T = "\t".join
  lines = [T(["S", n, "1000", "*"]) for n in "abcdef"]
  for n in ["a+b+", "b+c-", "c-d+", "e-c+", "a-f-", "f-b+"]:
    lines.append(T(["E", n, n[0:2], n[2:4], "0", "100", "0", "100", "*"]))
  lines += [T(["O", "p1", "p2- b+"]), T(["O", "p1", "c- e-c+-"]),
            T(["O", "p2", "f+ a+"])]
  d = Doc(lines)
  assert d.group["p1"].items == [("p2", "-"), ("b", "+"), ("c", "-"),
                                 ("e-c+", "-")]
  v = captured(d, "p2")
  assert v == ("walks", frozenset([(("f", "+"), ("a-f-", "-"), ("a", "+"))])), v
  v = captured(d, "p1")
  want = tuple(osplit(x) for x in
               "a- a-f-+ f- f-b++ b+ b+c-+ c- e-c+- e+".split(" "))
  assert v == ("walks", frozenset([want])), v
  assert check_walk(d, "p1", list(want)) == []
  lines = [T(["S", n, "1000", "*"]) for n in "abcdefg"]
  for n in ["a+b+", "b+c-", "c-d+", "e-c+", "a-f-"]:
    lines.append(T(["E", n, n[0:2], n[2:4], "0", "100", "0", "100", "*"]))
  lines += [T(["U", "set1", "b set2 c e-c+"]), T(["U", "set2", "g c-d+ path1"]),
            T(["O", "path1", "f+ a+"])]
  d = Doc(lines)
  v = induced(d, "set2")
  assert v == ("sets", [(frozenset("gcdfa"), frozenset(["c-d+", "a-f-"]))]), v
  v = induced(d, "set1")
  assert v == ("sets", [(frozenset("bgcdfae"), frozenset(
      ["a+b+", "b+c-", "c-d+", "e-c+", "a-f-"]))]), v
  d = Doc([T(["S", "s1", "100", "*"]), T(["S", "s2", "100", "*"]),
           T(["S", "s3", "100", "*"]),
           T(["E", "e1", "s1+", "s2-", "0", "10", "90", "100$", "*"]),
           T(["U", "u1", "s1 s2 s3"])])
  assert induced(d, "u1") == ("sets", [(frozenset(["s1", "s2", "s3"]),
                                       frozenset(["e1"]))])
  d = Doc([T(["U", "u", "a", "xx:i:1"])])
  try:
    d.add(T(["U", "u", "b", "xx:i:2"]))
    raise AssertionError("conflict not detected")
  except MergeConflict:
    pass
  assert d.group["u"].items == ["a"]
  return True
