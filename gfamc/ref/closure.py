"""Text-level reference model for arrival-order independence (C03).

Never imports gfapy.  Written from the GFA1 / GFA2 specifications as profiled
in gfapy's doc/tutorial/references.rst: which identifiers a record DEFINES,
which it MENTIONS (and through which field), when a document is
reference-closed, and what the reference graph of a closed document is --
all of it a function of the *set* of lines, never of their order.

A record is identified by its canonical text: the line as written, except that
a link is replaced by the smaller of its two complement forms (the GFA1
specification makes `L A + B + ov` and `L B - A - comp(ov)` the same edge).
"""
import re

TAG_RE = re.compile(r"^[A-Za-z][A-Za-z0-9]:[AifZJHB]:")
CIGAR_OP = re.compile(r"(\d+)([MIDNSHPX=])")


def inv(o):
  return "-" if o == "+" else "+"


def split(line):
  return line.split("\t")


def positional(f):
  """Fields of a line without its trailing tags."""
  n = len(f)
  while n > 1 and TAG_RE.match(f[n - 1]):
    n -= 1
  return f[:n], f[n:]


def tag_value(tags, name):
  for t in tags:
    if t.startswith(name + ":"):
      return t.split(":", 2)[2]
  return None


def cigar_complement(s):
  """Complement of a GFA1 overlap: operations reversed, I and D exchanged."""
  if s == "*":
    return s
  ops = CIGAR_OP.findall(s)
  if "".join(n + o for n, o in ops) != s:
    return s  # not a CIGAR: left alone
  sw = {"I": "D", "D": "I"}
  return "".join(n + sw.get(o, o) for n, o in reversed(ops))


def link_forms(line):
  """(as written, complement) of an L line, both as field lists."""
  f = split(line)
  comp = ["L", f[3], inv(f[4]), f[1], inv(f[2]), cigar_complement(f[5])] + f[6:]
  return f, comp


def link_canon(line):
  """(canonical text, flipped, selfcomplementary).  flipped: the canonical form
  is the complement of the text given."""
  f, c = link_forms(line)
  selfc = f[1:6] == c[1:6]
  if tuple(c[1:6]) < tuple(f[1:6]):
    return "\t".join(c), True, selfc
  return "\t".join(f), False, selfc


def canon(line):
  """Canonical text of any record."""
  if line.startswith("L\t"):
    return link_canon(line)[0]
  return line


def version_of(line):
  """'gfa1' | 'gfa2' | None (generic) from the syntax of one line."""
  rt = line.split("\t", 1)[0]
  if rt in ("L", "C", "P"):
    return "gfa1"
  if rt in ("E", "G", "F", "O", "U"):
    return "gfa2"
  if rt == "S":
    pos, _ = positional(split(line))
    return "gfa1" if len(pos) == 3 else "gfa2"
  if rt == "H":
    vn = tag_value(split(line)[1:], "VN")
    return {"1.0": "gfa1", "2.0": "gfa2"}.get(vn)
  if rt.startswith("#"):
    return None
  return "gfa2"  # custom record


def oriented(s):
  return s[:-1], s[-1]


class Rec:
  """One record: what it defines and what it mentions."""

  def __init__(self, line):
    self.text = line
    self.key = canon(line)
    f = split(line)
    self.rt = rt = f[0]
    pos, tags = positional(f)
    self.defines = None
    self.mentions = []     # (field, identifier, orient-or-None)
    self.pairs = []        # P only: consecutive oriented segment pairs
    self.overlaps = None
    if rt == "S":
      self.defines = f[1]
    elif rt in ("L", "C"):
      cf = split(self.key)
      self.mentions = [("from_segment", cf[1], None),
                       ("to_segment", cf[3], None)]
      idv = tag_value(tags, "ID")
      if idv is not None:
        self.defines = idv
      self.ends = (cf[1], cf[2], cf[3], cf[4])
      self.overlap = cf[5]
    elif rt == "P":
      self.defines = f[1]
      segs = [oriented(x) for x in f[2].split(",")]
      self.mentions = [("segment_names", n, o) for n, o in segs]
      self.pairs = [(segs[i], segs[i + 1]) for i in range(len(segs) - 1)]
      self.overlaps = f[3].split(",") if len(f) > 3 else ["*"]
      if len(segs) > 1 and self.overlaps != ["*"] and \
          len(self.overlaps) == len(segs):
        # as many overlaps as segments: circular, the last step closes it
        self.pairs.append((segs[-1], segs[0]))
    elif rt in ("E", "G"):
      if f[1] != "*":
        self.defines = f[1]
      for fld, v in (("sid1", f[2]), ("sid2", f[3])):
        n, o = oriented(v)
        self.mentions.append((fld, n, o))
    elif rt == "F":
      self.mentions = [("sid", f[1], None)]
    elif rt == "O":
      if f[1] != "*":
        self.defines = f[1]
      for x in f[2].split(" "):
        n, o = oriented(x)
        self.mentions.append(("items", n, o))
    elif rt == "U":
      if f[1] != "*":
        self.defines = f[1]
      for x in f[2].split(" "):
        self.mentions.append(("items", x, None))


# record types a mentioning field may resolve to
ALLOWED = {
    ("L", "from_segment"): "S", ("L", "to_segment"): "S",
    ("C", "from_segment"): "S", ("C", "to_segment"): "S",
    ("P", "segment_names"): "S",
    ("E", "sid1"): "S", ("E", "sid2"): "S",
    ("G", "sid1"): "S", ("G", "sid2"): "S",
    ("F", "sid"): "S",
    ("O", "items"): "SEO", ("U", "items"): "SEGOU",
}


def traversed(pair):
  """Canonical spelling of one step of a path: the oriented segment pair the
  path walks over, written as a 4-tuple."""
  (a, ao), (b, bo) = pair
  return (a, ao, b, bo)


def link_supports(link, pair, ov):
  """Does link record `link` (canonical ends) join the oriented pair, in either
  complement form, with an overlap compatible with `ov`?"""
  a, ao, b, bo = traversed(pair)
  direct = link.ends == (a, ao, b, bo)
  compl = link.ends == (b, inv(bo), a, inv(ao))
  if not (direct or compl):
    return False
  if ov == "*" or link.overlap == "*":
    return True
  return (direct and link.overlap == ov) or \
         (compl and link.overlap == cigar_complement(ov))


class Doc:
  """A document as a set of records (order-free by construction)."""

  def __init__(self, lines):
    self.lines = list(lines)
    self.recs = [Rec(l) for l in lines]
    self.by_id = {}
    self.dup_ids = False
    for r in self.recs:
      if r.defines is not None:
        if r.defines in self.by_id and self.by_id[r.defines].key != r.key:
          self.dup_ids = True
        self.by_id[r.defines] = r
    self.links = {}
    for r in self.recs:
      if r.rt == "L":
        self.links.setdefault(r.key, r)

  # -- validity -------------------------------------------------------------
  def open_links(self):
    """Two L lines on the same end pair whose overlaps are compatible but not
    equal (`*` against a specified CIGAR): whether that is one edge or two is
    left open by the specification, so such a document is outside 'valid
    documents'."""
    ls = list(self.links.values())
    for i in range(len(ls)):
      for j in range(i + 1, len(ls)):
        a, b = ls[i], ls[j]
        if a.ends == b.ends or a.ends == (b.ends[2], inv(b.ends[3]),
                                           b.ends[0], inv(b.ends[1])):
          if a.overlap == "*" or b.overlap == "*":
            return True
    return False

  def path_links(self, r):
    """For path r: per step the list of link records supporting it."""
    out = []
    undef = r.overlaps == ["*"]
    for i, pair in enumerate(r.pairs):
      ov = "*" if undef else (r.overlaps[i] if i < len(r.overlaps) else "*")
      out.append([l for l in self.links.values()
                  if link_supports(l, pair, ov)])
    return out

  def closed(self):
    """Every identifier mentioned is defined (by a record type the field may
    name) and every step of every path has exactly one supporting link."""
    for r in self.recs:
      for fld, n, o in r.mentions:
        t = self.by_id.get(n)
        if t is None or t.rt not in ALLOWED[(r.rt, fld)]:
          return False
      if r.rt == "P":
        for cands in self.path_links(r):
          if len(cands) != 1:
            return False
    return True

  def valid(self):
    return self.closed() and not self.dup_ids and not self.open_links()

  def has_reference(self):
    return any(r.mentions for r in self.recs)

  # -- prediction -----------------------------------------------------------
  def version(self):
    vs = set(version_of(l) for l in self.lines) - {None}
    if len(vs) == 1:
      return vs.pop()
    return None

  def predict(self):
    """Order-free prediction for a valid document: names, record multiset,
    per record the reference targets and the multiset of records referencing
    it (collections not distinguished)."""
    recs = {}
    for r in self.recs:
      recs.setdefault(r.key, r)      # a link and its complement: one record
    refs = {k: [] for k in recs}
    back = {k: [] for k in recs}
    for k, r in recs.items():
      for fld, n, o in r.mentions:
        t = self.by_id[n]
        refs[k].append([fld, t.key, o])
        back[t.key].append(k)
      if r.rt == "P":
        for pair, cands in zip(r.pairs, self.path_links(r)):
          l = cands[0]
          refs[k].append(["links", l.key, list(traversed(pair))])
          back[l.key].append(k)
    return {"version": self.version(),
            "names": sorted(self.by_id),
            "records": sorted(recs),
            "refs": {k: sorted(v, key=repr) for k, v in refs.items()},
            "back": {k: sorted(v) for k, v in back.items()}}


def dependencies(lines):
  """deps[i] = set of indices of the lines that line i names (definitions of
  the identifiers it mentions; for a path also the links it needs, in either
  complement form)."""
  d = Doc(lines)
  defs = {}
  for i, r in enumerate(d.recs):
    if r.defines is not None:
      defs.setdefault(r.defines, []).append(i)
  deps = []
  for i, r in enumerate(d.recs):
    s = set()
    for fld, n, o in r.mentions:
      s.update(defs.get(n, ()))
    if r.rt == "P":
      for cands in d.path_links(r):
        for l in cands:
          s.update(j for j, q in enumerate(d.recs) if q.key == l.key)
    s.discard(i)
    deps.append(s)
  return deps


def forward_reference(order, deps):
  """Does some line of this arrival order (a permutation of line indices)
  arrive before a line it names?  Used as the non-triviality rule."""
  pos = {li: p for p, li in enumerate(order)}
  for li, s in enumerate(deps):
    for j in s:
      if pos[j] > pos[li]:
        return True
  return False


def closed_subsets(universe, kmax):
  """All subsets of `universe` with at most kmax lines, in order of size then
  index, with their classification: 'valid' | 'open' | 'unclosed'."""
  import itertools
  n = len(universe)
  for k in range(0, kmax + 1):
    for idx in itertools.combinations(range(n), k):
      lines = [universe[i] for i in idx]
      d = Doc(lines)
      if not d.closed() or d.dup_ids:
        yield idx, lines, "unclosed"
      elif d.open_links():
        yield idx, lines, "open"
      else:
        yield idx, lines, "valid"
