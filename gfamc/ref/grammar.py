"""Independent recogniser for the text-level grammar of GFA1 / GFA2 as
profiled by gfapy's documentation.  Never imports gfapy.

Everything is anchored with fullmatch.  `accepts_*` functions return
(True, None) or (False, reason)."""
import re

PRINT = r"[!-~]"
NAME1 = r"[!-)+-<>-~][!-~]*"          # GFA1 segment / path name
INT = r"[-+]?[0-9]+"
UINT = r"[0-9]+"
FLOAT = r"[-+]?[0-9]*\.?[0-9]+([eE][-+]?[0-9]+)?"
CIGAR1 = r"([0-9]+[MIDNSHPX=])+"
CIGAR2 = r"([0-9]+[MIDP])+"
TRACE = r"[0-9]+(,[0-9]+)*"

B_RANGE = {"c": (-2**7, 2**7 - 1), "C": (0, 2**8 - 1),
           "s": (-2**15, 2**15 - 1), "S": (0, 2**16 - 1),
           "i": (-2**31, 2**31 - 1), "I": (0, 2**32 - 1)}


def fm(rx, s):
  return re.fullmatch(rx, s) is not None


# ---------------------------------------------------------------- strict JSON
class _JErr(Exception):
  pass


def _ws(s, i):
  while i < len(s) and s[i] in " \t\n\r":
    i += 1
  return i


def _jvalue(s, i, depth):
  if depth > 200:
    raise _JErr("too deep")
  i = _ws(s, i)
  if i >= len(s):
    raise _JErr("eof")
  c = s[i]
  if c == "{":
    i = _ws(s, i + 1)
    obj = {}
    if i < len(s) and s[i] == "}":
      return obj, i + 1
    while True:
      i = _ws(s, i)
      if i >= len(s) or s[i] != '"':
        raise _JErr("key")
      k, i = _jstring(s, i)
      i = _ws(s, i)
      if i >= len(s) or s[i] != ":":
        raise _JErr("colon")
      v, i = _jvalue(s, i + 1, depth + 1)
      obj[k] = v
      i = _ws(s, i)
      if i < len(s) and s[i] == ",":
        i += 1
        continue
      if i < len(s) and s[i] == "}":
        return obj, i + 1
      raise _JErr("object")
  if c == "[":
    i = _ws(s, i + 1)
    arr = []
    if i < len(s) and s[i] == "]":
      return arr, i + 1
    while True:
      v, i = _jvalue(s, i, depth + 1)
      arr.append(v)
      i = _ws(s, i)
      if i < len(s) and s[i] == ",":
        i += 1
        continue
      if i < len(s) and s[i] == "]":
        return arr, i + 1
      raise _JErr("array")
  if c == '"':
    return _jstring(s, i)
  for lit, val in (("true", True), ("false", False), ("null", None)):
    if s.startswith(lit, i):
      return val, i + len(lit)
  m = re.compile(r"-?(0|[1-9][0-9]*)(\.[0-9]+)?([eE][-+]?[0-9]+)?").match(s, i)
  if m:
    t = m.group(0)
    if m.group(2) or m.group(3):
      return float(t), m.end()
    return int(t), m.end()
  raise _JErr("value")


def _jstring(s, i):
  assert s[i] == '"'
  i += 1
  out = []
  while True:
    if i >= len(s):
      raise _JErr("unterminated string")
    c = s[i]
    if c == '"':
      return "".join(out), i + 1
    if ord(c) < 0x20:
      raise _JErr("control char")
    if c == "\\":
      if i + 1 >= len(s):
        raise _JErr("escape")
      e = s[i + 1]
      if e in '"\\/':
        out.append(e); i += 2
      elif e in "bfnrt":
        out.append({"b": "\b", "f": "\f", "n": "\n", "r": "\r", "t": "\t"}[e])
        i += 2
      elif e == "u":
        hx = s[i + 2:i + 6]
        if not fm(r"[0-9a-fA-F]{4}", hx):
          raise _JErr("unicode escape")
        out.append(chr(int(hx, 16))); i += 6
      else:
        raise _JErr("escape")
    else:
      out.append(c); i += 1


def json_parse(s):
  """Strict RFC 8259 parse; returns (ok, value)."""
  try:
    v, i = _jvalue(s, 0, 0)
    i = _ws(s, i)
    if i != len(s):
      return False, None
    return True, v
  except (_JErr, RecursionError):
    return False, None


# ---------------------------------------------------------------- tag values
def tag_value_ok(t, s):
  if t == "A":
    return fm(PRINT, s)
  if t == "i":
    return fm(INT, s)
  if t == "f":
    return fm(FLOAT, s) and float_in_range(s)
  if t == "Z":
    return fm(r"[ !-~]+", s)
  if t == "J":
    if not fm(r"[ !-~]+", s):
      return False
    ok, v = json_parse(s)
    return ok and isinstance(v, (list, dict))
  if t == "H":
    return fm(r"([0-9A-F][0-9A-F])+", s)
  if t == "B":
    return b_ok(s)
  return False


def float_in_range(s):
  """value range of the datatype: a finite IEEE double"""
  v = float(s)
  return v == v and v not in (float("inf"), -float("inf"))


def b_ok(s):
  if fm(r"f(," + FLOAT + r")+", s):
    return all(float_in_range(e) for e in s.split(",")[1:])
  m = re.fullmatch(r"([cCsSiI])((,[-+]?[0-9]+)+)", s)
  if not m:
    return False
  st = m.group(1)
  lo, hi = B_RANGE[st]
  for e in m.group(2)[1:].split(","):
    if st.isupper() and e.startswith("-"):
      return False
    v = int(e)
    if v < lo or v > hi:
      return False
  return True


def decode_tag(t, s):
  """Value of a grammatical tag, for comparison by value."""
  if t in "AZ":
    return (t, s)
  if t == "i":
    return (t, int(s))
  if t == "f":
    return (t, float(s))
  if t == "J":
    return (t, canon_json(json_parse(s)[1]))
  if t == "H":
    return (t, s.upper())
  if t == "B":
    e = s.split(",")
    if e[0] == "f":
      return (t, "f", tuple(float(x) for x in e[1:]))
    return (t, "int", tuple(int(x) for x in e[1:]))
  return (t, s)


def canon_json(v):
  import json
  return json.dumps(v, sort_keys=True)


TAG_RX = re.compile(r"([A-Za-z][A-Za-z0-9]):([AifZJHB]):(.+)", re.S)


def split_tag(s):
  m = TAG_RX.fullmatch(s)
  if not m:
    return None
  return m.group(1), m.group(2), m.group(3)


# ------------------------------------------------------- positional datatypes
def pos_ok(dt, s):
  if dt == "segment_name_gfa1":
    return fm(NAME1, s) and re.search(r"[+-],", s) is None
  if dt == "path_name_gfa1":
    return fm(NAME1, s)
  if dt == "sequence_gfa1":
    return s == "*" or fm(r"[A-Za-z=.]+", s)
  if dt == "orientation":
    return s in ("+", "-")
  if dt == "alignment_gfa1":
    return s == "*" or fm(CIGAR1, s)
  if dt == "alignment_list_gfa1":
    return all(x == "*" or fm(CIGAR1, x) for x in s.split(",")) and s != ""
  if dt == "position_gfa1":
    return fm(UINT, s)
  if dt == "oriented_identifier_list_gfa1":
    if s == "":
      return False
    for e in s.split(","):
      if not fm(NAME1 + r"[+-]", e):
        return False
    return True
  if dt == "identifier_gfa2":
    return fm(r"[!-~]+", s)
  if dt == "optional_identifier_gfa2":
    return fm(r"[!-~]+", s)
  if dt == "oriented_identifier_gfa2":
    return fm(r"[!-~]+[+-]", s)
  if dt == "identifier_list_gfa2":
    return fm(r"[!-~]+( [!-~]+)*", s)
  if dt == "oriented_identifier_list_gfa2":
    return fm(r"[!-~]+[+-]( [!-~]+[+-])*", s)
  if dt == "position_gfa2":
    return fm(r"[0-9]+\$?", s)
  if dt == "alignment_gfa2":
    return s == "*" or fm(CIGAR2, s) or fm(TRACE, s)
  if dt == "sequence_gfa2":
    return fm(r"[!-~]+", s)
  if dt == "i":
    return fm(INT, s)
  if dt == "optional_integer":
    return s == "*" or fm(INT, s)
  if dt == "generic":
    return "\t" not in s and "\n" not in s
  if dt == "custom_record_type":
    return fm(r"[!-~]+", s) and s not in ("E", "G", "F", "O", "U", "H", "#", "S")
  if dt == "comment":
    return "\n" not in s
  raise KeyError(dt)


# ------------------------------------------------------------------- records
RECORDS = {
    "gfa1": {
        "H": ([], {"VN": "Z", "TS": "i"}),
        "S": ([("name", "segment_name_gfa1"), ("sequence", "sequence_gfa1")],
              {"LN": "i", "RC": "i", "FC": "i", "KC": "i", "SH": "H", "UR": "Z"}),
        "L": ([("from_segment", "segment_name_gfa1"), ("from_orient", "orientation"),
               ("to_segment", "segment_name_gfa1"), ("to_orient", "orientation"),
               ("overlap", "alignment_gfa1")],
              {"MQ": "i", "NM": "i", "RC": "i", "FC": "i", "KC": "i", "ID": "Z"}),
        "C": ([("from_segment", "segment_name_gfa1"), ("from_orient", "orientation"),
               ("to_segment", "segment_name_gfa1"), ("to_orient", "orientation"),
               ("pos", "position_gfa1"), ("overlap", "alignment_gfa1")],
              {"MQ": "i", "NM": "i", "ID": "Z"}),
        "P": ([("path_name", "path_name_gfa1"),
               ("segment_names", "oriented_identifier_list_gfa1"),
               ("overlaps", "alignment_list_gfa1")], {}),
    },
    "gfa2": {
        "H": ([], {"VN": "Z", "TS": "i"}),
        "S": ([("sid", "identifier_gfa2"), ("slen", "i"),
               ("sequence", "sequence_gfa2")],
              {"RC": "i", "FC": "i", "KC": "i", "SH": "H", "UR": "Z"}),
        "E": ([("eid", "optional_identifier_gfa2"),
               ("sid1", "oriented_identifier_gfa2"),
               ("sid2", "oriented_identifier_gfa2"),
               ("beg1", "position_gfa2"), ("end1", "position_gfa2"),
               ("beg2", "position_gfa2"), ("end2", "position_gfa2"),
               ("alignment", "alignment_gfa2")], {"TS": "i"}),
        "F": ([("sid", "identifier_gfa2"), ("external", "oriented_identifier_gfa2"),
               ("s_beg", "position_gfa2"), ("s_end", "position_gfa2"),
               ("f_beg", "position_gfa2"), ("f_end", "position_gfa2"),
               ("alignment", "alignment_gfa2")], {"TS": "i"}),
        "G": ([("gid", "optional_identifier_gfa2"),
               ("sid1", "oriented_identifier_gfa2"),
               ("sid2", "oriented_identifier_gfa2"),
               ("disp", "i"), ("var", "optional_integer")], {}),
        "O": ([("pid", "optional_identifier_gfa2"),
               ("items", "oriented_identifier_list_gfa2")], {}),
        "U": ([("pid", "optional_identifier_gfa2"),
               ("items", "identifier_list_gfa2")], {}),
    },
}


def posval(s):
  """(value, is_last) of a GFA2 position."""
  if s.endswith("$"):
    return int(s[:-1]), True
  return int(s), False


def line_ok(fields, version):
  """Is the tab-split line grammatical for `version` ('gfa1'|'gfa2'), taken in
  isolation (no document rules)?  Returns (bool, reason)."""
  if not fields or fields[0] == "":
    return False, "empty"
  rt = fields[0]
  if rt.startswith("#"):
    return True, None
  recs = RECORDS[version]
  if rt not in recs:
    if version == "gfa1":
      return False, "unknown record type in GFA1"
    return custom_ok(fields)
  pos, predefined = recs[rt]
  if len(fields) - 1 < len(pos):
    return False, "too few positional fields"
  for (n, dt), s in zip(pos, fields[1:]):
    if not pos_ok(dt, s):
      return False, "field {} ({})".format(n, dt)
  seen = set()
  for s in fields[1 + len(pos):]:
    t = split_tag(s)
    if t is None:
      return False, "tag syntax"
    n, dt, v = t
    if n in seen or n in [p[0] for p in pos]:
      return False, "duplicate tag"
    seen.add(n)
    if n in predefined and predefined[n] != dt:
      return False, "predefined tag type"
    if not tag_value_ok(dt, v):
      return False, "tag value {}".format(dt)
  return cross_ok(rt, version, fields, pos)


def custom_ok(fields):
  if not pos_ok("custom_record_type", fields[0]):
    return False, "custom record type"
  if fields[0] in ("P", "C", "L"):
    return False, "GFA1 record in GFA2"
  # tags are recognised heuristically from the back; anything is a generic
  # positional field, so only tabs/newlines are excluded (already split)
  for s in fields[1:]:
    if "\n" in s:
      return False, "newline"
  return True, None


def cross_ok(rt, version, fields, pos):
  d = {n: s for (n, dt), s in zip(pos, fields[1:])}
  tags = {}
  for s in fields[1 + len(pos):]:
    n, dt, v = split_tag(s)
    tags[n] = (dt, v)
  if version == "gfa1" and rt == "S":
    if d["sequence"] != "*" and "LN" in tags:
      if int(tags["LN"][1]) != len(d["sequence"]):
        return False, "LN != sequence length"
  if version == "gfa1" and rt == "P":
    nseg = len(d["segment_names"].split(","))
    ov = d["overlaps"].split(",")
    nov = len(ov)
    if not (nov == nseg - 1 or nov == nseg or (nov == 1 and ov[0] == "*")):
      return False, "path overlap count"
  if version == "gfa2" and rt in ("E", "F"):
    pairs = [("beg1", "end1"), ("beg2", "end2")] if rt == "E" else \
            [("s_beg", "s_end"), ("f_beg", "f_end")]
    for b, e in pairs:
      bv, bl = posval(d[b])
      ev, el = posval(d[e])
      if bv > ev:
        return False, "begin > end"
      if bl and not el:
        # begin carries `$`, end (>= begin, hence also the last position)
        # does not: the property only says "`$` only on a last position";
        # whether `$` is mandatory there is left open -> abstain
        return None, "abstain: $ on begin only"
  return True, None
