"""Reference model for GFA edges (text level; never imports gfapy).

Written from the GFA1 / GFA2 specifications as profiled by gfapy's
documentation (doc/tutorial/references.rst, positions.rst, alignments.rst):

* orientation -> segment end of an L line,
* kind of an interval (beg, end) against a segment length,
* classification of an E line (dovetail / containment / internal) and the
  segment collection in which each of its two sides is filed,
* filing of a G line,
* complement of a link on its text,
* CIGAR reference / query lengths,
* L / C <=> E coordinate arithmetic and the direction of the alignment,
* P <=> O.

All functions work on strings, ints and tuples.  A *link* is the 5-tuple
(from, from_orient, to, to_orient, overlap_text); an *E line* is the 8-tuple
(eid, sid1, o1, sid2, o2, (beg1, end1, beg2, end2) as position texts,
alignment text) -- see the named constructors below.
"""
import re


class RefError(Exception):
  """The input is outside what the reference model defines."""


INV = {"+": "-", "-": "+", "L": "R", "R": "L"}

# ---------------------------------------------------------------------------
# orientation -> end (GFA1 L line: the overlap is at the END of the oriented
# from-sequence and at the BEGINNING of the oriented to-sequence; the end of
# the forward sequence is its right end, of the reverse complement its left)
# ---------------------------------------------------------------------------


def from_end(orient):
  return "R" if orient == "+" else "L"


def to_end(orient):
  return "L" if orient == "+" else "R"


def link_ends(link):
  """((from, end), (to, end)) of a link 5-tuple."""
  f, fo, t, to, _ = link
  return ((f, from_end(fo)), (t, to_end(to)))


# ---------------------------------------------------------------------------
# positions and interval kinds
# ---------------------------------------------------------------------------

_POS = re.compile(r"(0|[1-9][0-9]*)(\$?)")


def parse_pos(p):
  """'12' -> (12, False); '12$' -> (12, True); (v, last) passes through."""
  if isinstance(p, tuple):
    return p
  if isinstance(p, int):
    return (p, False)
  m = _POS.fullmatch(p)
  if m is None:
    raise RefError("not a position: {!r}".format(p))
  return (int(m.group(1)), m.group(2) == "$")


def fmt_pos(v, length):
  """GFA2 text of position v on a segment of the given length: the `$` sign
  is written exactly when the position is the end of the segment."""
  if v < 0 or v > length:
    raise RefError("position {} outside 0..{}".format(v, length))
  return "{}$".format(v) if v == length else str(v)


KINDS = ("epfx", "pfx", "whole", "inner", "einner", "sfx", "esfx")
KIND_NAMES = {"epfx": "empty prefix", "pfx": "prefix", "whole": "whole",
              "inner": "inner", "einner": "empty inner", "sfx": "suffix",
              "esfx": "empty suffix"}


def interval_kind(beg, end, length=None):
  """Kind of the interval [beg, end) of a segment.

  beg / end are position texts (or (value, is_last) pairs).  If `length` is
  given the `$` signs are checked against it (`$` iff the position equals the
  length).  Segments of length 0 (where 0 is both first and last position) are
  outside the model."""
  bv, bl = parse_pos(beg)
  ev, el = parse_pos(end)
  if length is not None:
    if length <= 0:
      raise RefError("segment length 0 is outside the model")
    for v, l in ((bv, bl), (ev, el)):
      if v > length or (v == length) != l:
        raise RefError("`$` does not agree with the segment length")
  if bv > ev:
    raise RefError("begin > end")
  if bl and not el:
    raise RefError("begin is last but end is not")
  if (bl or el) and (bv if bl else ev) == 0:
    raise RefError("segment length 0 is outside the model")
  if bv == 0:                      # touches the left end
    if ev == 0:
      return "epfx"
    return "whole" if el else "pfx"
  if bl:                           # beg == end == length
    return "esfx"
  if el:
    return "sfx"
  return "einner" if bv == ev else "inner"


def touched_end(kind):
  """'L' if an interval of this kind touches position 0 only, 'R' if it
  touches the last position only, 'W' for the whole segment, None if it
  touches neither end.  Independent of any orientation: positions are always
  forward-strand coordinates."""
  return {"epfx": "L", "pfx": "L", "sfx": "R", "esfx": "R", "whole": "W",
          "inner": None, "einner": None}[kind]


# ---------------------------------------------------------------------------
# E lines
# ---------------------------------------------------------------------------


def classify_e(o1, k1, o2, k2):
  """Classification of an E line with orientations o1, o2 and interval kinds
  k1, k2.  Returns a dict:

    kind  : 'dovetail' | 'containment' | 'internal'
    file  : (collection of sid1's segment, collection of sid2's segment)
    ends  : (end of segment 1, end of segment 2) for dovetails else None
    from  : 1 or 2 -- which side plays the role of a GFA1 `from` (dovetail:
            the side whose oriented sequence ENDS with the overlap;
            containment: the container) -- None for internal
  """
  t1, t2 = touched_end(k1), touched_end(k2)
  if t1 == "W" or t2 == "W":
    # a side aligned over its whole length is contained in the other one; if
    # both are whole the first is taken as the container (this is a
    # convention, anchored on the labels of gfa2_edges_classification.gfa)
    container = 1 if t2 == "W" else 2
    file = ("edges_to_contained", "edges_to_containers") if container == 1 \
        else ("edges_to_containers", "edges_to_contained")
    return {"kind": "containment", "file": file, "ends": None,
            "from": container}
  if t1 is not None and t2 is not None:
    # an overlap between sequence ends.  Oriented sequence x+ ends with its R
    # end and begins with its L end; x- ends with L and begins with R.  A
    # dovetail joins the END of one oriented sequence to the BEGINNING of the
    # other.
    def role(o, t):
      return "ends" if (o, t) in (("+", "R"), ("-", "L")) else "begins"
    r1, r2 = role(o1, t1), role(o2, t2)
    if r1 != r2:
      return {"kind": "dovetail",
              "file": ("dovetails_" + t1, "dovetails_" + t2),
              "ends": (t1, t2), "from": 1 if r1 == "ends" else 2}
  return {"kind": "internal", "file": ("internals", "internals"),
          "ends": None, "from": None}


AT_LABEL = {"dovetails_L": "dovetail_L", "dovetails_R": "dovetail_R",
            "internals": "internal", "edges_to_contained": "to_contained",
            "edges_to_containers": "to_container"}


def parse_e(text):
  """E line text -> dict(eid, sid1, o1, sid2, o2, pos=(b1,e1,b2,e2), aln,
  tags=[...])"""
  f = text.split("\t")
  if f[0] != "E" or len(f) < 9:
    raise RefError("not an E line: {!r}".format(text))
  return {"eid": f[1], "sid1": f[2][:-1], "o1": f[2][-1], "sid2": f[3][:-1],
          "o2": f[3][-1], "pos": tuple(f[4:8]), "aln": f[8], "tags": f[9:]}


def classify_e_line(e, lengths=None):
  """classify_e for a parsed E line; lengths: {segment: length} or None."""
  b1, e1, b2, e2 = e["pos"]
  k1 = interval_kind(b1, e1, None if lengths is None else lengths[e["sid1"]])
  k2 = interval_kind(b2, e2, None if lengths is None else lengths[e["sid2"]])
  c = classify_e(e["o1"], k1, e["o2"], k2)
  c["kinds"] = (k1, k2)
  return c


def selftest_labels(path):
  """Reproduce the at:Z: labels of gfa2_edges_classification.gfa (read as
  text).  Returns (n_checked, [mismatch descriptions])."""
  lengths, edges = {}, []
  with open(path) as f:
    for line in f:
      line = line.rstrip("\n")
      if line.startswith("S\t"):
        x = line.split("\t")
        lengths[x[1]] = int(x[2])
      elif line.startswith("E\t"):
        edges.append(line)
  bad, n = [], 0
  for line in edges:
    e = parse_e(line)
    lab = [t[5:] for t in e["tags"] if t.startswith("at:Z:")]
    if len(lab) != 1:
      continue
    n += 1
    c = classify_e_line(e, lengths)
    if (e["sid1"] == "a") == (e["sid2"] == "a"):
      bad.append("edge {} does not involve `a` exactly once".format(e["eid"]))
      continue
    side = 0 if e["sid1"] == "a" else 1
    got = AT_LABEL[c["file"][side]]
    if got != lab[0]:
      bad.append("{}: reference says {}, label says {}".format(
          e["eid"], got, lab[0]))
  return n, bad


# ---------------------------------------------------------------------------
# G lines: the gap lies between the END of oriented sid1 and the BEGINNING of
# oriented sid2, exactly like the two sides of an L line
# ---------------------------------------------------------------------------


def gap_filing(o1, o2):
  return ("gaps_" + from_end(o1), "gaps_" + to_end(o2))


# ---------------------------------------------------------------------------
# CIGAR
# ---------------------------------------------------------------------------

_CIG = re.compile(r"([0-9]+)([MIDNSHPX=])")
REF_OPS = "M=XDN"      # operations that consume the reference (SAM spec)
QUERY_OPS = "M=XIS"    # operations that consume the query


def cigar_parse(text):
  """'*' -> None; '2M1I' -> [(2,'M'),(1,'I')]"""
  if text == "*":
    return None
  if re.fullmatch(r"([0-9]+[MIDNSHPX=])+", text) is None:
    raise RefError("not a CIGAR: {!r}".format(text))
  return [(int(n), c) for n, c in _CIG.findall(text)]


def cigar_text(ops):
  if ops is None:
    return "*"
  return "".join("{}{}".format(n, c) for n, c in ops)


def cigar_reflen(text):
  ops = cigar_parse(text)
  if ops is None:
    raise RefError("placeholder has no length")
  return sum(n for n, c in ops if c in REF_OPS)


def cigar_querylen(text):
  ops = cigar_parse(text)
  if ops is None:
    raise RefError("placeholder has no length")
  return sum(n for n, c in ops if c in QUERY_OPS)


def cigar_complement(text):
  """The alignment seen from the other sequence, read from the other strand:
  operations in reverse order, insertions and deletions exchanged.  Defined
  for M I D P = X H (S and N have no exact counterpart)."""
  ops = cigar_parse(text)
  if ops is None:
    return "*"
  sw = {"I": "D", "D": "I"}
  for n, c in ops:
    if c in "SN":
      raise RefError("complement of S / N is outside the model")
  return cigar_text([(n, sw.get(c, c)) for n, c in reversed(ops)])


# ---------------------------------------------------------------------------
# links
# ---------------------------------------------------------------------------


def link_parse(text):
  f = text.split("\t")
  if f[0] != "L" or len(f) < 6:
    raise RefError("not an L line")
  return (f[1], f[2], f[3], f[4], f[5])


def link_text(link, tags=()):
  return "\t".join(("L",) + tuple(link) + tuple(tags))


def link_complement(link):
  f, fo, t, to, ov = link
  return (t, INV[to], f, INV[fo], cigar_complement(ov))


def link_same(a, b):
  return tuple(a) == tuple(b)


def link_is_complement(a, b):
  return tuple(a) == link_complement(b)


def link_same_edge(a, b):
  """Do a and b denote the same edge (equal or complement of each other)?"""
  return link_same(a, b) or link_is_complement(a, b)


def link_same_end_pair(a, b):
  """Same unordered pair of segment ends (overlap not considered)?"""
  ea, eb = link_ends(a), link_ends(b)
  return ea == eb or ea == (eb[1], eb[0])


def path_steps(segments):
  """[(name, orient), ...] of a P line's segment_names field text."""
  return [(x[:-1], x[-1]) for x in segments.split(",")]


def traversal(link, step_from, step_to):
  """How does a path step from oriented segment step_from=(name, orient) to
  step_to traverse `link`?  '+' = as written, '-' = as its complement, None =
  not at all.  A link that is its own complement position-wise (A+ -> A-)
  counts as traversed forwards."""
  f, fo, t, to, _ = link
  if (f, fo) == step_from and (t, to) == step_to:
    return "+"
  if (t, INV[to]) == step_from and (f, INV[fo]) == step_to:
    return "-"
  return None


# ---------------------------------------------------------------------------
# GFA1 <=> GFA2
# ---------------------------------------------------------------------------


def link_to_e(link, lengths, eid="*"):
  """E-line fields of an L line.  The from segment becomes sid1, the overlap
  is at the end of the oriented from sequence (its last `reflen` bases) and at
  the beginning of the oriented to sequence (its first `querylen` bases);
  GFA2 positions are forward-strand coordinates."""
  f, fo, t, to, ov = link
  r, q = cigar_reflen(ov), cigar_querylen(ov)
  lf, lt = lengths[f], lengths[t]
  if r > lf or q > lt:
    raise RefError("alignment longer than the segment")
  if fo == "+":
    b1, e1 = lf - r, lf
  else:
    b1, e1 = 0, r
  if to == "+":
    b2, e2 = 0, q
  else:
    b2, e2 = lt - q, lt
  return ("E", eid, f + fo, t + to, fmt_pos(b1, lf), fmt_pos(e1, lf),
          fmt_pos(b2, lt), fmt_pos(e2, lt), ov)


def containment_to_e(c, lengths, eid="*"):
  """c = (container, orient, contained, orient, pos, overlap)."""
  f, fo, t, to, pos, ov = c
  pos = int(pos)
  r = cigar_reflen(ov)
  lf, lt = lengths[f], lengths[t]
  if pos + r > lf:
    raise RefError("contained segment exceeds the container")
  return ("E", eid, f + fo, t + to, fmt_pos(pos, lf), fmt_pos(pos + r, lf),
          fmt_pos(0, lt), fmt_pos(lt, lt), ov)


def e_to_gfa1(e, lengths=None):
  """GFA1 counterpart of a parsed E line: ('L', from, fo, to, to_o, overlap)
  or ('C', container, co, contained, to_o, pos, overlap); None for an
  internal alignment.  The alignment is kept as it is when sid1 plays `from`
  and complemented otherwise."""
  c = classify_e_line(e, lengths)
  if c["kind"] == "internal":
    return None
  s = [(e["sid1"], e["o1"]), (e["sid2"], e["o2"])]
  if c["from"] == 1:
    fr, to, aln = s[0], s[1], e["aln"]
  else:
    fr, to, aln = s[1], s[0], cigar_complement(e["aln"])
  if c["kind"] == "dovetail":
    return ("L", fr[0], fr[1], to[0], to[1], aln)
  pos = e["pos"][0] if c["from"] == 1 else e["pos"][2]
  return ("C", fr[0], fr[1], to[0], to[1], str(parse_pos(pos)[0]), aln)


def proper_dovetail(link, lengths):
  """Is the overlap of the link a proper dovetail, i.e. does it cover neither
  segment completely?  (A link whose overlap spans a whole segment *is* a
  containment in GFA2 terms.)"""
  f, fo, t, to, ov = link
  return cigar_reflen(ov) < lengths[f] and cigar_querylen(ov) < lengths[t]


def path_to_o_items(segments, link_ids_orients):
  """Items of the O line of a P line: segments interleaved with the edges
  used (id + traversal orientation); circular paths close on the first
  segment."""
  steps = path_steps(segments)
  items = []
  n = len(steps)
  if n == 1:
    return [steps[0][0] + steps[0][1]]
  for i in range(n - 1):
    items.append(steps[i][0] + steps[i][1])
    items.append(link_ids_orients[i][0] + link_ids_orients[i][1])
  items.append(steps[-1][0] + steps[-1][1])
  if len(link_ids_orients) == n:
    items.append(link_ids_orients[-1][0] + link_ids_orients[-1][1])
    items.append(steps[0][0] + steps[0][1])
  return items


def all_cigars(ops, lengths, maxops):
  """Every CIGAR of 1..maxops operations over ops x lengths (adjacent equal
  operation codes allowed: 1M1M is a different text from 2M)."""
  alpha = [(n, c) for c in ops for n in lengths]
  out, level = [], [[]]
  for _ in range(maxops):
    level = [x + [a] for x in level for a in alpha]
    out.extend(cigar_text(x) for x in level)
  return out


# ---------------------------------------------------------------------------
# neighbourhoods of a whole (small) document, for C11
# ---------------------------------------------------------------------------

SEG_COLLECTIONS = ("dovetails_L", "dovetails_R", "edges_to_contained",
                   "edges_to_containers", "internals", "gaps_L", "gaps_R")


def line_key(fields):
  """Identity of an edge / gap line inside one document: its identifier if it
  has one, else its text."""
  rt = fields[0]
  if rt in "EG":
    if fields[1] != "*":
      return fields[1]
  elif rt in "LC":
    for t in fields[(6 if rt == "L" else 7):]:
      if t.startswith("ID:Z:"):
        return t[5:]
  return "\t".join(fields)


def doc_rename(lines, old, new):
  """Textual rename of segment `old` wherever it is mentioned (S, L, C, E, G
  lines of the small documents used by the checks)."""
  out = []
  for line in lines:
    f = line.split("\t")
    rt = f[0]
    if rt == "S":
      if f[1] == old:
        f[1] = new
    elif rt in "LC":
      for i in (1, 3):
        if f[i] == old:
          f[i] = new
    elif rt in "EG":
      for i in (2, 3):
        if f[i][:-1] == old:
          f[i] = new + f[i][-1]
    out.append("\t".join(f))
  return out


def doc_remove(lines, ident):
  """Remove the line with identifier `ident`; removing a segment removes the
  edges and gaps that mention it (documented cascade)."""
  out = []
  for line in lines:
    f = line.split("\t")
    rt = f[0]
    if rt == "S":
      if f[1] == ident:
        continue
    elif rt in "LC":
      if ident in (f[1], f[3]) or line_key(f) == ident:
        continue
    elif rt in "EG":
      if ident in (f[2][:-1], f[3][:-1]) or f[1] == ident:
        continue
    out.append(line)
  return out


def neighbourhoods(lines):
  """Expected neighbourhood structure of a document given as text lines
  (S / L / C / E / G; every mentioned segment defined).

  Returns (segs, edges):
    segs[name][collection] = sorted list of line keys, one entry per SIDE of
        an edge that is filed there (a hairpin self-edge appears twice in the
        same collection);
    edges[key] = {rt, kind, from, to, from_end, to_end, sides}
  """
  lengths, segs = {}, {}
  for line in lines:
    f = line.split("\t")
    if f[0] == "S":
      segs[f[1]] = {c: [] for c in SEG_COLLECTIONS}
      if len(f) > 3 and f[2].isdigit():          # GFA2 segment
        lengths[f[1]] = int(f[2])
  edges = {}
  for line in lines:
    f = line.split("\t")
    rt = f[0]
    if rt not in "LCEG":
      continue
    k = line_key(f)
    if k in edges:
      raise RefError("two lines with key {!r}".format(k))
    if rt == "L":
      fe, te = from_end(f[2]), to_end(f[4])
      info = {"rt": rt, "kind": "dovetail", "from": f[1], "to": f[3],
              "from_end": fe, "to_end": te,
              "sides": [(f[1], "dovetails_" + fe), (f[3], "dovetails_" + te)]}
    elif rt == "C":
      info = {"rt": rt, "kind": "containment", "from": f[1], "to": f[3],
              "from_end": None, "to_end": None,
              "sides": [(f[1], "edges_to_contained"),
                        (f[3], "edges_to_containers")]}
    elif rt == "G":
      c1, c2 = gap_filing(f[2][-1], f[3][-1])
      info = {"rt": rt, "kind": "gap", "from": None, "to": None,
              "from_end": None, "to_end": None,
              "sides": [(f[2][:-1], c1), (f[3][:-1], c2)]}
    else:
      e = parse_e(line)
      c = classify_e_line(e, lengths)
      s = [e["sid1"], e["sid2"]]
      info = {"rt": rt, "kind": c["kind"], "from": None, "to": None,
              "from_end": None, "to_end": None, "kinds": c["kinds"],
              "sides": [(s[0], c["file"][0]), (s[1], c["file"][1])]}
      if c["from"] is not None:
        fi = c["from"] - 1
        info["from"], info["to"] = s[fi], s[1 - fi]
        if c["kind"] == "dovetail":
          info["from_end"], info["to_end"] = c["ends"][fi], c["ends"][1 - fi]
    edges[k] = info
    for sname, coll in info["sides"]:
      if sname not in segs:
        raise RefError("segment {} not defined".format(sname))
      segs[sname][coll].append(k)
  for s in segs.values():
    for c in s:
      s[c].sort()
  return segs, edges


def other_names(edges, sname, keys):
  """Sorted names of the segments at the other side of the distinct edges
  `keys` seen from segment `sname` (the segment itself for a self-edge)."""
  out = []
  for k in sorted(set(keys)):
    a, b = edges[k]["sides"][0][0], edges[k]["sides"][1][0]
    out.append(b if a == sname else a)
  return sorted(out)
