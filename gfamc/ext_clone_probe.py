"""Clone of lines of a user-defined record type with references (the T / M
extension of doc/tutorial/custom_records.rst).  Run in a process of its own
(registering an extension changes how every later line is parsed); prints a
JSON list of [clause, detail]."""
import sys, os, json
sys.path.insert(0, os.path.realpath(os.environ.get("GFAMC_REPO", "/repo")))
import gfapy
from collections import OrderedDict


def main():
  class Taxon(gfapy.Line):
    RECORD_TYPE = "T"
    POSFIELDS = OrderedDict([("tid", "identifier_gfa2")])
    TAGS_DATATYPE = {"UL": "Z"}
    NAME_FIELD = "tid"
  Taxon.register_extension()

  class MetagenomicAssignment(gfapy.Line):
    RECORD_TYPE = "M"
    POSFIELDS = OrderedDict([("mid", "optional_identifier_gfa2"),
                             ("tid", "identifier_gfa2"),
                             ("sid", "identifier_gfa2")])
    TAGS_DATATYPE = {"SC": "i"}
    NAME_FIELD = "mid"
  MetagenomicAssignment.register_extension(references=[
      ("sid", gfapy.line.segment.GFA2, "metagenomic_assignments"),
      ("tid", Taxon, "metagenomic_assignments")])

  T = "\t".join
  doc = [T(["S", "sA", "10", "*"]), T(["S", "sB", "10", "*"]),
         T(["T", "t1", "UL:Z:u"]), T(["T", "t2"]),
         T(["M", "a1", "t1", "sA", "SC:i:40"]), T(["M", "*", "t2", "sB"]),
         T(["M", "a3", "t1", "sB", "xx:J:[1, 2]"])]
  probs = []
  for vlevel in (0, 1, 3):
    for order in (doc, list(reversed(doc))):
      g = gfapy.Gfa(order, version="gfa2", vlevel=vlevel)
      for l in list(g.lines):
        if l.record_type not in ("M", "T"):
          continue
        text = str(l)
        c = l.clone()
        where = "vlevel {} [{}]".format(vlevel, text.replace("\t", " "))
        if c.is_connected():
          probs.append(["clone-connected", where])
        if str(c) != text:
          probs.append(["clone-text", where + " -> " + str(c)])
        if not (c == l):
          probs.append(["clone-equal", where])
        for fn in l.positional_fieldnames:
          v = c.get(fn)
          if isinstance(v, gfapy.Line):
            probs.append(["clone-holds-line-of-the-gfa",
                          where + ": field " + fn + " of the clone is a Line"])
      # editing the Gfa never shows in a clone taken before
      ms = [l for l in g.lines if l.record_type == "M"]
      clones = [(m.clone(), str(m)) for m in ms]
      g.segment("sA").name = "sZ"
      g.line("t1").name = "t9"
      for c, text in clones:
        if str(c) != text:
          probs.append(["edit-original-changes-clone",
                        "vlevel {}: clone of [{}] reads [{}] after renames in "
                        "the Gfa".format(vlevel, text.replace("\t", " "),
                                         str(c).replace("\t", " "))])
      # a clone added to another Gfa leaves the first one alone
      before = sorted(str(x) for x in g.lines)
      nrefs = len(g.segment("sB").metagenomic_assignments)
      g2 = gfapy.Gfa(version="gfa2", vlevel=vlevel)
      for c, text in clones:
        g2.add_line(c)
      if sorted(str(x) for x in g.lines) != before or \
          len(g.segment("sB").metagenomic_assignments) != nrefs:
        probs.append(["edit-clone-changes-original",
                      "vlevel {}: adding the clones to a second Gfa changed "
                      "the first".format(vlevel)])
      for s in g2.segments:
        if s.gfa is not g2:
          probs.append(["edit-clone-changes-original",
                        "vlevel {}: the second Gfa refers to a segment of "
                        "the first".format(vlevel)])
  seen, out = set(), []
  for p in probs:
    if p[0] not in seen:
      seen.add(p[0])
      out.append(p)
  print("RESULT " + json.dumps(out))


if __name__ == "__main__":
  try:
    main()
  except gfapy.Error as e:
    print("RESULT " + json.dumps([["extension-probe-raises",
                                   type(e).__name__ + ": " + str(e)[:200]]]))
