"""Runner: tiers, worker pool, per-call time budget, evidence, replay files,
known-findings matching and the VIOLATION / KNOWN-FINDING protocol.

Usage (through /verif/check):
    check <Cnn> quick|thorough
    check <Cnn> --replay <file>

Exit status: 0 = property held on everything explored (known findings are
printed as KNOWN-FINDING lines), 1 = at least one violation that is not listed
in known_findings.json, 2 = harness error (never a verdict).
"""
import sys, os, json, time, hashlib, re, signal, importlib, traceback
import multiprocessing, subprocess, itertools

VERIF = os.path.dirname(os.path.dirname(os.path.abspath(__file__)))
REPO = os.environ.get("GFAMC_REPO", "/repo")
NPROC = int(os.environ.get("GFAMC_NPROC", "16"))
CALL_BUDGET_S = 5.0
MAX_REPORTED = 40        # distinct unmatched violations written out per run
MAX_KEPT = 4000          # violations kept in memory per run (all are counted)


class HarnessTimeout(BaseException):
  """Raised by the interval timer; deliberately not an Exception so that
  gfapy's bare `except:` clauses... still catch it (bare except catches
  BaseException), hence the flag below is what decides."""


_timed_out = [False]


def _on_alarm(signum, frame):
  _timed_out[0] = True
  raise HarnessTimeout()


class guard:
  """with guard(): <calls into gfapy>  -- bounded stand-in for termination."""
  def __init__(self, seconds=CALL_BUDGET_S):
    self.seconds = seconds
  def __enter__(self):
    _timed_out[0] = False
    signal.signal(signal.SIGALRM, _on_alarm)
    signal.setitimer(signal.ITIMER_REAL, self.seconds)
    return self
  def __exit__(self, et, ev, tb):
    signal.setitimer(signal.ITIMER_REAL, 0)
    return False


def timed_out():
  return _timed_out[0]


def fingerprint(clause, key):
  s = json.dumps([clause, key], sort_keys=True, ensure_ascii=True)
  return hashlib.sha1(s.encode()).hexdigest()[:12]


def mkviolation(clause, key, witness, expected, observed, standalone=""):
  """clause: oracle clause name; key: dict str->str identifying the minimal
  witness (matched against known_findings.json); witness: JSON-able replay
  input for the check's replay(); standalone: plain-gfapy script."""
  return {"clause": clause, "key": {k: str(v) for k, v in key.items()},
          "witness": witness, "expected": _j(expected), "observed": _j(observed),
          "standalone": standalone}


def _j(x):
  try:
    json.dumps(x)
    return x
  except Exception:
    return repr(x)


_pool = None


def _pool_init():
  signal.signal(signal.SIGINT, signal.SIG_IGN)


def get_pool():
  global _pool
  if _pool is None:
    ctx = multiprocessing.get_context("fork")
    _pool = ctx.Pool(NPROC, initializer=_pool_init, maxtasksperchild=None)
  return _pool


class Ctx:
  def __init__(self, pid, tier, seed):
    self.pid = pid
    self.tier = tier
    self.seed = seed
    self.t0 = time.time()
    self.evaluations = 0
    self.transitions = 0
    self.traces = 0
    self.states = set()
    self.nontrivial = set()
    self.outcomes = set()
    self.samples = []
    self.violations = []
    self.n_violations = 0
    self.caps = []
    self.extra = {}
    self.assumptions = []
    self.rule = ""
    self.alphabet = None
    self.bound_completed = None
    self.exhaustive = True
    self.deadline = None
    self.overflow = False
    self.slice = False

  @property
  def quick(self):
    return self.tier == "quick"

  def elapsed(self):
    return time.time() - self.t0

  def pmap(self, fn, items, chunksize=None):
    items = list(items)
    if not items:
      return []
    if NPROC <= 1 or len(items) < 4:
      return [fn(x) for x in items]
    if chunksize is None:
      chunksize = max(1, min(256, len(items) // (NPROC * 8) or 1))
    return get_pool().map(fn, items, chunksize)

  def pimap(self, fn, items, chunksize=None):
    """Unordered lazy parallel map (results as they come)."""
    items = list(items)
    if NPROC <= 1 or len(items) < 4:
      for x in items:
        yield fn(x)
      return
    if chunksize is None:
      chunksize = max(1, min(256, len(items) // (NPROC * 8) or 1))
    for r in get_pool().imap_unordered(fn, items, chunksize):
      yield r

  def merge(self, r):
    """Merge a worker result dict (see Result)."""
    self.evaluations += r.get("evaluations", 0)
    self.transitions += r.get("transitions", 0)
    self.traces += r.get("traces", 0)
    self.states.update(r.get("states", ()))
    self.nontrivial.update(r.get("nontrivial", ()))
    self.outcomes.update(r.get("outcomes", ()))
    for v in r.get("violations", ()):
      self.violation(v)
    for s in r.get("samples", ()):
      self.sample(s)

  def violation(self, v):
    self.n_violations += 1
    if len(self.violations) < MAX_KEPT:
      self.violations.append(v)
    else:
      self.overflow = True

  def sample(self, s):
    if len(self.samples) < 12:
      self.samples.append(s)
    else:
      # deterministic reservoir-ish replacement driven by the seed: only
      # affects which explored cases are *printed*, never what is explored
      h = int(hashlib.sha1((repr(s) + str(self.seed)).encode()).hexdigest(), 16)
      if h % 97 == 0:
        self.samples[h % 12] = s

  def cap(self, what):
    self.caps.append(what)
    self.exhaustive = False


def new_result():
  return {"evaluations": 0, "transitions": 0, "traces": 0, "states": set(),
          "nontrivial": set(), "outcomes": set(), "violations": [],
          "samples": []}


def h(x):
  """Short stable hash of a canonical (JSON-able or repr-able) value."""
  if not isinstance(x, str):
    x = json.dumps(x, sort_keys=True, default=repr)
  return hashlib.blake2b(x.encode("utf-8", "surrogatepass"),
                         digest_size=8).hexdigest()


def load_known():
  p = os.path.join(VERIF, "known_findings.json")
  if not os.path.exists(p):
    return []
  with open(p) as f:
    return json.load(f).get("entries", [])


def kf_matches(entry, pid, v):
  if entry.get("status") != "known" or entry.get("property") != pid:
    return False
  if entry.get("clause") != v["clause"]:
    return False
  m = entry.get("match", {})
  for k, rx in m.items():
    val = v["key"].get(k)
    if val is None:
      return False
    if re.fullmatch(rx, val, re.S) is None:
      return False
  return True


def write_replay(pid, v):
  d = os.path.join(os.environ.get("GFAMC_REPLAY_DIR") or
                   os.path.join(VERIF, "replays"), pid)
  os.makedirs(d, exist_ok=True)
  fp = fingerprint(v["clause"], v["key"])
  path = os.path.join(d, fp + ".json")
  doc = {"property": pid, "clause": v["clause"], "key": v["key"],
         "witness": v["witness"], "expected": v["expected"],
         "observed": v["observed"], "standalone": v["standalone"],
         "hashseed": os.environ.get("PYTHONHASHSEED"),
         "replay_cmd": "./check {} --replay {}".format(pid, path)}
  with open(path, "w") as f:
    json.dump(doc, f, indent=1, default=repr)
  return path


def determinism_gate(pid, path):
  """Replay the witness twice in fresh processes; both must report it."""
  outs = []
  for _ in range(2):
    p = subprocess.run([sys.executable, "-m", "gfamc.runner", pid, "--replay",
                        path], cwd=VERIF, capture_output=True, text=True,
                       timeout=600, env=dict(os.environ, GFAMC_NOGATE="1"))
    outs.append(p.returncode)
  return outs


def finish(ctx, mod):
  pid = ctx.pid
  known = load_known()
  matched = {}
  unmatched = {}
  for v in ctx.violations:
    hit = None
    for i, e in enumerate(known):
      if kf_matches(e, pid, v):
        hit = i
        break
    if hit is not None:
      matched.setdefault(hit, []).append(v)
    else:
      fp = fingerprint(v["clause"], v["key"])
      unmatched.setdefault(fp, v)
  for i, vs in sorted(matched.items()):
    print("KNOWN-FINDING: property={} {} [{} case(s) this run, clause {}]".format(
        pid, known[i].get("what", ""), len(vs), known[i].get("clause")))
  rc = 0
  reported = 0
  gate_errors = []
  for fp, v in sorted(unmatched.items()):
    if reported >= MAX_REPORTED:
      break
    path = write_replay(pid, v)
    if reported < 3 and not os.environ.get("GFAMC_NOGATE"):
      outs = determinism_gate(pid, path)
      if outs != [1, 1]:
        gate_errors.append((path, outs))
        continue
    print("VIOLATION property={} replay={}".format(pid, path))
    print("  clause={} key={}".format(v["clause"], json.dumps(v["key"])))
    reported += 1
    rc = 1
  if len(unmatched) > reported + len(gate_errors):
    print("  ... {} further distinct violation(s) not written out".format(
        len(unmatched) - reported - len(gate_errors)))
  if ctx.overflow:
    # could not match everything against the known-findings file
    print("  {} violations exceeded the in-memory cap of {}; unmatched ones "
          "cannot be excluded".format(ctx.n_violations, MAX_KEPT))
    if rc == 0:
      v = ctx.violations[-1]
      path = write_replay(pid, v)
      print("VIOLATION property={} replay={}".format(pid, path))
      rc = 1
  write_evidence(ctx, matched, unmatched, known)
  if gate_errors and rc == 0:
    for path, outs in gate_errors:
      print("HARNESS-ERROR nondeterministic witness {} replay exits {}".format(
          path, outs))
    return 2
  return rc


def write_evidence(ctx, matched, unmatched, known):
  cov = {
      "states": len(ctx.states),
      "transitions": ctx.transitions,
      "traces_validated_against_impl": ctx.traces,
      "evaluations": ctx.evaluations,
      "distinct_nontrivial": len(ctx.nontrivial),
      "distinct_outcomes": len(ctx.outcomes),
      "rule": ctx.rule,
      "samples": ctx.samples[:12] if ctx.samples else ["<none>"],
      "exhaustive": bool(ctx.exhaustive and not ctx.caps),
      "bound_completed": ctx.bound_completed,
      "caps_hit": ctx.caps,
      "alphabet": ctx.alphabet,
      "known_findings_matched": [
          {"what": known[i].get("what"), "clause": known[i].get("clause"),
           "cases": len(vs)} for i, vs in sorted(matched.items())],
      "unmatched_violation_fingerprints": sorted(unmatched.keys())[:50],
      "nproc": NPROC,
      "repo": REPO,
  }
  cov.update(ctx.extra)
  ev = {"property_id": ctx.pid, "tier": ctx.tier, "seed": ctx.seed,
        "level": "model_checking", "coverage": cov,
        "assumptions": ctx.assumptions, "wall_s": round(ctx.elapsed(), 2),
        "violations": len(unmatched)}
  d = os.environ.get("GFAMC_EVIDENCE_DIR") or os.path.join(VERIF, "evidence")
  os.makedirs(d, exist_ok=True)
  with open(os.path.join(d, ctx.pid + ".json"), "w") as f:
    json.dump(ev, f, indent=1, default=repr, sort_keys=True)
    f.write("\n")


def hashseed_crosscheck(ctx):
  """Re-executes a reduced slice of the exploration in three fresh
  interpreters with PYTHONHASHSEED 0, 1, 2; the digests of the reached states
  and violations must be identical (gfapy iterates sets of strings and of
  Line objects)."""
  procs = []
  for seed in ("0", "1", "2"):
    env = dict(os.environ, PYTHONHASHSEED=seed, GFAMC_NPROC=str(max(2, NPROC // 3)),
               GFAMC_NOGATE="1")
    procs.append((seed, subprocess.Popen(
        [sys.executable, "-m", "gfamc.runner", ctx.pid, "slice"], cwd=VERIF,
        env=env, stdout=subprocess.PIPE, stderr=subprocess.PIPE, text=True)))
  digests = {}
  for seed, p in procs:
    out, err = p.communicate(timeout=3600)
    d = [l for l in out.split("\n") if l.startswith("DIGEST ")]
    digests[seed] = d[0] if d else "no-digest rc={} {}".format(
        p.returncode, err[-300:])
  ctx.extra["hashseed_crosschecks"] = digests
  if len(set(digests.values())) != 1:
    ctx.violation(mkviolation(
        "hash-seed-dependent", {"digests": json.dumps(digests, sort_keys=True)},
        {"kind": "hashseed"}, "identical digests under PYTHONHASHSEED 0,1,2",
        digests, "PYTHONHASHSEED=1 ./check {} slice".format(ctx.pid)))


def setup_env():
  """Make sure the interpreter runs with a fixed hash seed and imports gfapy
  from the tree under test."""
  if os.environ.get("PYTHONHASHSEED") is None:
    env = dict(os.environ, PYTHONHASHSEED="0", PYTHONDONTWRITEBYTECODE="1")
    os.execve(sys.executable, [sys.executable, "-m", "gfamc.runner"] +
              sys.argv[1:], env)
  sys.dont_write_bytecode = True
  if REPO not in sys.path:
    sys.path.insert(0, REPO)
  import gfapy
  got = os.path.dirname(os.path.dirname(os.path.abspath(gfapy.__file__)))
  if os.path.realpath(got) != os.path.realpath(REPO):
    print("HARNESS-ERROR gfapy imported from {} instead of {}".format(got, REPO))
    sys.exit(2)


def main():
  os.chdir(VERIF)
  if VERIF not in sys.path:
    sys.path.insert(0, VERIF)
  setup_env()
  args = sys.argv[1:]
  if len(args) < 2:
    print(__doc__)
    return 2
  pid = args[0].upper()
  mod = importlib.import_module("gfamc.checks." + pid.lower())
  seed = int(os.environ.get("VERIF_SEED", "0") or 0)
  if args[1] == "--replay":
    with open(args[2]) as f:
      doc = json.load(f)
    ctx = Ctx(pid, "quick", seed)
    vs = mod.replay(doc["witness"], ctx) or []
    hit = [v for v in vs if v["clause"] == doc["clause"]
           and v["key"] == doc["key"]]
    for v in vs:
      print("replayed: clause={} key={}".format(v["clause"],
                                                json.dumps(v["key"])))
      print("  expected:", json.dumps(v["expected"], default=repr)[:2000])
      print("  observed:", json.dumps(v["observed"], default=repr)[:2000])
    if hit:
      print("VIOLATION property={} replay={}".format(pid, args[2]))
      return 1
    print("witness no longer violates clause {}".format(doc["clause"]))
    return 0
  if args[1] == "slice":
    # reduced deterministic slice of the exploration, used for the
    # hash-seed cross-check: prints a digest of states and violations
    ctx = Ctx(pid, "quick", seed)
    ctx.slice = True
    try:
      mod.run(ctx)
    finally:
      if _pool is not None:
        _pool.terminate()
    fps = sorted(fingerprint(v["clause"], v["key"]) for v in ctx.violations)
    print("DIGEST {} states={} violations={}".format(
        h([sorted(ctx.states), fps, ctx.transitions]), len(ctx.states),
        len(fps)))
    return 0
  tier = os.environ.get("VERIF_TIER") or args[1]
  if args[1] in ("quick", "thorough"):
    tier = args[1]
  if tier not in ("quick", "thorough"):
    print("unknown tier", tier)
    return 2
  ctx = Ctx(pid, tier, seed)
  try:
    mod.run(ctx)
    if getattr(mod, "HASHSEED_SLICE", False):
      hashseed_crosscheck(ctx)
    rc = finish(ctx, mod)
  except BaseException:
    traceback.print_exc()
    print("HARNESS-ERROR in {} ({})".format(pid, tier))
    rc = 2
  finally:
    if _pool is not None:
      _pool.terminate()
  print("{} {}: evaluations={} states={} transitions={} traces={} outcomes={} "
        "violations={} wall={:.1f}s exit={}".format(
            pid, tier, ctx.evaluations, len(ctx.states), ctx.transitions,
            ctx.traces, len(ctx.outcomes), ctx.n_violations, ctx.elapsed(), rc))
  return rc


if __name__ == "__main__":
  sys.exit(main())
