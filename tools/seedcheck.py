#!/venv/bin/python
"""tools/seedcheck.py <src_dir> <seed_id> <property> [--tier quick] [checks...]
Confirms a seeded change (patch.diff + demo.py in src_dir): applies it to a
scratch copy of /repo under /tmp, runs the repository's suite, runs the demo
with and without the change, runs the named checks (default: the property's
own check) against the changed copy through GFAMC_REPO, stores everything as
/verif/seeded/<seed_id>/ (patch.diff, demo.py, notes.md, meta.json) and removes
the scratch copy."""
import sys, os, subprocess, tempfile, shutil, json, time

def sh(cmd, **kw):
  return subprocess.run(cmd, capture_output=True, text=True, **kw)

def main():
  a = sys.argv[1:]
  src, sid, prop = os.path.realpath(a[0]), a[1], a[2]
  tier = "quick"
  rest = a[3:]
  if rest[:1] == ["--tier"]:
    tier = rest[1]; rest = rest[2:]
  checks = rest or [prop]
  d = tempfile.mkdtemp(prefix="gfamc_seed.", dir="/tmp")
  meta = {"id": sid, "property": prop, "source": "independent sub-agent given only the property text and a scratch worktree",
          "repo_head": sh(["git", "-C", "/repo", "rev-parse", "--short", "HEAD"]).stdout.strip()}
  try:
    for f in sh(["git", "-C", "/repo", "ls-files"]).stdout.split("\n"):
      if f and os.path.exists(os.path.join("/repo", f)):
        dst = os.path.join(d, f); os.makedirs(os.path.dirname(dst), exist_ok=True)
        shutil.copy2(os.path.join("/repo", f), dst)
    sh(["git", "init", "-q", "."], cwd=d)
    patch = os.path.join(src, "patch.diff")
    r = sh(["git", "apply", "--whitespace=nowarn", patch], cwd=d)
    if r.returncode != 0:
      r = sh(["patch", "-p1", "--fuzz=3", "-i", patch], cwd=d)
      if r.returncode != 0:
        print("PATCH DOES NOT APPLY:", r.stdout[-500:], r.stderr[-500:]); return 2
      meta["applied_with"] = "patch --fuzz=3"
    env = dict(os.environ, PYTHONPATH=d, PYTHONDONTWRITEBYTECODE="1")
    r = sh(["/venv/bin/python", "-m", "pytest", "-q", "-p", "no:cacheprovider", "--deselect",
            "tests/test_api_rgfa.py::TestAPIrGfa::test_stable_sequence_names"], cwd=d, env=env)
    meta["suite_with_change"] = r.stdout.strip().split("\n")[-1]
    demo = os.path.join(src, "demo.py")
    r1 = sh(["/venv/bin/python", demo], env=env, cwd=d)
    r0 = sh(["/venv/bin/python", demo], env=dict(os.environ, PYTHONPATH="/repo", PYTHONDONTWRITEBYTECODE="1"), cwd="/repo")
    meta["demo_exit_with_change"] = r1.returncode
    meta["demo_exit_unchanged"] = r0.returncode
    meta["demo_output_with_change"] = (r1.stdout + r1.stderr)[-600:]
    meta["confirmed"] = ("365 passed" in meta["suite_with_change"] and r1.returncode == 1 and r0.returncode == 0)
    env = dict(os.environ, GFAMC_REPO=d, GFAMC_NOGATE="1", GFAMC_EVIDENCE_DIR=os.path.join(d, "_ev"),
               GFAMC_REPLAY_DIR=os.path.join(d, "_rp"))
    meta["checks"] = {}
    for c in checks:
      t0 = time.time()
      r = sh(["/verif/check", c, tier], cwd="/verif", env=env)
      lines = r.stdout.split("\n")
      first = [l.strip() for l in lines if l.startswith("  clause=")][:2]
      verdict = {0: "MISSED", 1: "CAUGHT"}.get(r.returncode, "ERROR")
      meta["checks"][c] = {"tier": tier, "verdict": verdict, "first": first, "wall_s": round(time.time() - t0, 1),
                           "summary": lines[-2] if len(lines) > 1 else ""}
      if verdict == "ERROR":
        meta["checks"][c]["error"] = (r.stdout[-800:] + r.stderr[-800:])
    out = os.path.join("/verif/seeded", sid)
    os.makedirs(out, exist_ok=True)
    if os.path.realpath(out) != src:
      shutil.copy2(patch, os.path.join(out, "patch.diff"))
      shutil.copy2(demo, os.path.join(out, "demo.py"))
      if os.path.exists(os.path.join(src, "notes.md")):
        shutil.copy2(os.path.join(src, "notes.md"), os.path.join(out, "notes.md"))
    old = {}
    mp = os.path.join(out, "meta.json")
    if os.path.exists(mp):
      prev = json.load(open(mp))
      old = prev.get("checks", {})
      if prev.get("note") and not meta["confirmed"]:
        meta["note"] = prev["note"]     # hand-written: why it no longer breaks
    old.update(meta["checks"]); meta["checks"] = old
    json.dump(meta, open(mp, "w"), indent=1)
    print(sid, "confirmed" if meta["confirmed"] else "NOT CONFIRMED", meta["suite_with_change"], "demo", r1.returncode, r0.returncode,
          {c: v["verdict"] for c, v in meta["checks"].items()}, [v["first"][:1] for v in meta["checks"].values()])
  finally:
    shutil.rmtree(d, ignore_errors=True)
  return 0
sys.exit(main())
