#!/venv/bin/python
"""tools/mutant.py [--suite] [--tier quick] (--diff patch.diff | --edit FILE OLD NEW [--edit ...]) -- Cnn [Cnn...]
Applies a change to a scratch copy of /repo (under /tmp, removed afterwards) and
runs the named checks against it through GFAMC_REPO.  Prints one line per check:
  <Cnn> CAUGHT|MISSED|ERROR  (+ first violation clause)"""
import sys, os, subprocess, tempfile, shutil, json

def main():
  a = sys.argv[1:]
  suite = False; tier = "quick"; diff = None; edits = []; checks = []
  i = 0
  while i < len(a):
    if a[i] == "--suite": suite = True; i += 1
    elif a[i] == "--tier": tier = a[i+1]; i += 2
    elif a[i] == "--diff": diff = os.path.realpath(a[i+1]); i += 2
    elif a[i] == "--edit": edits.append((a[i+1], a[i+2], a[i+3])); i += 4
    elif a[i] == "--": checks = a[i+1:]; break
    else: print("bad arg", a[i]); return 2
  d = tempfile.mkdtemp(prefix="gfamc_mut.", dir="/tmp")
  try:
    files = subprocess.run(["git", "-C", "/repo", "ls-files"], capture_output=True, text=True).stdout.split("\n")
    for f in files:
      if not f: continue
      src = os.path.join("/repo", f)
      if not os.path.exists(src): continue
      dst = os.path.join(d, f)
      os.makedirs(os.path.dirname(dst), exist_ok=True)
      shutil.copy2(src, dst)
    if diff:
      subprocess.run(["git", "init", "-q", "."], cwd=d)
      r = subprocess.run(["git", "apply", "--whitespace=nowarn", diff], cwd=d, capture_output=True, text=True)
      if r.returncode != 0:
        print("PATCH DOES NOT APPLY", r.stderr); return 2
    for f, old, new in edits:
      p = os.path.join(d, f)
      s = open(p).read()
      old = old.encode().decode("unicode_escape"); new = new.encode().decode("unicode_escape")
      if s.count(old) != 1:
        print("EDIT: {!r} occurs {} times in {}".format(old, s.count(old), f)); return 2
      open(p, "w").write(s.replace(old, new))
    env = dict(os.environ, PYTHONPATH=d, PYTHONDONTWRITEBYTECODE="1")
    if suite:
      r = subprocess.run(["/venv/bin/python", "-m", "pytest", "-q", "-p", "no:cacheprovider", "-x",
                          "--deselect", "tests/test_api_rgfa.py::TestAPIrGfa::test_stable_sequence_names"],
                         cwd=d, env=env, capture_output=True, text=True)
      print("SUITE:", r.stdout.strip().split("\n")[-1])
    env = dict(os.environ, GFAMC_REPO=d, GFAMC_NOGATE="1", GFAMC_EVIDENCE_DIR=os.path.join(d, "_ev"),
               GFAMC_REPLAY_DIR=os.path.join(d, "_rp"))
    rc = 0
    for c in checks:
      r = subprocess.run(["/verif/check", c, tier], cwd="/verif", env=env, capture_output=True, text=True)
      lines = r.stdout.split("\n")
      first = [l for l in lines if l.startswith("  clause=")][:1]
      verdict = {0: "MISSED", 1: "CAUGHT"}.get(r.returncode, "ERROR")
      print(c, verdict, (first[0].strip()[:220] if first else ""), "|", lines[-2] if len(lines) > 1 else "")
      if verdict == "ERROR":
        print(r.stdout[-1500:], r.stderr[-1500:])
  finally:
    shutil.rmtree(d, ignore_errors=True)
  return 0

sys.exit(main())
