#!/bin/sh
# usage: tools/wave.sh <prefix e.g. /tmp/w4_> <id offset> [props...]
# runs tools/seedcheck.py for <prefix><Cxx>_out/{1,2} -> seeded/<Cxx>-<k+offset>
cd /verif
pre=$1; off=$2; shift 2
props=${*:-C01 C02 C03 C04 C05 C06 C07 C08 C09 C10 C11 C12 C13 C14 C15 C16 C17 C18 C19 C20}
for p in $props; do
  for k in 1 2; do
    d=${pre}${p}_out/$k
    [ -f $d/patch.diff ] || continue
    GFAMC_NPROC=${GFAMC_NPROC:-16} /venv/bin/python tools/seedcheck.py $d $p-$((k+off)) $p 2>&1 | cut -c1-330
  done
done
