#!/bin/sh
# re-confirms every seeded change in /verif/seeded against the current checks
# usage: tools/reseed.sh [stamp-file]   (seeds whose meta.json is newer than
# the stamp file are skipped: lets an interrupted run be continued)
cd /verif
stamp=$1
for d in seeded/*/; do
  id=$(basename "$d")
  prop=$(echo "$id" | cut -d- -f1)
  if [ -n "$stamp" ] && [ -f "$stamp" ] && [ "$d/meta.json" -nt "$stamp" ]; then
    continue
  fi
  extra=""
  case "$id" in C02-1) extra="C02 C05";; C02-2) extra="C02 C08 C09";; C05-2) extra="C05 C02";; C02-7) extra="C02 C08";; C05-8) extra="C05 C19";; C05-9) extra="C05 C02";; esac
  GFAMC_NPROC=${GFAMC_NPROC:-16} /venv/bin/python tools/seedcheck.py "$d" "$id" "$prop" $extra 2>&1 | cut -c1-300
done
