#!/venv/bin/python
"""Regenerates /verif/MANIFEST.json from the table below (kept valid at all
times; validated against /root/.vp/MANIFEST.schema.json when available)."""
import json, os, sys
V = os.path.dirname(os.path.dirname(os.path.abspath(__file__)))

CHECKS = {
 "C02": dict(
   technique="explicit-state BFS over add/rm/disconnect/rename histories on the real Gfa, invariant checked in every state",
   text="Every history of <= d operations (d in evidence.coverage.bfs) over two colliding universes (GFA1: fan-out 2, parallel/asymmetric/complement/self/hairpin links, containments, 3 paths, ID-tagged link; GFA2: dovetail/parallel/containment/internal edges, gap, fragment, nested O and U groups, multi-line group) is executed on gfapy and the closure/symmetry invariant is evaluated through the public API in every distinct reached state.",
   note="Bounded depth and universes; operations that raise are not part of a history (C08); states with ill-typed references are out of scope; observation tables written from doc/tutorial/references.rst.",
   ref="3 C02", engine="H"),
}
CHECKS["C07"] = dict(
   technique="bounded-exhaustive enumeration of input strings / single-point mutations / API strings executed on the real parser, oracle = exception class",
   text="Every string of length <= 3 (all 20 vlevel x version x dialect configurations) and <= 4 quick / <= 5 thorough (reduced configurations) over a 22-symbol critical alphabet is offered as a line and as a document; every single-point mutation (replace/delete/insert over 15 symbols) of a corpus of valid lines and documents of every record type; every string of length <= 3 over 10 symbols through 22 public API entry points; file variants and bin/gfapy-validate. A call must return or raise a gfapy.Error; violations are fingerprinted by (exception class, innermost gfapy file:function of the root cause).",
   note="Alphabets and lengths as stated in the evidence; non-termination approximated by a 3 s per-call budget; undecodable (non-UTF-8) files and OSError are outside the claim.",
   ref="3 C07", engine="I")
CHECKS["C04"] = dict(
   technique="bounded-exhaustive language comparison: every short string per datatype + structure tables + single-point mutations, implementation acceptance vs independent recogniser",
   text="For each of the 7 tag datatypes and 22 positional datatypes every string of length <= 4 (quick) / <= 5 (thorough) over a ~10-symbol critical alphabet (plus boundary values) is hosted in an otherwise valid line; line-structure tables (field counts, tag names, duplicate tags, predefined tag x datatype, LN x sequence, path segments x overlaps, begin/end pairs), every single-point mutation of a corpus line, and document-rule tables (references defined, `$` vs segment length, rGFA) are evaluated at vlevel 1,2,3. gfapy accepts (construction + validate() + clean written form) iff gfamc/ref/grammar.py accepts; the third outcome (accepted, then flagged invalid) is a violation.",
   note="Trusted base: the reference recogniser gfamc/ref/grammar.py (anchored on the repository's test data in C01's self-test); no tab/newline inside field values; abstains where the property leaves `$` usage open.",
   ref="3 C04", engine="I")
CHECKS["C01"] = dict(
   technique="bounded-exhaustive generation of valid documents x configurations, parse->write on the real code, multiset comparison by an independent tokenizer",
   text="Documents: one template per record type x every tag spelling of an 18-entry menu (all 7 datatypes, non-canonical but valid spellings) and every pair; every reference-closed subset of <= 3 (quick) / <= 4 (thorough) of 15 GFA1 / 21 GFA2 line templates; special documents (link in both complement forms, repeated header tags, multi-line groups, comments, empty). Each x 5 entry points (str, str+newline, list, file LF, file CRLF) x vlevel 0..3 x version explicit/auto. Oracle: equal record multisets after the documented normalisations only, no INVALID marker / placeholder written, written form re-parses to the identical text, to_file agrees with str.",
   note="Trusted base: tokenizer/grammar in gfamc/ref/grammar.py, anchored at run time on all 2 451 lines of tests/testdata; documents limited to the stated templates.",
   ref="3 C01", engine="I")
CHECKS["C20"] = dict(
   technique="bounded-exhaustive enumeration of tag values x datatypes x levels through the public setter, write/re-parse compared with an independent grammar",
   text="Every value of a menu (39 boundary integers around 2^7..2^32, 11 floats incl. inf/nan/-0.0, all strings of length <= 2 over 8 critical characters, encoded-text strings, JSON values of <= 3 nodes, all integer arrays of length <= 2 over the boundary integers, float/mixed/empty arrays, NumericArray and ByteArray instances) x declared datatype (none, A,i,f,Z,J,H,B) x 2 tag names x 3 host records x vlevel 0..3. Oracle: documented default datatype; a representable value validates, is written in the datatype's grammar with the smallest B subtype and reads back equal with the same datatype; an unrepresentable one is refused by validate() and never written unmarked at level >= 2.",
   note="Python bool and user classes are outside the claim; pairings the documentation leaves open (int under f, list under H, arrays under J) are not judged.",
   ref="3 C20", engine="I")
CHECKS["C18"] = dict(
   technique="bounded-exhaustive enumeration of (document, level) and of set/observe programs x levels on the real code, cross-level comparison",
   text="(1) Every document of the C01 family is built at levels 0..3 and the four canonical observations (records modulo spelling, names, references, back-references, version) must be equal. (2) For every single-point mutation of the corpus (lines and documents) the accept/reject vector over levels 0..3 must be downward closed. (3) For 20 (record, field) pairs covering all tag datatypes and positional datatypes, every valid and invalid value of a menu, stand-alone and connected, levels 0..3, every program set(f,v);op1;op2 over {get, field_to_s, str, validate_field, validate, none}: a valid assignment is never reported; an invalid one raises at the assignment at level 3, is refused by field_to_s / flagged by str at level >= 2 and by validate_field/validate at every level.",
   note="What get() returns is not judged; cross-field invalidity (LN vs sequence) is only demanded from validate(); texts compared modulo canonical spelling.",
   ref="3 C18", engine="I")
CHECKS["C05"] = dict(
   technique="explicit-state BFS over mutation histories with step-wise conformance against a text-level reference model (gfamc/ref/doc.py)",
   text="BFS over add / rm(id) / disconnect(instance) / rename-to-fresh / set-tag / delete-tag histories (depths in evidence.coverage.bfs) over the G1/G2 universes. After every step that the text model calls legal: the multiset of written records equals the model's text (link == complement), the referenced placeholders equal the model's mentioned-but-undefined identifiers and missing path links, no orphan placeholder is left, and whenever nothing is undefined the whole canonical observation equals that of a Gfa parsed afresh from the model's text.",
   note="Trusted base: gfamc/ref/doc.py (cascade tables of doc/tutorial/references.rst). Steps the model calls illegal, ill-typed references and states with an ambiguous path-to-link binding (parallel links) are not judged; record order is not compared.",
   ref="3 C05", engine="H")
CHECKS["C08"] = dict(
   technique="explicit-state BFS over successful histories x exhaustive failure alphabet in every state, before/after observation equality incl. one-step look-ahead",
   text="In every state reached by <= d successful operations (version fixed, version open, vlevel 1 and 3) every call of a failure alphabet is executed: identifier clashes over all type pairs, lines of the other version, malformed lines, header lines with one good and one conflicting tag, unsupported VN, contradictory tags of multi-line groups, re-adding present lines / equal links, illegal edits of connected lines, renames onto identifiers in use, removal of unknown identifiers. If the call raised, the full observation (ordered text, version, names, references, back-references, header) and the observation after process_line_queue() on a replica must equal those before the call.",
   note="Bounded depth/universes; the failure alphabet is the stated list; hidden state is only observed through the look-ahead.",
   ref="3 C08", engine="H")
CHECKS["C09"] = dict(
   technique="explicit-state BFS over add/rm/rename histories over an identifier alphabet, transitions classified by a text-level model, namespace/lookup invariants in every state",
   text="Identifier alphabet {x, y, 1, 2, *}: every identified record type of each version (S, P, ID-tagged L/C; S, E, G, O, U) under each identifier plus lines that only mention identifiers; add, rm and rename to every identifier, depth in evidence.coverage.bfs. Every transition is classified by gfamc/ref/doc.py as legal (the written records must equal the model, i.e. a rename substitutes the identifier exactly), clash (must raise NotUniqueError and leave the full observation unchanged) or left open. In every state: names has no duplicates and matches the model namespace, line/segment/try_get_line return exactly the carrying line or nothing for 9 probe identifiers, unused_name() is not in use.",
   note="Left open as documented merges: equal/complement link, multi-line groups, group renamed onto a group; renaming onto a mentioned-but-undefined identifier.",
   ref="3 C09", engine="H")
CHECKS["C06"] = dict(
   technique="bounded-exhaustive enumeration of GFA1 and GFA2 graphs converted by the real code, compared record by record with an independent coordinate/alignment model (gfamc/ref/edges.py)",
   text="GFA1->GFA2: every L over 3 topologies x 4 orientation pairs x all CIGARs of <= 3 ops that fit the segments (quick {M,I,D}x{1,2}; thorough {M,I,D,P,=,X}x{1,2,3}) x named/unnamed x sequence/LN; every C at every offset; P lines of 1-3 oriented segments, linear and circular, each edge stored direct or as complement. GFA2->GFA1: the whole 4 orientation pairs x 10 x 10 (begin,end) table of E lines x {a->b, a->a} x named/unnamed x alignment; G, F, U, custom and internal E next to a convertible edge; O lines over 8 orientation triples x edge side x 5 item styles. Oracle clauses: edge-view, line-conversion, edge, segment, tags, edge-id, path, records, string-vs-object, refusal, invalid-output (vlevel-3 parse of the converted text), round-trip.",
   note="Reference gfamc/ref/edges.py anchored at run time on the 800 hand-labelled edges of tests/testdata/gfa2_edges_classification.gfa; whole-segment overlaps only checked for valid output and intervals.",
   ref="3 C06", engine="I")
CHECKS["C11"] = dict(
   technique="exhaustive enumeration of the (orientation pair) x (interval kind)^2 table and of L/C/G shapes x arrival orders on the real code, compared with a first-principles classification",
   text="E lines: 4 orientation pairs x 10 (begin,end) pairs per side (all 7 interval kinds) with the classified segment as sid1, sid2 and both, sequence `*` and given, 3 arrival orders; L, C and G lines for {A->B, B->A, A->A} x 4 orientation pairs x {one, named, two parallel}; all ordered pairs of 24 GFA1 edges; thorough: after renaming either segment, removing the unrelated edge/segment and the edge itself, at vlevel 0, 1, 3. Compared: the seven back-reference collections as multisets, derived collections, neighbours/containers/contained, gfa.dovetails/containments, is_dovetail/containment/internal, from_end/to_end, other_end, other.",
   note="Reference rule re-derived from the specification in gfamc/ref/edges.py and anchored on the 800 at:Z: labels shipped with the repository (self-test in every run; failure = harness error).",
   ref="3 C11", engine="I")
CHECKS["C12"] = dict(
   technique="exhaustive enumeration of links x all short CIGARs (algebra) and of all arrival orders of {S,S,L,complement,P} (graph behaviour) on the real code",
   text="Every link over {A->B, A->A} x 4 orientation pairs x (`*` + all 2 954 CIGARs of <= 3 ops over {M,I,D,P,=,X,H} x {1,2}) (quick: a complete sub-family of 7 176): double complement is the identity textually, reference/query lengths exchanged, is_same/is_complement/is_eql against independently built lines (the link, its complement and up to six differing links), receiver and arguments unchanged; adding the complement is accepted, adds nothing, leaves the stored text; a differing link is a second edge; every permutation of {S A, S B, L, complement, P} x path forward/reversed x overlaps: path.links finds the stored link object with orient + iff the path runs in the stored direction; all paths of 2-3 oriented segments over {A,B,C}.",
   note="Left open by the property and not exercised: `*` against a specified overlap, re-adding a textually equal link, S/N operations.",
   ref="3 C12", engine="I+S")
CHECKS["C14"] = dict(
   technique="complete enumeration of small GFA1/GFA2 graphs, linear_paths/merge_linear_paths executed on the real code, result compared with an independent chain/spelling model (gfamc/ref/graph.py)",
   text="Every GFA1 graph on <= 3 (quick) / <= 4 (thorough) segments with distinct 3-letter sequences, every set of <= 3 / <= 4 links over ALL unordered end pairs (hairpins, self-links, parallels), both record forms, overlaps {*,1M,2M}, `*`+LN variants, decorated variants (H, #, C, P), and GFA2 twins: linear_paths() equals the reference maximal chains modulo reversal/rotation; after merge_linear_paths() the spelled sequence (reverse complement, overlap cut), LN, outward dovetails with ends, untouched lines, component contraction, the C02 invariant and idempotence must match the prediction; a merge that raises must leave the Gfa unchanged.",
   note="gfapy's returned path is used only as the choice of direction/rotation (and checked to be a legal chain); merged names, count and tracking tags are not demanded. One known finding (GFA2 re-attached edges).",
   ref="3 C14", engine="I")
CHECKS["C15"] = dict(
   technique="complete enumeration of small graphs x segment x factor x distribution policy x copy names, multiply() executed on the real code and judged by a text-level predictor (gfamc/ref/multiply.py)",
   text="Every GFA1 graph on <= 3 segments with <= 3 links over all end pairs (self-links, hairpins), <= 1 containment, count tags on every record; every subset of {RC,FC,KC} on segments and edges; copy-name families (automatic, given, taken by a segment/path, repeated, own name, names already ending in *n); GFA2 twins with unnamed and named edges; parallel links and self-containment: factors -1,0,1,2,3 x policies off/auto/equal/L/R. Clauses: copy count/names/equality, count division, every edge copied exactly once per copy, nothing invented, identifiers distinct, rest of the graph textually unchanged, factor 1 no-op, factor 0 = rm, negative refused, distribution strands no neighbour and really distributes, C02 invariant, written form re-parses, copies share no tag value.",
   note="Reference anchored at run time on the 22 stored results of tests/testdata/links_distri.* (must accept all, reject 2 corruptions each). `auto` policy judged leniently (documentation leaves the end open); floor or ceiling division accepted.",
   ref="3 C15", engine="I")
CHECKS["C16"] = dict(
   technique="complete enumeration of small GFA1/GFA2 graphs plus explicit-state BFS over mutation histories, topology queries on the real code vs union-find on the written text",
   text="The C14 graph family, GFA2 twins, GFA2 graphs mixing dovetail/containment/internal E lines over all orientation pairs and interval kinds, and every state of a depth-3/4 history search over four universes: connected_components() is a partition equal to the union-find partition over dovetails only, segment_connected_component(s) is s's class (by name and by line), n_dovetails/n_containments/n_internals/n_dead_ends equal the counts obtained from the text by the reference classification.",
   note="Reference classification anchored on the 800 labelled edges; states with placeholder segments are expanded but not judged; remove_small_components is not judged.",
   ref="3 C16", engine="I+H")
CHECKS["C17"] = dict(
   technique="exhaustive enumeration of O/U item lists, nested definitions, two- and three-line group definitions in all arrival orders and placements, on the real code vs an independent text-level model (gfamc/ref/groups.py)",
   text="Graph a,b,c with e1 a+ b+, e2 b+ c- in six variants (parallel edge, cycle edge, both, complement-form edges). Every O item list of length <= 3 over {a,b,c,e1,e2 with both orientations} on all variants, definitions first and group first; every list containing a nested o1 x definitions of o1 (thorough: all 110 lists of length <= 2); every U list of length <= 3 over {a,b,e1,g1,o1,u0} x nested definitions; every split of a list into two (and three) lines sharing the identifier x 8 tag modes (incl. contradictory and contradictory-with-zero) x both arrival orders x every placement among the other lines. Clauses: invalid-walk, accepts-invalid-items, rejects-valid-path, wrong-walk, segments-edges-differ, induced-set, merge-items/tags/records, merge-accepts-contradiction, merge-refused-state-changed, validate on unresolved items.",
   note="An E line is read as an adjacency of two oriented segments (either order); where the specification is silent (segment that is no end of its neighbouring edge, gap in a set, nested path without a defined walk) only the validity of a returned walk is judged; Gfa.validate() is not asked to detect non-contiguous paths (the suite's valid_path.gfa2 forbids it).",
   ref="3 C17", engine="I+S")
CHECKS["C03"] = dict(
   technique="all n! arrival orders of every enumerated document executed on the real code, canonical observations compared across orders and with an order-free text model (gfamc/ref/closure.py)",
   text="Every reference-closed subset of the G1 and G2 universes of <= 5 lines (quick) / <= 6 (thorough) whose path steps are supported by exactly one link, plus ten 6-7 line seeds (one per referencing record family, and two in which a record mentions an identifier twice); all n! orders through Gfa(list) (and incremental add_line + process_line_queue, and from_file). Across orders: same outcome, version, names, records (link == complement, canonicalised together with its targets), reference targets, back-reference multisets, path steps (link modulo complement + direction of traversal); no placeholder left for a defined identifier; validate() passes; every order equals the model's prediction; a fixed slice re-run under PYTHONHASHSEED 1 and 2.",
   note="Record order and order inside back-reference lists are free; documents with a `*`-versus-CIGAR parallel link or an ambiguous path step are skipped (left open).",
   ref="3 C03", engine="S")
CHECKS["C13"] = dict(
   technique="all arrival orders of every multiset of line kinds x version parameter x dialect x entry point on the real code, outcome compared with the set-intersection model gfamc/ref/versions.py",
   text="16 line kinds (H with VN 1.0 / 2.0 / none / 3.0, S in GFA1 and GFA2 syntax carrying tags of every datatype, L, C, P, E, F, G, O, U, custom, comment); every multiset of <= 4 kinds (quick; thorough <= 5) instantiated consistently; every order; version in {None, gfa1, gfa2} x dialect {standard, rgfa} x vlevel x entry {Gfa(list), incremental + process_line_queue, from_file, Line objects}. VersionError in every order iff the intersection of allowed versions (content, parameter, dialect) is empty; a document valid in one version is accepted as that version in every order; same outcome for all orders; every input line occurs exactly once in g.lines; a decided version never changes.",
   note="For version-neutral documents only order independence is demanded; size-4 (quick) and size-5 (thorough) multisets use the stated subset of configurations.",
   ref="3 C13", engine="S")
CHECKS["C10"] = dict(
   technique="exhaustive (state, query), (query, query) enumeration on the real code: deep observation before/after, repeated answers, answers against a fresh replica",
   text="States: every state of a depth-2 (quick) / depth-3 (thorough) history BFS on G1/G2, one document per record template x tag set covering all datatypes, multi-valued headers, dangling-reference documents, vlevel-0 documents with non-canonical spellings; stand-alone alignment/position/oriented values (all CIGARs of <= 2/3 ops). Query menu of 100-750 read-only calls per state (every Gfa collection/counter/finder/topology query, every line-level read, comparison, diff, clone, validate, conversion string, every per-field read, every stored-value operation). Clauses: frame (deep observation unchanged), twice (same answer), argument (arguments unchanged), sequence and pair (answer of q2 after q1 equals q2 on a fresh replica).",
   note="Excluded as documented mutators: to_gfa2 of an unnamed connected L/C (assigns an ID) and unused_name(). Exceptions are outcomes (C07 owns foreign ones). One known finding (level-0 lazy decoding re-spells a field on first read).",
   ref="3 C10", engine="H+I")
CHECKS["C19"] = dict(
   technique="exhaustive enumeration of line templates x tag sets x contexts x in-place edits on the real code; object-graph walk for shared mutable state",
   text="31 line templates (every record type of both versions, every positional datatype) x tag sets over nine tag values (all datatypes, nested JSON) x contexts (stand-alone, read, connected, connected with dangling references, multi-valued headers) x vlevels: clone.gfa is None, str(clone) equals the original's text, clone == original both ways, no Line/Gfa reachable from the clone, no mutable object shared (walk of both instances); then every (field, in-place edit) pair - list/CIGAR/Trace/NumericArray/FieldArray append, item assignment, pop, clear; dict edits; OrientedLine orient/line/invert; CIGAR operation code/length; set/delete/set_datatype - applied to the clone and, separately, to the original, to depth 2 (quick) / 3 (thorough).",
   note="LastPos and Placeholder objects are treated as immutable values.",
   ref="3 C19", engine="I")
NOT_BUILT = {}

# additions made after the first build (seeded waves 3-5); appended to `text`
ADDENDA = {
 "C19": " The T / M extension records of the tutorial (two reference fields), cloned in a process of its own.",
 "C18": " Lines produced by gfapy (merged segments, copies of multiply, converted lines, clones) obey the level of their Gfa. A new tag on a copy, then a tag of that name and another type on another line, is accepted at every level. Positions with begin == end (empty interval) on F lines are valid at every level.",
 "C10": " Ordered groups that begin with, or list later, an edge walked backwards.",
 "C01": " Tags named like a predefined tag of the other version or like a field alias (LN on a GFA2 segment); custom record types of several letters before / after the version is known.",
 "C02": " Also: the same search from the fully loaded universes (`@full`, depth 3 quick / 4 thorough), and lines that are refused only after their first references were resolved, offered in every state in which they are refused. Operations that name an unnamed link / containment and delete its ID; continuation lines of a multi-line group that add, then contradict a tag; removed Line objects added again. Operation conv over a convertible GFA1 universe (to_gfa2_s assigns IDs to the unnamed links of the source, which must stay closed, symmetric and found under those IDs); operation addshare (a line built through the API whose field value is the very object another line holds; the state key tells shared objects from equal values); a model-free namespace-coherence clause.",
 "C03": " A path over a hairpin link with an asymmetric CIGAR: the overlap as read along the path is part of the observation compared between orders. Seed documents with two paths over one link in opposite directions and asymmetric CIGARs, link written in either form. Selected seeds also at validation levels 0 and 3, one seed with valid non-canonical lazily parsed tags on lines queued while the version is unknown. The lines of the GFA2 seeds also arrive, in all orders, in a Gfa produced by to_gfa2().",
 "C04": " The `$` rule with the judged segment on either side of the edge and the other side with / without a sequence. The verdict of every document-table entry must be the same through Gfa(list), Gfa(string) and Gfa.from_file; lines ending in blanks / tabs.",
 "C05": " Also from the fully loaded universes (`@full`), with the operations `nameit` (give an unnamed line an identifier) and delete of the ID tag of a link / containment. Operations addclone (clone of a segment added as Line object), readd (a removed Line object added again), set(tag, None); the core specs also from their loaded universe.",
 "C06": " Path cases also with the path arriving before its links and together with the path walking the same links backwards. Header tag sets and comments in both directions (to_gfaN and to_gfaN_s); line-level to_gfa2_s of paths before / after their unnamed links, assembled and validated. A path moved from one Gfa to another is converted as a line of the Gfa it is in (differential against the same text parsed afresh). Ordered groups that walk over a containment or an internal alignment: dropped by the graph conversion, refused line by line, never written as a P line.",
 "C07": " Two-step API programs: a refused call (caught), then ordinary calls on the same objects. Less-used queries and options taking a name (is_cut_segment, segment_connected_component, linear_path, multiply, merge with merged_name), None assigned to every field name, programs on a connected fragment, files read with progress logging (part = 0, 0.1, 0.5, 1, 2), one extreme field at a time, attribute-like tag names.",
 "C08": " Also from the fully loaded universes (`@full`); failure alphabet includes lines refused after their first side was resolved (second side names a non-segment; first side known only from a group). header.add with another datatype / an invalid value; edits of the external / sid field of a connected fragment; refused E / G lines named like an identifier a group mentions in advance. H lines that fix the version and cannot be merged.",
 "C09": " Also from the fully loaded universes; a path over an ID-tagged link (placeholder link replaced by a link whose ID may be in use); delete of the ID tag. An accepted operation that the model leaves open must still leave a coherent namespace (model-free check, also for replaced lines); `*` as value of the ID tag; a further line of a group that another group lists. Also searched from a state in which a placeholder segment survives only because a group lists the identifier.",
 "C11": " Post-operations `refused` (line refused after its first side was resolved) and `in-out` (line over placeholders added and removed). Post-operations rm-line (the judged edge removed by instance) and a path over the judged link arriving before / after it.",
 "C12": " Family twopaths: two paths walking one link in opposite directions, link written in either form, segments bare or with sequence/tags, all arrival orders, complement of the stored link taken after every arrival. The algebra / graph / twopaths families again at validation levels 0 and 3.",
 "C13": " Entry points `clones` (cloned Line objects) and `carry` (refused lines dropped, the caller carries on: what the Gfa holds must be a document of the version it reports). carry also at level 0 with the exactly-once clause only; level 0 x entry list (multisets of up to 3 lines, both tiers) for every multiset without a VN header (mixed content is refused with VersionError at level 0 too).",
 "C14": " The families again at validation levels 0/2/3; GFA2 twins with the sides of the E lines exchanged and with identical parallel E lines. One probe graph per IUPAC letter and case on a segment that is reverse-complemented; GFA2 decorations (one read with fragments on several segments, header, comment, custom record). Segment variant with LN on some sequence-carrying segments only.",
 "C15": " Links / containments with ID tags; opposite-direction parallel links with I/D overlaps; the graph is judged as built. After the operation a new tag on a copy and a tag of that name and another type on the original are independent.",
 "C16": " Also from the fully loaded graph-shaped universes (`@full`); refused operations are judged; a query that raises on a well-formed document is a violation. A model-free namespace-coherence clause on every accepted operation; a second containment edge in the GFA2 universe.",
 "C17": " Families Uanon (unnamed / parallel / hairpin edges in induced sets) and Urename (groups queried and extended after a rename, differential against a fresh parse of the renamed text). Graphs with a containment, an internal alignment, a self-edge, a dovetail + internal pair between two items; identical unnamed twin edges; tags of non-default datatypes on multi-line groups.",
 "C20": " Tag histories (set, delete, set with another type; differential against a fresh line) and `header.add` without datatype on a declared tag. Clone programs (first value on the clone, second on the original and vice versa); string values also through to_file / from_file.",
}


def main():
  for k, v in ADDENDA.items():
    CHECKS[k]["text"] = CHECKS[k]["text"].rstrip() + v
  props = [json.loads(l) for l in open(os.path.join(V, "properties.jsonl"))]
  checks, na = [], []
  for p in props:
    pid = p["id"]
    if pid in CHECKS:
      c = CHECKS[pid]
      checks.append({
        "property_id": pid,
        "quick_cmd": "./check {} quick".format(pid),
        "thorough_cmd": "./check {} thorough".format(pid),
        "evidence_file": "/verif/evidence/{}.json".format(pid),
        "replay_cmd_template": "./check {} --replay {{path}}".format(pid),
        "engine": c["engine"],
        "level_claimed": {"category": "model_checking", "text": c["text"],
                          "design_ref": "DESIGN.md section " + c["ref"]},
        "level_note": c["note"],
        "technique": c["technique"],
      })
    else:
      na.append({"property_id": pid, "reason": NOT_BUILT.get(
          pid, "check not built yet in this tree; the technique applies (see DESIGN.md section 3), nothing is claimed until the check exists")})
  m = {
    "version": 1,
    "setup_cmd": "cd /verif && /venv/bin/python -m gfamc.selfcheck",
    "hooks": {"guard": "GFAPY_VERIF",
              "enable": "no hooks: checks import gfapy from /repo's working tree (PYTHONPATH=/repo) and observe it through the public API",
              "baseline_off_cmd": "cd /repo && /venv/bin/python -m pytest -ra -q -p no:cacheprovider --timeout=900 --continue-on-collection-errors",
              "source_commits": [], "add_only": True},
    "engines": [
      {"name": "H", "path": "gfamc/explore.py", "serves_properties": ["C02","C05","C08","C09","C10","C16"],
       "kind_free_text": "explicit-state breadth-first search over operation histories by replay on fresh Gfa objects, canonical-observation deduplication"},
      {"name": "S", "path": "gfamc/schedules.py", "serves_properties": ["C03","C13","C17"],
       "kind_free_text": "all arrival orders (n!) of the lines of each enumerated document"},
      {"name": "I", "path": "gfamc/enumstr.py", "serves_properties": ["C01","C04","C06","C07","C11","C12","C14","C15","C18","C19","C20"],
       "kind_free_text": "bounded-exhaustive enumeration of input shapes compared with an independent reference model (gfamc/ref)"},
    ],
    "checks": checks,
    "not_applicable": na,
    "notes": "Every check: ./check <Cnn> quick|thorough; exit 0 / 1 (+VIOLATION line) / 2 (harness error). Known findings: /verif/known_findings.json. Replays: /verif/replays/<Cnn>/*.json.",
  }
  if not na:
    m.pop("not_applicable")
  with open(os.path.join(V, "MANIFEST.json"), "w") as f:
    json.dump(m, f, indent=1)
    f.write("\n")
  print("MANIFEST.json written: {} checks, {} not claimed".format(len(checks), len(na)))

if __name__ == "__main__":
  main()
