#!/venv/bin/python
"""tools/runall.py [quick|thorough] [seed ...]  -- runs every registered check
once per seed on the unchanged tree, validates each evidence file against
EVIDENCE.schema.json, and prints a table (exit status, wall, counters).  With
two or more seeds the counters must be identical (VERIF_SEED never changes what
is explored)."""
import sys, os, json, subprocess, time
V = os.path.dirname(os.path.dirname(os.path.abspath(__file__)))
tier = sys.argv[1] if len(sys.argv) > 1 else "quick"
seeds = [int(x) for x in sys.argv[2:]] or [0]
only = os.environ.get("ONLY", "").split(",") if os.environ.get("ONLY") else None
m = json.load(open(os.path.join(V, "MANIFEST.json")))
rows = {}
bad = 0
for c in m["checks"]:
  pid = c["property_id"]
  if only and pid not in only:
    continue
  for s in seeds:
    t0 = time.time()
    p = subprocess.run([os.path.join(V, "check"), pid, tier], cwd=V, capture_output=True, text=True,
                       env=dict(os.environ, VERIF_SEED=str(s)))
    wall = time.time() - t0
    ev = json.load(open(os.path.join(V, "evidence", pid + ".json")))
    v = subprocess.run(["python3-vt", "-c", "import json,jsonschema,sys; jsonschema.validate(json.load(open(sys.argv[1])), json.load(open('/root/.vp/EVIDENCE.schema.json')))",
                        os.path.join(V, "evidence", pid + ".json")], capture_output=True, text=True)
    cov = ev["coverage"]
    sig = (cov["states"], cov["transitions"], cov["traces_validated_against_impl"], cov["evaluations"], cov["distinct_outcomes"])
    kf = sum(1 for l in p.stdout.split("\n") if l.startswith("KNOWN-FINDING"))
    rows.setdefault(pid, []).append(sig)
    ok = p.returncode == 0 and v.returncode == 0 and ev["seed"] == s and ev["tier"] == tier
    if not ok:
      bad += 1
    print("{} seed={} exit={} schema={} wall={:6.1f}s states={} transitions={} traces={} evals={} outcomes={} known={} exhaustive={}".format(
        pid, s, p.returncode, "ok" if v.returncode == 0 else "INVALID", wall, *sig, kf, cov.get("exhaustive")), flush=True)
    if p.returncode != 0:
      print(p.stdout[-1500:])
for pid, sigs in rows.items():
  if len(set(sigs)) != 1:
    bad += 1
    print("NONDETERMINISTIC COUNTERS", pid, sigs)
print("problems:", bad)
sys.exit(1 if bad else 0)
